#!/bin/bash
# Runs the repository's pinned test suite (guard off) and compares with BASELINE.json's stable_pass list.
# usage: tools/run_baseline.sh <out-prefix>
OUT=${1:-/tmp/baseline_run}
cd /repo && /venv/bin/python -m pytest -ra -q -p no:cacheprovider --timeout=900 --continue-on-collection-errors --junitxml=$OUT.xml > $OUT.log 2>&1
/venv/bin/python - "$OUT.xml" <<'PY'
import json, sys, xml.etree.ElementTree as ET
base = set(json.load(open('/root/.vp/BASELINE.json'))['stable_pass'])
passed = set()
for tc in ET.parse(sys.argv[1]).getroot().iter('testcase'):
    if not any(ch.tag in ('failure', 'error', 'skipped') for ch in tc):
        passed.add(f"{tc.get('classname')}::{tc.get('name')}")
missing = sorted(base - passed)
print("stable_pass:", len(base), "passed now:", len(passed), "stable tests no longer passing:", len(missing))
for m in missing[:40]:
    print("  MISSING", m)
PY
