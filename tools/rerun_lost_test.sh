#!/bin/bash
# Re-runs, alone and with a generous timeout, the pinned tests that a seed's full-suite run lost (typically the
# 900 s pytest-timeout of the heaviest regression test on a loaded machine), in a scratch worktree with the
# seed's patch applied, and records the outcome in the seed's meta.json.   usage: tools/rerun_lost_test.sh <seed-dir>
SD=$(realpath "$1"); NAME=$(basename "$SD")
TESTS=$(/venv/bin/python - "$SD/meta.json" <<'PY'
import json, re, sys
m = json.load(open(sys.argv[1]))
s = m.get("confirmed", {}).get("pinned_test_suite_with_change", "")
mm = re.search(r"missing=\[(.*)\]", s)
ids = re.findall(r"'([^']+)'", mm.group(1)) if mm else []
out = []
for t in ids:
    mod, rest = t.split("::", 1) if "::" in t else (t, "")
    parts = mod.split(".")
    # classname is dotted module path + class: tests.test_regression.TestFFMRegression
    path = "/".join(parts[:-1]) + ".py::" + parts[-1] + ("::" + rest if rest else "")
    out.append(path)
print(" ".join(out))
PY
)
[ -z "$TESTS" ] && { echo "$NAME: nothing to re-run"; exit 0; }
WT=$(mktemp -d /tmp/rerun_${NAME}_XXXX)
git -C /repo worktree add -q --detach "$WT/wt" HEAD || exit 9
cd "$WT/wt"; git apply "$SD/patch.diff" || { echo "$NAME: patch does not apply"; cd /; git -C /repo worktree remove --force "$WT/wt"; rm -rf "$WT"; exit 9; }
PYTHONPATH="$WT/wt" nice -n 5 /venv/bin/python -m pytest -q -p no:cacheprovider --timeout=3000 $TESTS > "$WT/log" 2>&1; RC=$?
TAIL=$(tail -1 "$WT/log")
/venv/bin/python - "$SD/meta.json" "$RC" "$TAIL" "$TESTS" <<'PY'
import json, sys
p, rc, tail, tests = sys.argv[1:5]
m = json.load(open(p))
m.setdefault("confirmed", {})["lost_tests_rerun_alone"] = {"tests": tests, "exit": int(rc), "summary": tail, "how": "tools/rerun_lost_test.sh (scratch worktree with the patch, the lost tests alone, --timeout=3000)"}
json.dump(m, open(p, "w"), indent=1)
PY
echo "$NAME rerun rc=$RC $TAIL"
cd /; git -C /repo worktree remove --force "$WT/wt"; rm -rf "$WT"
