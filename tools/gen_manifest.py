#!/usr/bin/env python3
"""Regenerates /verif/MANIFEST.json from the tables below and validates it.

Run:  python3-vt tools/gen_manifest.py
"""
import json, os, sys

HERE = os.path.dirname(os.path.dirname(os.path.abspath(__file__)))

BASELINE_CMD = (
    "cd /repo && /venv/bin/python -m pytest -ra -q -p no:cacheprovider "
    "--timeout=900 --continue-on-collection-errors"
)

NA_COMMON = (
    "whole-pipeline property (map_workload_to_arch / evaluate_mapping / join_pmappings): "
)

NOT_APPLICABLE = {
    "C01": NA_COMMON + "optimality over an implicitly defined mapspace; no function-local postcondition expresses 'no valid mapping is better' without a reference enumerator (different technique family). DESIGN 6.",
    "C02": NA_COMMON + "completeness/minimality of the returned front over the mapspace; the filter-local half is decided under C11/C12. DESIGN 6.",
    "C03": NA_COMMON + "validity of returned LoopTrees needs a reference model re-deriving occupancy/fan-out/constraints from the reconstructed mapping. DESIGN 6.",
    "C04": NA_COMMON + "relation between two pipelines (merge_next summation vs evaluate_mapping) over pandas tables. DESIGN 6.",
    "C05": NA_COMMON + "needs an executable LoopTree semantics as spec and induction over arbitrary nests through sympy objects. DESIGN 6.",
    "C06": NA_COMMON + "execution-time peak occupancy vs reservation algebra over pandas columns; needs a reference executor. DESIGN 6.",
    "C07": NA_COMMON + "equality of two evaluations through symengine/sympy/lambdify (external symbolic engines). DESIGN 6.",
    "C08": NA_COMMON + "700-line numpy/sympy pruned enumeration whose soundness rests on sympy verdicts; no contract within reach. DESIGN 6.",
    "C13": NA_COMMON + "staged pandas joins vs exhaustive combination; relational, not function-local. DESIGN 6.",
    "C14": NA_COMMON + "relation between two whole join runs with accelerations on/off. DESIGN 6.",
    "C16": NA_COMMON + "composition of per-stage roundings across make/prune/join; only the per-call bound (C12) is contract-local. DESIGN 6.",
    "C17": NA_COMMON + "relation between several mapper runs (2-safety over the whole pipeline). DESIGN 6.",
    "C18": NA_COMMON + "relation between two mapper runs on different specs. DESIGN 6.",
    "C19": NA_COMMON + "relation between two mapper runs with scaled cost parameters. DESIGN 6.",
    "C20": NA_COMMON + "schedule/hash-seed/cache quantifier over the whole mapper and joblib; the runner-local part is C32. DESIGN 6.",
}

sys.path.insert(0, os.path.dirname(os.path.abspath(__file__)))
# tools_checks.py: CHECKS (id -> dict(level, text, note, technique, design_ref)),
# PENDING (id -> reason while a planned check is not built), SOURCE_COMMITS
from tools_checks import CHECKS, PENDING, SOURCE_COMMITS  # noqa: E402


def main():
    checks = []
    for pid in sorted(CHECKS):
        c = CHECKS[pid]
        checks.append(
            {
                "property_id": pid,
                "quick_cmd": f"python3-vt -m vf check {pid} --tier quick",
                "thorough_cmd": f"python3-vt -m vf check {pid} --tier thorough",
                "evidence_file": f"evidence/{pid}.json",
                "replay_cmd_template": "python3-vt -m vf replay {path}",
                "engine": "pyvc",
                "level_claimed": {
                    "category": c["level"],
                    "text": c["text"],
                    "design_ref": c["design_ref"],
                },
                "level_note": c["note"],
                "technique": c["technique"],
            }
        )
    na = []
    all_ids = [json.loads(l)["id"] for l in open(os.path.join(HERE, "properties.jsonl"))]
    for pid in all_ids:
        if pid in CHECKS:
            continue
        reason = NOT_APPLICABLE.get(pid) or PENDING.get(pid)
        assert reason, pid
        na.append({"property_id": pid, "reason": reason})
    manifest = {
        "version": 1,
        "setup_cmd": "python3-vt -m vf setup",
        "hooks": {
            "guard": "ACCELFORGE_VERIF",
            "enable": "none needed: contracts are sidecars in /verif/contracts and the VC generator reads /repo's source with ast on every run; no guarded hook exists in /repo",
            "baseline_off_cmd": BASELINE_CMD,
            "source_commits": SOURCE_COMMITS,
            "add_only": True,
        },
        "engines": [
            {
                "name": "pyvc",
                "path": "vf/",
                "serves_properties": sorted(CHECKS),
                "kind_free_text": "Python ast -> z3 verification-condition generator (forward symbolic execution of the real FunctionDefs in /repo, loops cut at sidecar invariants, calls replaced by callee contracts); discharge with z3 5.1 (python wheel), /usr/bin/cvc5 and /usr/bin/z3 as fall-backs; arithmetic / summation lemmas are themselves lemma VCs proved by the same solvers (induction steps stated explicitly; Lean is not used); counter-models replayed on the real code under /venv/bin/python",
            }
        ],
        "checks": checks,
        "notes": "Technique family: contract-based deductive verification of the real code. See DESIGN.md. Exit codes of every check: 0 held, 1 violation (VIOLATION line), 2 undecided, 3 checker error.",
        "not_applicable": na,
    }
    out = os.path.join(HERE, "MANIFEST.json")
    with open(out, "w") as f:
        json.dump(manifest, f, indent=1)
        f.write("\n")
    try:
        import jsonschema

        schema = json.load(open("/root/.vp/MANIFEST.schema.json"))
        jsonschema.validate(manifest, schema)
        print("MANIFEST.json valid;", len(checks), "checks,", len(na), "not applicable")
    except ImportError:
        print("written (jsonschema unavailable)")


if __name__ == "__main__":
    main()
