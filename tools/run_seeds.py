#!/usr/bin/env python3
"""Runs the registered quick check of each seeded change's property against a scratch copy of
/repo with seeded/<name>/patch.diff applied (copy outside /repo and /verif, removed afterwards;
the check reads it through VF_REPO and writes its evidence into the copy, never into /verif).
Records the outcome in seeded/<name>/meta.json under "detection".
usage: python3-vt tools/run_seeds.py [name ...]   (default: all)"""
import json, os, shutil, subprocess, sys, tempfile, time
from concurrent.futures import ThreadPoolExecutor

HERE = os.path.dirname(os.path.dirname(os.path.abspath(__file__)))


def run_one(name):
    sd = os.path.join(HERE, "seeded", name)
    meta = json.load(open(os.path.join(sd, "meta.json")))
    pid = meta["property"]
    tmp = tempfile.mkdtemp(prefix="vfseed_")
    try:
        dst = os.path.join(tmp, "repo")
        shutil.copytree("/repo", dst, ignore=shutil.ignore_patterns(".git", "__pycache__", "*.svg", "notebooks", "docs"))
        r = subprocess.run(["git", "apply", "--unsafe-paths", "--directory", dst, os.path.join(sd, "patch.diff")], capture_output=True, text=True, cwd="/")
        if r.returncode != 0:
            r = subprocess.run(["patch", "-p1", "-d", dst, "-i", os.path.join(sd, "patch.diff")], capture_output=True, text=True)
            if r.returncode != 0:
                return name, pid, "PATCH-DOES-NOT-APPLY", (r.stdout + r.stderr)[-200:], 0
        t0 = time.time()
        env = dict(os.environ, VF_REPO=dst, VERIF_SEED="1")
        try:
            r = subprocess.run(["python3-vt", "-m", "vf", "check", pid, "--tier", "quick"], env=env, capture_output=True, text=True, cwd=HERE, timeout=1500)
        except subprocess.TimeoutExpired:
            return name, pid, "TIMEOUT", "check did not finish within 1500 s", 1500
        dt = time.time() - t0
        lines = [l for l in r.stdout.splitlines() if l.startswith("VIOLATION")]
        tail = (r.stdout + r.stderr).strip().splitlines()[-1][:200] if (r.stdout + r.stderr).strip() else ""
        return name, pid, r.returncode, (lines[0][:300] if lines else tail), dt
    finally:
        shutil.rmtree(tmp, ignore_errors=True)


def main():
    names = sys.argv[1:] or sorted(os.listdir(os.path.join(HERE, "seeded")))
    with ThreadPoolExecutor(max_workers=int(os.environ.get("VF_SEED_PAR", "2"))) as ex:
        for name, pid, rc, line, dt in ex.map(run_one, names):
            verdict = "caught" if rc == 1 and line.startswith("VIOLATION") else ("undecided" if rc in (2, 3) else "MISSED" if rc == 0 else str(rc))
            print(f"{name} ({pid}): exit={rc} {verdict} {dt:.0f}s {line}", flush=True)
            p = os.path.join(HERE, "seeded", name, "meta.json")
            m = json.load(open(p))
            m["detection"] = {"check": f"python3-vt -m vf check {pid} --tier quick (VF_REPO=<scratch copy with the patch applied>)", "exit": rc, "verdict": verdict, "line": line, "seconds": round(dt)}
            json.dump(m, open(p, "w"), indent=1)


main()
