#!/bin/bash
# Confirms a seeded change in its own scratch worktree (outside /repo and /verif):
#   demo fails with the change / passes without, and the pinned test suite still passes with it.
# usage: tools/confirm_seed.sh <seed-dir containing patch.diff demo.py meta.json> [--no-tests]
SD=$(realpath "$1"); NAME=$(basename "$SD")
WT=$(mktemp -d /tmp/confirm_${NAME}_XXXX)
git -C /repo worktree add -q --detach "$WT/wt" HEAD || exit 9
cd "$WT/wt"
PYTHONPATH="$WT/wt" /venv/bin/python "$SD/demo.py" > "$WT/demo_without.log" 2>&1; W0=$?
git apply "$SD/patch.diff" 2>/dev/null || patch -p1 -s --fuzz=3 -i "$SD/patch.diff" > /dev/null 2>&1 || { echo "$NAME patch does not apply to the current HEAD (the repository was repaired in the same place after the seed was made)"; git -C /repo worktree remove --force "$WT/wt"; rm -rf "$WT"; exit 9; }
find . -name "*.orig" -o -name "*.rej" | xargs rm -f
PYTHONPATH="$WT/wt" /venv/bin/python "$SD/demo.py" > "$WT/demo_with.log" 2>&1; W1=$?
TESTS="skipped"
if [ "$2" != "--no-tests" ]; then
  PYTHONPATH="$WT/wt" nice -n 15 /venv/bin/python -m pytest -q -p no:cacheprovider --timeout=900 --continue-on-collection-errors --junitxml="$WT/junit.xml" > "$WT/pytest.log" 2>&1
  TESTS=$(/venv/bin/python - "$WT/junit.xml" <<'PY'
import json, sys, xml.etree.ElementTree as ET
base = set(json.load(open('/root/.vp/BASELINE.json'))['stable_pass'])
passed = set()
for tc in ET.parse(sys.argv[1]).getroot().iter('testcase'):
    if not any(ch.tag in ('failure', 'error', 'skipped') for ch in tc):
        passed.add(f"{tc.get('classname')}::{tc.get('name')}")
missing = sorted(base - passed)
print(f"stable_pass={len(base)} passing_with_change={len(base & passed)} missing={missing[:5]}")
PY
)
fi
echo "$NAME demo_without_change_exit=$W0 demo_with_change_exit=$W1 tests: $TESTS"
/venv/bin/python - "$SD/meta.json" "$W0" "$W1" "$TESTS" <<'PY'
import json, sys
p, w0, w1, tests = sys.argv[1:5]
m = json.load(open(p))
m["confirmed"] = {"demo_exit_without_change": int(w0), "demo_exit_with_change": int(w1), "pinned_test_suite_with_change": tests,
                  "how": "tools/confirm_seed.sh in a scratch git worktree of /repo HEAD (removed afterwards)"}
json.dump(m, open(p, "w"), indent=1)
PY
cd /; git -C /repo worktree remove --force "$WT/wt"; rm -rf "$WT"
