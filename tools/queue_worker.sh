#!/bin/bash
# runs the commands appended to /tmp/vf_queue one after the other (background helper)
Q=/tmp/vf_queue; touch $Q; N=0
while true; do
  L=$(sed -n "$((N+1))p" $Q)
  if [ -z "$L" ]; then sleep 30; continue; fi
  N=$((N+1))
  [ "$L" = "STOP" ] && exit 0
  echo "### $(date +%H:%M) $L" >> /tmp/vf_queue.log
  bash -c "$L" >> /tmp/vf_queue.log 2>&1
done
