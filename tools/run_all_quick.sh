#!/bin/bash
# Exercises /verif the way it is used: setup, then every quick_cmd of MANIFEST.json once on the
# current /repo tree, each with its evidence file removed first; fails unless every check exits 0,
# prints no VIOLATION line, rewrites its evidence file, and the file validates (tools/validate_evidence.py).
# Run this (on the unchanged tree) before committing evidence/.   usage: tools/run_all_quick.sh [ids...]
cd "$(dirname "$0")/.." || exit 3
export CARGO_NET_OFFLINE=true GOPROXY=off PIP_NO_INDEX=1 VERIF_SEED=${VERIF_SEED:-1} VERIF_TIER=quick
LOGS=$(mktemp -d /tmp/vf_runall_XXXX); BAD=0
$(jq -r .setup_cmd MANIFEST.json) > $LOGS/setup.log 2>&1 || { echo "SETUP FAILED"; tail -5 $LOGS/setup.log; exit 1; }
IDS=${@:-$(jq -r '.checks[].property_id' MANIFEST.json)}
for id in $IDS; do
  cmd=$(jq -r --arg i $id '.checks[]|select(.property_id==$i)|.quick_cmd' MANIFEST.json)
  ev=$(jq -r --arg i $id '.checks[]|select(.property_id==$i)|.evidence_file' MANIFEST.json)
  rm -f "$ev"; t0=$(date +%s)
  bash -c "$cmd" > $LOGS/$id.log 2>&1; rc=$?
  msg="ok"
  [ $rc -ne 0 ] && msg="EXIT $rc"
  grep -q '^VIOLATION' $LOGS/$id.log && msg="$msg VIOLATION-LINE"
  [ -f "$ev" ] || msg="$msg EVIDENCE-NOT-REWRITTEN"
  [ "$msg" != ok ] && BAD=1
  echo "$id rc=$rc $(( $(date +%s) - t0 ))s $msg $(grep -c '^KNOWN-FINDING' $LOGS/$id.log) known-finding line(s)"
done
python3-vt tools/validate_evidence.py || BAD=1
[ $BAD -eq 0 ] && rm -rf $LOGS || echo "logs kept in $LOGS"
exit $BAD
