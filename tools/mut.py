#!/usr/bin/env python3
"""Mutant self-test helper: copies /repo to a scratch dir outside /repo and /verif,
replaces OLD by NEW (exactly one occurrence, or the k-th with --nth) in FILE, runs the
check of PID against the copy (VF_REPO), prints the exit code and removes the copy.

usage: python3-vt tools/mut.py PID FILE OLD NEW [--nth K] [--tier quick]
"""
import argparse, os, shutil, subprocess, sys, tempfile

ap = argparse.ArgumentParser()
ap.add_argument("pid"); ap.add_argument("file"); ap.add_argument("old"); ap.add_argument("new")
ap.add_argument("--nth", type=int, default=None)
ap.add_argument("--tier", default="quick")
ap.add_argument("--tail", type=int, default=12)
a = ap.parse_args()
tmp = tempfile.mkdtemp(prefix="vfmut_")
try:
    dst = os.path.join(tmp, "repo")
    shutil.copytree("/repo", dst, ignore=shutil.ignore_patterns(".git", "__pycache__", "*.svg", "notebooks", "docs"))
    p = os.path.join(dst, a.file)
    s = open(p).read()
    n = s.count(a.old)
    if n == 0 or (n > 1 and a.nth is None):
        print(f"pattern occurs {n} times"); sys.exit(9)
    if a.nth is None:
        s = s.replace(a.old, a.new)
    else:
        parts = s.split(a.old)
        s = a.old.join(parts[: a.nth + 1]) + a.new + a.old.join(parts[a.nth + 1:])
    open(p, "w").write(s)
    env = dict(os.environ, VF_REPO=dst)
    r = subprocess.run(["python3-vt", "-m", "vf", "check", a.pid, "--tier", a.tier], env=env, capture_output=True, text=True, cwd=os.path.dirname(os.path.dirname(os.path.abspath(__file__))))
    out = (r.stdout + r.stderr).strip().splitlines()
    print("\n".join(out[-a.tail:]))
    print("EXIT", r.returncode)
finally:
    shutil.rmtree(tmp, ignore_errors=True)
