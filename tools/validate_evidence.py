"""Validates /verif/evidence/*.json the way the harness does: against EVIDENCE.schema.json, plus
the level rules the schema only states in prose (proof: discharged == obligations; a quiet run has
violations == 0) and agreement with MANIFEST.json (every claimed check has a file whose level is
the claimed category).  Run before every commit of /verif: exit 0 only if every file is valid.
usage: python3-vt tools/validate_evidence.py [--committed]   (--committed: validate git HEAD's copies)"""
import json, os, subprocess, sys
import jsonschema

VERIF = os.path.dirname(os.path.dirname(os.path.abspath(__file__)))
schema = json.load(open('/root/.vp/EVIDENCE.schema.json'))
manifest = json.load(open(os.path.join(VERIF, 'MANIFEST.json')))
committed = '--committed' in sys.argv
ok = True
for chk in manifest['checks']:
    pid, rel = chk['property_id'], chk['evidence_file']
    try:
        if committed:
            txt = subprocess.run(['git', '-C', VERIF, 'show', 'HEAD:' + rel], capture_output=True, text=True, check=True).stdout
        else:
            txt = open(os.path.join(VERIF, rel)).read()
        ev = json.loads(txt)
        jsonschema.validate(ev, schema)
        c = ev['coverage']
        problems = []
        if ev['property_id'] != pid:
            problems.append(f"property_id {ev['property_id']} != {pid}")
        if ev['level'] != chk['level_claimed']['category']:
            problems.append(f"level {ev['level']} != claimed {chk['level_claimed']['category']}")
        if ev['level'] == 'proof' and c.get('obligations') != c.get('discharged'):
            problems.append(f"discharged ({c.get('discharged')}) != obligations ({c.get('obligations')})")
        if ev['level'] == 'proof' and 'obligations' not in c:
            problems.append('proof keys absent (undecided run)')
        if ev.get('violations'):
            problems.append(f"violations = {ev['violations']}")
        if c.get('undecided_reason') or c.get('undecided_obligations'):
            problems.append(f"undecided: {c.get('undecided_reason') or c.get('undecided_obligations')}")
        if not c.get('samples'):
            problems.append('no samples')
        if problems:
            raise ValueError('; '.join(problems))
        print(pid, ev['level'], 'ok', 'tier=' + ev['tier'], 'seed=%s' % ev['seed'], c.get('obligations'), c.get('discharged'), c.get('evaluations'), c.get('distinct_nontrivial'), 'wall=%ss' % ev['wall_s'])
    except Exception as e:
        ok = False
        print(pid, 'INVALID', str(e)[:300])
sys.exit(0 if ok else 1)
