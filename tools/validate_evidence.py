import json, sys, glob, jsonschema
schema = json.load(open('/root/.vp/EVIDENCE.schema.json'))
ok = True
for f in sorted(glob.glob('/verif/evidence/*.json')):
    try:
        ev = json.load(open(f)); jsonschema.validate(ev, schema)
        c = ev['coverage']
        print(f.split('/')[-1], ev['level'], 'ok', c.get('obligations'), c.get('discharged'), c.get('evaluations'), c.get('distinct_nontrivial'))
    except Exception as e:
        ok = False; print(f, 'INVALID', str(e)[:200])
sys.exit(0 if ok else 1)
