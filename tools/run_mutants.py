#!/usr/bin/env python3
"""Seeded-mutant self-test: every mutant in tools/mutants/<PID>.json (a deliberately broken
body in a scratch copy of /repo, outside /repo and /verif, removed afterwards) must make the
check of <PID> exit 1 with a VIOLATION line.   usage: python3-vt tools/run_mutants.py PID [PID..]"""
import json, os, shutil, subprocess, sys, tempfile
from concurrent.futures import ThreadPoolExecutor

HERE = os.path.dirname(os.path.dirname(os.path.abspath(__file__)))


def run_one(pid, m):
    tmp = tempfile.mkdtemp(prefix="vfmut_")
    try:
        dst = os.path.join(tmp, "repo")
        shutil.copytree("/repo", dst, ignore=shutil.ignore_patterns(".git", "__pycache__", "*.svg", "notebooks", "docs", "examples"))
        p = os.path.join(dst, m["file"])
        s = open(p).read()
        n = s.count(m["old"])
        if n != 1:
            return m["name"], "BAD-PATTERN(%d)" % n, ""
        open(p, "w").write(s.replace(m["old"], m["new"]))
        env = dict(os.environ, VF_REPO=dst)
        r = subprocess.run(["python3-vt", "-m", "vf", "check", pid, "-q"], env=env, capture_output=True, text=True, cwd=HERE)
        lines = [l for l in r.stdout.splitlines() if l.startswith("VIOLATION")]
        return m["name"], r.returncode, (lines[0][:160] if lines else (r.stdout + r.stderr).strip().splitlines()[-1][:160] if (r.stdout + r.stderr).strip() else "")
    finally:
        shutil.rmtree(tmp, ignore_errors=True)


def main():
    bad = 0
    for pid in sys.argv[1:]:
        ms = json.load(open(os.path.join(HERE, "tools", "mutants", pid + ".json")))
        with ThreadPoolExecutor(max_workers=int(os.environ.get("VF_MUT_PAR", "2"))) as ex:
            for name, rc, line in ex.map(lambda m: run_one(pid, m), ms):
                ok = rc == 1
                bad += not ok
                print(f"{pid} {name}: exit={rc} {'caught' if ok else 'MISSED'} {line}")
    sys.exit(1 if bad else 0)


main()
