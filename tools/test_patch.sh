#!/bin/bash
# Runs the pinned suite on a scratch worktree of /repo HEAD with the given patch applied (or none).
# usage: tools/test_patch.sh <label> [patch-file]
L=$1; WT=$(mktemp -d /tmp/tp_${L}_XXXX)
git -C /repo worktree add -q --detach $WT/wt HEAD
cd $WT/wt; [ -n "$2" ] && git apply "$2"
PYTHONPATH=$WT/wt nice -n 15 /venv/bin/python -m pytest -q -p no:cacheprovider --timeout=900 --continue-on-collection-errors --junitxml=$WT/j.xml > $WT/log 2>&1
/venv/bin/python - $WT/j.xml <<'PY'
import json, sys, xml.etree.ElementTree as ET
base = set(json.load(open('/root/.vp/BASELINE.json'))['stable_pass'])
passed = set()
for tc in ET.parse(sys.argv[1]).getroot().iter('testcase'):
    if not any(ch.tag in ('failure', 'error', 'skipped') for ch in tc):
        passed.add(f"{tc.get('classname')}::{tc.get('name')}")
print("RESULT stable_pass", len(base), "passing", len(base & passed), "missing", sorted(base - passed)[:6])
PY
cd /; git -C /repo worktree remove --force $WT/wt; rm -rf $WT
