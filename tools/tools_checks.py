"""Table of claimed checks; MANIFEST.json is generated from this (tools/gen_manifest.py)."""

SOURCE_COMMITS = []

_P = "planned at proof level (DESIGN 3) but the check is not built yet; not claimed until it is"
_B = "planned as a bounded stand-in (DESIGN 4) but the check is not built yet; not claimed until it is"

PENDING = {
    "C09": _B, "C10": _P, "C11": _P, "C12": _P, "C15": _P, "C21": _P, "C22": _P,
    "C23": _B, "C24": _B, "C25": _P, "C26": _P, "C27": _P, "C28": _P, "C29": _P,
    "C30": _P, "C31": _P, "C32": _P,
}

_TB = "Trusted: the VC generator vf/ (Python ast -> z3) and its models of Python built-ins; z3/cvc5; arithmetic idealisations listed in the evidence 'assumptions'; assumed contracts of external functions listed there. "

CHECKS = {
    "C30": dict(
        level="proof",
        text="Deductive: the real per_loop_transfer_cost methods and their helpers are symbolically executed from /repo's source on every run; total hops and max per-link traffic are proved equal to the route-enumeration spec (recursive spec functions hops_uni/cnt, closed forms proved by induction as lemma VCs) for every n>=1, stride>=1, volume>=0, both topologies. Known finding F8 (n=1 multicast) is excluded only from the two obligations it names and its witness is replayed on the real code each run. A bounded cross-check of the executable spec against the real code (n<=32, s<=8) corroborates the spec itself.",
        note=_TB + "Real arithmetic for sympy/float values; _get_physical_fanout_along is an assumed pure function; distributed-source branch is outside the property (precondition pf<=1).",
        technique="contract-based deductive verification (ast->z3 VCs, induction lemmas), counter-model replay on real code",
        design_ref="DESIGN 3 C30",
    ),
    "C10": dict(
        level="proof",
        text="Deductive, all three clauses: _factorize (result = exactly the divisors, ascending), _divisors (the sorted enumeration of the divisor set), get_possible_factor_sizes in both modes (perfect: exactly the multiples of inner dividing outer; imperfect: within [1, outer] and, for every tile count reachable by a multiple of inner, the smallest shape with that count) and _count_factorizations == the brute-force chain count (one contract instance per imperfection pattern of length <= 4, each for every n >= 1; sums handled by a proved extensionality lemma) are proved from the real source with loop invariants; nonlinear integer operations are uninterpreted in function VCs and every arithmetic fact is a separately proved lemma VC. A bounded cross-check of the executable specs against the real functions corroborates the specs.",
        note=_TB + "A-FLOATDIV (ceil/round/sqrt of float quotients are exact for the sizes involved); numpy array(sorted(.)) and ndarray*int elementwise; sorted(set) is a function of the set; coarseness fixed to 1 and patterns of length <= 4 (the property's quantifier).",
        technique="contract-based deductive verification (ast->z3 VCs, loop invariants, lemma VCs for nonlinear arithmetic and finite sums); bounded run-time cross-check",
        design_ref="DESIGN 3 C10",
    ),
    "C32": dict(
        level="proof",
        text="Deductive: parallel() (list, list+generator_unordered and dict modes, sequential and joblib branches), its nested generator yield_results, the tagging closure f and _dict_job are symbolically executed from the real source; joblib is an assumed contract in which the completion order is a universally quantified bijection pi (any order, any worker count), so result[i] == run(jobs[i]) and dict[k] == run(jobs[k]) are proved for every job list and every completion order. A bounded cross-check runs the real parallel() with sleeping jobs over lengths x worker counts.",
        note=_TB + "joblib Parallel/delayed assumed (each job run exactly once; order = some bijection); function-value dispatch (calling the value of a def runs that def); generators modelled by their yielded sequence; pbar=None (progress bar outside the property); dict key order not claimed.",
        technique="contract-based deductive verification (ast->z3 VCs, loop invariant over a symbolic permutation), bounded run-time cross-check",
        design_ref="DESIGN 3 C32",
    ),
    "C22": dict(
        level="proof",
        text="Deductive: the five InvertibleSet operators (& | - ^ ~, each against an InvertibleSet and against a plain set), to_my_space and _make_set are symbolically executed from the real source; proved for all sets: the result's instance is the set-algebra result, its universe (full_space) is the receiver's, complement is taken within that universe, and the representation invariant instance <= full_space is preserved -- so every value of a set expression (Python applies exactly these dunders) is the set-algebra value. For dictionaries keyed by set expressions, the evaluation loop of eval_set_expression_dict (slice) is proved to keep `Other` = All minus everything evaluated so far, so a key `Other` (evaluated last) makes the keys cover All and overlaps no other key; the overlap check (slice, itertools.combinations modelled as all index pairs) is proved to let only pairwise-disjoint keys through. NOT proved: that the named sets built in Einsum._eval_expressions (Inputs, Outputs, Intermediates, Shared, Persistent, tensor names; all with full_space = the Einsum's tensors) are what the statement says -- that dict literal is outside the engine's subset and is covered by the bounded cross-check only (random expression trees over all named sets evaluated on real Specs).",
        note=_TB + "Python eval / operator dispatch and frozenset algebra assumed; pydantic construction stores keyword arguments; eval_set_expression of a key assumed to return an InvertibleSet over the table's universe (a plain symbol returns its table entry); re.findall for `Other` outside the slices; named-set construction bounded only.",
        technique="contract-based deductive verification (ast->z3 VCs over a heap of set-valued fields, slices with loop invariants); bounded run-time cross-check for the named-set table",
        design_ref="DESIGN 3 C22",
    ),
    "C29": dict(
        level="proof",
        text="Deductive: Renames.get_renames_for_einsum (whole function, four loops with invariants), the rename-merge statement range of Einsum._eval_expressions (slice located by source anchors on every run), the by-name lookup of EvalableList.__getitem__ (slice; it is the meaning of `name in table` / `table[name]`) and Rename._eval_expressions (expected_count rejection) are symbolically executed from the real source over a Burstall heap; proved for every rename table: Einsum-local names resolve to their own source, names under the Einsum's top-level entry resolve to that source, default-only names resolve to the default source, nothing else is defined, a mismatching expected_count never returns normally. Genuine defect F7 was repaired in /repo (fix: commit); the bounded cross-check evaluates random real Specs.",
        note=_TB + "pydantic construction / deepcopy / RenameList(list) assumed (fresh objects, equal fields); names inside one rename list and top-level entry names are distinct (precondition: the real lookup raises otherwise); the rest of Einsum._eval_expressions outside the slice is dropped; super()._eval_expressions of a Rename assumed.",
        technique="contract-based deductive verification (ast->z3 VCs over a heap model, loop invariants, slices), bounded run-time cross-check",
        design_ref="DESIGN 3 C29",
    ),
}
for k in CHECKS:
    PENDING.pop(k, None)
