"""Table of claimed checks; MANIFEST.json is generated from this (tools/gen_manifest.py)."""

SOURCE_COMMITS = []

_P = "planned at proof level (DESIGN 3) but the check is not built yet; not claimed until it is"
_B = "planned as a bounded stand-in (DESIGN 4) but the check is not built yet; not claimed until it is"

PENDING = {
    "C09": _B, "C10": _P, "C11": _P, "C12": _P, "C15": _P, "C21": _P, "C22": _P,
    "C23": _B, "C24": _B, "C25": _P, "C26": _P, "C27": _P, "C28": _P, "C29": _P,
    "C30": _P, "C31": _P, "C32": _P,
}

_TB = "Trusted: the VC generator vf/ (Python ast -> z3) and its models of Python built-ins; z3/cvc5; arithmetic idealisations listed in the evidence 'assumptions'; assumed contracts of external functions listed there. "

CHECKS = {
    "C30": dict(
        level="proof",
        text="Deductive: the real per_loop_transfer_cost methods and their helpers are symbolically executed from /repo's source on every run; total hops and max per-link traffic are proved equal to the route-enumeration spec (recursive spec functions hops_uni/cnt, closed forms proved by induction as lemma VCs) for every n>=1, stride>=1, volume>=0, both topologies. Known finding F8 (n=1 multicast) is excluded only from the two obligations it names and its witness is replayed on the real code each run. A bounded cross-check of the executable spec against the real code (n<=32, s<=8) corroborates the spec itself.",
        note=_TB + "Real arithmetic for sympy/float values; _get_physical_fanout_along is an assumed pure function; distributed-source branch is outside the property (precondition pf<=1).",
        technique="contract-based deductive verification (ast->z3 VCs, induction lemmas), counter-model replay on real code",
        design_ref="DESIGN 3 C30",
    ),
    "C09": dict(
        level="exploration",
        text="BOUNDED stand-in (never counted as proved): the real geq_leq_zero / diff_geq_leq_zero are called on an enumerated, explicitly bounded family of (formula, integer box) cases and every non-'unknown' verdict is checked at every integer point of the box with exact rational arithmetic (both calling modes; caches cleared and a reversed warm-cache pass). The comparator decides through sympy's assumption system and function_range, which no contract language available here can model, so no deductive check is attempted. Five classes of unsound verdicts found on the unchanged tree are recorded as known findings F9-F13 with witnesses that are replayed on every run.",
        note="Bound: expression grammar of depth <= 2 (quick; every depth <= 1 formula, 750 seeded depth-2 formulas and 63 targeted ones) / <= 3 (thorough) over <= 3 positive integer symbols with + - * /, ceiling, Min, Max, Heaviside, constants 1..3; boxes 1 <= lo <= hi <= 3 (quick) / 4 (thorough). Not exhaustive beyond depth 1. sympy itself is trusted only as the system under test; reference values are computed with Fractions by the oracle.",
        technique="bounded run-time contract check of the real function (enumerated formulas x boxes, exact evaluation)",
        design_ref="DESIGN 4 C09",
    ),
    "C10": dict(
        level="proof",
        text="Deductive, all three clauses: _factorize (result = exactly the divisors, ascending), _divisors (the sorted enumeration of the divisor set), get_possible_factor_sizes in both modes (perfect: exactly the multiples of inner dividing outer; imperfect: within [1, outer] and, for every tile count reachable by a multiple of inner, the smallest shape with that count) and _count_factorizations == the brute-force chain count (one contract instance per imperfection pattern of length <= 4, each for every n >= 1; sums handled by a proved extensionality lemma) are proved from the real source with loop invariants; nonlinear integer operations are uninterpreted in function VCs and every arithmetic fact is a separately proved lemma VC. A bounded cross-check of the executable specs against the real functions corroborates the specs.",
        note=_TB + "A-FLOATDIV (ceil/round/sqrt of float quotients are exact for the sizes involved); numpy array(sorted(.)) and ndarray*int elementwise; sorted(set) is a function of the set; coarseness fixed to 1 and patterns of length <= 4 (the property's quantifier).",
        technique="contract-based deductive verification (ast->z3 VCs, loop invariants, lemma VCs for nonlinear arithmetic and finite sums); bounded run-time cross-check",
        design_ref="DESIGN 3 C10",
    ),
    "C31": dict(
        level="exploration",
        text="BOUNDED stand-in (never counted as proved): the real Spec.evaluate_mapping is run on generated single-Einsum specs with one or two Tolls between memories (every loop skeleton of a small exhaustive core, per-tensor directions up / down / up_and_down given as strings or per-tensor dicts, five ways of giving values-per-action, tensors bypassing levels) and the Toll's read actions are compared with the number of values crossing it in the configured direction(s), computed in the oracle by walking the loop nest with explicit coordinate sets, divided by values-per-action; they must be zero for tensors / directions not configured; Toll write actions, occupancy and reservation columns and the buffet statistics max_occupancy / total_write_actions must be zero and Memory usage must equal that of the same mapping without the Toll. evaluate_mapping must refuse hand-written two-Einsum mappings whose first holder of the shared tensor is a Toll, and in every mapping returned by the real map_workload_to_arch on nine small Toll architectures no Toll may be the outermost holder of a shared tensor. analyze_storage / run_model compute these numbers through sympy expressions over a mapping tree; contracts for analyze_toll and the outermost-holder loop are designed (DESIGN 3 C31) but not built.",
        note="Bound: matmul / matvec / outer product with rank-variable bounds 1..4 (thorough 1..5), three architectures, <= 2 extra tile levels per variable; exhaustive core matmul 2x2x2 on Main/G1/Buf with loops above / below the Toll as ordered variable lists of length <= 1 (thorough <= 2), twelve rounds per skeleton (156 / 444 cases); 7 hand-written holder cases; 2 / 24 mapper calls on 2-3 Einsum chains with bounds <= 3 / 4. Excluded (stated in the oracle's rule): read counts where an uneven tile sits under another loop over the same variable (the model approximates iteration counts there for every holder, not only Tolls); no spatial fan-out, no sliding-window projections.",
        technique="bounded run-time contract check of the real model and mapper against an explicit walk of the loop nest",
        design_ref="DESIGN 3 C31, 8.6",
    ),
    "C32": dict(
        level="proof",
        text="Deductive: parallel() (list, list+generator_unordered and dict modes, sequential and joblib branches), its nested generator yield_results, the tagging closure f and _dict_job are symbolically executed from the real source; joblib is an assumed contract in which the completion order is a universally quantified bijection pi (any order, any worker count), so result[i] == run(jobs[i]) and dict[k] == run(jobs[k]) are proved for every job list and every completion order. A bounded cross-check runs the real parallel() with sleeping jobs over lengths x worker counts.",
        note=_TB + "joblib Parallel/delayed assumed (each job run exactly once; order = some bijection); function-value dispatch (calling the value of a def runs that def); generators modelled by their yielded sequence; pbar=None (progress bar outside the property); dict key order not claimed.",
        technique="contract-based deductive verification (ast->z3 VCs, loop invariant over a symbolic permutation), bounded run-time cross-check",
        design_ref="DESIGN 3 C32",
    ),
    "C11": dict(
        level="exploration",
        text="BOUNDED stand-in (never counted as proved): the real fast_pareto_mask (distinct True/False) and makepareto_numpy are run on an enumerated core of small matrices with every goal vector plus seeded random matrices (ties in float32 row sums, +inf, values that collide in float32, integers around 2**24 and 2**31, several diff groups incl. the float32 pair-packed path, constant columns, anti-chains longer than two 16-row blocks, duplicates, n = 0/1/2) and the mask is compared with the O(n^2) definition written in the oracle (prime-factor expansion by trial division, exact comparison, first duplicate kept). The filter core _sfs_bnl_core is numba-compiled numeric code with float32 row sums and a stable argsort; contracts for it are designed (DESIGN 3 C11) but not built, so nothing is claimed as proved. Three genuine defects found were repaired in /repo (fix: f9fa95e 2-D sweep sentinel, 338bbc5 in-place negation, 5d27380 empty table); two are recorded as known findings F2 (float32 sum ties) and F3 (float32 narrowing) with witnesses replayed on every run.",
        note="Bound: enumerated core d=1 n<=4 over {0,1,2}; d=2 n<=3 over {0,1,2}; d=3 n<=3 over {0,1}, every goal vector from {min,max,diff}^d; infinite values d=2 over {0,1,inf}, d=3 over {0,inf}; prime-factor goals over {1,2,3,4,6,12}; 1500 (quick) / 30000 (thorough) seeded random matrices of <= 300 (400) rows x <= 8 columns. Assumes no NaN, no -0.0, |integers| <= 2**53, prime-factor columns hold integers >= 1. The real code runs in a child interpreter (a bad index inside numba code can kill the process).",
        technique="bounded run-time contract check of the real functions against the definition (enumerated core + seeded adversarial random matrices)",
        design_ref="DESIGN 3 C11, 8.6",
    ),
    "C12": dict(
        level="exploration",
        text="BOUNDED stand-in (never counted as proved): the real pareto.makepareto and PmappingDataframe construction / make_pareto are run on generated pandas tables whose columns carry their class by construction (objective / reservation / fused-loop / n_iterations / split / ignored and look-alike names). Zero tolerance: the kept rows must equal the O(n^2) definition (not dominated on objective+reservation columns by a row with identical fused-loop tile shapes; first of equal rows kept), the frame returned must be the input restricted to them, the input unmodified. With tolerances: every dropped row must be dominated within (1+t) on objectives and within the stated absolute/relative slack on reservations by a kept row of the same group. Adding / removing constant columns must not change the kept rows. The code under test is pandas column algebra over names (multi_round, groupby-free masks, concat); pandas is outside the VC generator.",
        note="Bound: directed 2-3 row tables per convention name; exhaustive zero-tolerance cores over <= 3 (quick) / 4 (thorough) rows with values in {1,2}; exhaustive 2-row tolerance core over {1, 1.03125, 1.5, 2.5}^2 under 6 / 26 tolerance triples; 1400 / 50000 seeded random tables of 0-150 rows. Values are exactly float32-representable with exact row sums and |v| < 2**14 so that the float32 findings of C11 (F2, F3) stay out of C12.",
        technique="bounded run-time contract check of the real functions against the definition (enumerated cores + seeded random tables)",
        design_ref="DESIGN 3 C12, 8.6",
    ),
    "C15": dict(
        level="exploration",
        text="BOUNDED stand-in (never counted as proved): real PmappingGroup / PmappingDataframe / Compatibility objects are compressed with the real compress_einsum2pmappings, a join is simulated in the oracle by selecting rows of the compressed tables (copying their <einsum><SEP>compressed_index values), and the real decompress_pmappings must give one result row per joined row carrying exactly the non-joining columns of the pmapping rows it was built from (every other cell missing); compressed rows must equal the originals restricted to joining columns and index values must be pairwise different across the groups of an Einsum. The functions are pandas operations (reset_index, column selection, merge on index, concat) that the VC generator cannot execute.",
        note="Bound: exhaustive core (Einsum A with 1-3 groups of 0..2 (thorough 0..3) rows with different column sets, every non-empty subset of its rows ascending or descending; Einsum B one 2-row group), group sizes [1,300,2] (thorough also [40000,3,30000]) around positions 127/128, 255/256, 32767/32768, and 200 / 2000 seeded random cases (1-4 Einsums, 1-4 groups, 0-5 rows, prefix-related names, 6 index styles, 0-9 non-joining columns of 6 dtypes, 1-4 selections each with repeats / boundaries / reversed order). Not in the family: an empty joined table, an Einsum with no rows, NaN cells, bool columns.",
        technique="bounded run-time contract check of the real functions on real pmapping tables with a simulated join",
        design_ref="DESIGN 3 C15, 8.6",
    ),
    "C25": dict(
        level="exploration",
        text="BOUNDED stand-in (never counted as proved): for every Compute of every generated architecture tree the real Spec._get_flattened_architecture (all computes, by name, by object), Arch._flatten on the evaluated and the raw Arch, and _flatten of every nested Hierarchical / Fork containing the compute must return, as (class, name) sequences, exactly the required path: two independent statements of it written in the oracle (a structural recursion, and 'non-Compute leaves before the compute in preorder whose enclosing Forks all contain the compute, then the compute') are cross-checked against each other on every input before the real code is consulted. Contracts for Hierarchical._flatten (recursion over a heap tree with a recursively defined inclusion predicate) are designed (DESIGN 3 C25) but not built.",
        note="Bound: trees of depth <= 4 (root + <= 3 nested Hierarchical / Fork levels) from Memory, Toll, Container, Compute leaves with fan-outs 1-4, possibly empty branches, >= 1 Compute; exhaustive core: every shape with <= 4 nodes through the Spec and <= 5 nodes through _flatten (thorough: 5 and 6); 1000 / 20000 seeded random trees with <= 16 leaves. Array nodes are outside the property's quantifier.",
        technique="bounded run-time contract check of the real functions against two independent statements of the path (exhaustive small trees + seeded random trees)",
        design_ref="DESIGN 3 C25, 8.6",
    ),
    "C28": dict(
        level="exploration",
        text="BOUNDED stand-in (never counted as proved): real Mappings objects are built around synthetic DataFrames generated from a ground-truth list (Einsum, component, tensor, action) -> per-row values with the model's real column naming; energy() for all 16 per_* flag combinations, actions() for all 8, latency() for all 4 and resource_usage() are compared key by key and row by row with group-by sums / maxima of that list; the per-row sum of every breakdown must be identical across flag combinations and equal the Total<SEP>energy / Total<SEP>latency columns when present; list_if_one_mapping both ways; calls in seeded random order with repeats; the DataFrame must be unchanged afterwards. A genuine defect found (a component named like a tensor lost its entries) was repaired in /repo (fix: 758370a). The column selection is string parsing of '<SEP>'-separated names over pandas; contracts for the aggregation loops are designed (DESIGN 3 C28) but not built.",
        note="Bound: 1-3 Einsums (names may equal a tensor or component name), 2-5 components, 1-3 tensors per Einsum of 6 plus 'None' and leak entries, 5 actions, 1-4 rows, three index styles, int64 / float64 columns, shuffled column order, 0-3 reservation columns per memory, dyadic values <= 2**20 (exact sums); exhaustive core of 62 (thorough +225) tables, 80 / 1500 random tables. Outside the family: tables without any energy or latency breakdown, negative reservations.",
        technique="bounded run-time contract check of the real methods against group-by sums of a ground-truth list",
        design_ref="DESIGN 3 C28, 8.6",
    ),
    "C21": dict(
        level="proof",
        text="Deductive: _get_parsable_field_order (whole function, five loops with invariants, termination variant) is proved for every list of (field, value, validator) triples with distinct names and every pre-given order: the result keeps the given order as a prefix, contains every field, contains no field twice, and places every field after all fields whose names occur as whole words in its non-literal string value (exactly the code's notion of dependency: re.findall(r'\\b'+re.escape(name)+r'\\b', value), abstract); hence no value is returned when the dependencies contain a cycle (no order can satisfy the postcondition) and, the loop terminating, EvaluationError is raised, which is proved to happen only when every remaining entry still waits for an unordered dependency. The evaluation loop of Evalable._eval_expressions_final (slice, both the setattr and the item mode) is proved to evaluate the names in that order, each over the symbol table in which all earlier names are bound to their evaluated values (a recursively defined table sequence), to bind the result under the name (so an inner definition shadows an outer one of the same name) and to store it in the object. EvalableModel/EvalableDict/EvalableList._eval_expressions are proved to hand a COPY of the caller's symbol table to that loop (ownership obligation: the caller's table is never mutated, so names of one object do not leak to its siblings or parents) and, for lists, an order that lists every index. BOUNDED, not proved: how Spec / Arch / Component plumb the tables through the nesting levels (spec variables -> arch variables -> component attributes) -- random definition DAGs and cycles at six nesting levels through the real Spec API.",
        note=_TB + "re.findall / re.escape / typing.get_origin / is_literal_string / eval_field / get_validator are assumed pure functions of their arguments (eval_field does not modify the table it is given); an object's attribute namespace is a finite map; post_calls == () in the loop contract; _eval_expressions_final as a whole is an assumed contract at its three call sites (its loop is verified as slices); pydantic model_copy / EvalableDict(...) / EvalableList(...) make new containers with the same content; field names of one object are distinct.",
        technique="contract-based deductive verification (ast->z3 VCs, loop invariants, ghost index function, recursively defined table sequence, ownership obligations), bounded run-time cross-check through the real Spec API",
        design_ref="DESIGN 3 C21, 8.6",
    ),
    "C22": dict(
        level="proof",
        text="Deductive: the five InvertibleSet operators (& | - ^ ~, each against an InvertibleSet and against a plain set), to_my_space and _make_set are symbolically executed from the real source; proved for all sets: the result's instance is the set-algebra result, its universe (full_space) is the receiver's, complement is taken within that universe, and the representation invariant instance <= full_space is preserved -- so every value of a set expression (Python applies exactly these dunders) is the set-algebra value. For dictionaries keyed by set expressions, the evaluation loop of eval_set_expression_dict (slice) is proved to keep `Other` = All minus everything evaluated so far, so a key `Other` (evaluated last) makes the keys cover All and overlaps no other key; the overlap check (slice, itertools.combinations modelled as all index pairs) is proved to let only pairwise-disjoint keys through. NOT proved: that the named sets built in Einsum._eval_expressions (Inputs, Outputs, Intermediates, Shared, Persistent, tensor names; all with full_space = the Einsum's tensors) are what the statement says -- that dict literal is outside the engine's subset and is covered by the bounded cross-check only (random expression trees over all named sets evaluated on real Specs).",
        note=_TB + "Python eval / operator dispatch and frozenset algebra assumed; pydantic construction stores keyword arguments; eval_set_expression of a key assumed to return an InvertibleSet over the table's universe (a plain symbol returns its table entry); re.findall for `Other` outside the slices; named-set construction bounded only.",
        technique="contract-based deductive verification (ast->z3 VCs over a heap of set-valued fields, slices with loop invariants); bounded run-time cross-check for the named-set table",
        design_ref="DESIGN 3 C22",
    ),
    "C23": dict(
        level="exploration",
        text="BOUNDED stand-in (never counted as proved): the real concise-notation parser (_parse_einsum_string, Workload(einsums=[str]), the `einsum:` dict form with extra attributes, and from_yaml) is run on an enumerated family of well-formed Einsums under five whitespace patterns and must yield exactly the tensors, projections and output flags of the verbose form; single-edit malformed mutants that an independent recogniser of the documented grammar places outside the language must be rejected. The parser is regex / string code (re.findall, str.split) outside the VC generator's subset. Malformed classes that the unchanged parser accepts are recorded as known finding C23-malformed-accepted.",
        note="Bound: exhaustive core of 1024 one-input Einsums (1-2 entries per tensor from {m, n, M: m, N: m, X: m+n, Y: 2*m+n}); plus 200 (quick) / 1500 (thorough) seeded random Einsums with 1-3 / 1-4 inputs and 1-3 / 1-4 entries per tensor; about 3.6k malformed strings (quick). Excluded from the well-formed family: duplicated rank names in one tensor, repeated tensor names in one Einsum, 0-rank tensors (see the oracle's `rule`).",
        technique="bounded run-time contract check of the real parser (enumerated Einsums x whitespace patterns, single-edit malformed mutants)",
        design_ref="DESIGN 4 C23",
    ),
    "C24": dict(
        level="exploration",
        text="BOUNDED stand-in (never counted as proved): on an enumerated family of small workloads the real rank-variable bounds, operation counts, tensor sizes, strides / halos and dense tile occupancies are compared with brute-force enumeration of the iteration box written in the oracle; a tensor size must equal the number of projected points or an explicit error must be raised (only when an image is not a non-empty box). The functions under test run through islpy's C library, which cannot be given to the VC generator. Two findings on the unchanged tree (tensor size of a shared tensor whose ranks are listed in different orders; halo including the constant offset) are recorded as known findings with witnesses.",
        note="Bound: exhaustive core (one Einsum over m, n; all 17 one-rank projections a*m+b*n+c, a,b in {0,1,2}, c in {0,1}, for all bounds in 1..4 (quick) / 1..6 (thorough); all ordered pairs as two-rank tensors for bounds 1..2 / 1..3) plus 600 / 4000 seeded random workloads of 1-2 / 1-3 Einsums over <= 3 of 5 rank variables.",
        technique="bounded run-time contract check of the real functions against explicit enumeration of the iteration space",
        design_ref="DESIGN 4 C24",
    ),
    "C26": dict(
        level="proof",
        text="Deductive for the aggregation: the body of the loop of Spec.calculate_component_costs (slice) is symbolically executed; proved for every parents list and every value: total_area == area x parents_fanout(parents) and total_leak_power == leak_power x parents_fanout(parents), where parents_fanout is the recursively defined product of the fan-outs of the Spatialable non-Compute parents (loop invariant over the parents list), times the component's own fan-out -- the last factor is known finding F4 (own fan-out not counted; restricted to the two obligations it names, witness replayed each run). Genuine defect F5 (a sibling Compute's fan-out multiplied in) was repaired in /repo (fix: commit 40bacd1; pinned suite 917/917). BOUNDED, not proved: WHICH nodes are in `parents` (ArchNode.iterate_hierarchically, a recursive generator over a shared mutated list) -- random architecture trees (depth <= 4, <= ~12 leaves, nested Hierarchical / Fork) through the real Spec, compared with the definition of 'above on its path'.",
        note=_TB + "calculate_area / calculate_leak_power / find / get_fanout assumed; real arithmetic; node names unique; first calculation on the spec (re-calculation is C27); iterate_hierarchically and the architecture totals (sums over components) are bounded only.",
        technique="contract-based deductive verification of the aggregation loop (slice, loop invariant over a recursively defined product); bounded run-time check over architecture trees for the parents relation",
        design_ref="DESIGN 3 C26",
    ),
    "C27": dict(
        level="proof",
        text="Deductive: the cost loop of Spec.calculate_component_costs (slice) is symbolically executed under the precondition that every component is already marked as costed for the requested kinds (what one earlier call establishes); proved for every architecture, flag combination and value: no area, total_area, leak_power, total_leak_power, per-action energy or throughput of any existing object changes, and all marks are kept. Genuine defect F6 (costs re-scaled on every call) was repaired in /repo (fix: commit) by recording per component which costs were calculated. That one call leaves the marks behind, and that the copy made for an evaluated spec preserves values and marks, is covered by the bounded cross-check (call histories of length 2-3 with flag subsets on random real Specs), not proved.",
        note=_TB + "iterate_hierarchically, find, calculate_* (not in place: fresh copies), get_fanout assumed; node names unique; absent `_costs_calculated` reads as the empty set; pydantic model_copy preserves instance attributes.",
        technique="contract-based deductive verification (slice over a heap model, frame invariants), bounded run-time check of call histories",
        design_ref="DESIGN 3 C27",
    ),
    "C29": dict(
        level="proof",
        text="Deductive: Renames.get_renames_for_einsum (whole function, four loops with invariants), the rename-merge statement range of Einsum._eval_expressions (slice located by source anchors on every run), the by-name lookup of EvalableList.__getitem__ (slice; it is the meaning of `name in table` / `table[name]`) and Rename._eval_expressions (expected_count rejection) are symbolically executed from the real source over a Burstall heap; proved for every rename table: Einsum-local names resolve to their own source, names under the Einsum's top-level entry resolve to that source, default-only names resolve to the default source, nothing else is defined, a mismatching expected_count never returns normally. Genuine defect F7 was repaired in /repo (fix: commit); the bounded cross-check evaluates random real Specs.",
        note=_TB + "pydantic construction / deepcopy / RenameList(list) assumed (fresh objects, equal fields); names inside one rename list and top-level entry names are distinct (precondition: the real lookup raises otherwise); the rest of Einsum._eval_expressions outside the slice is dropped; super()._eval_expressions of a Rename assumed.",
        technique="contract-based deductive verification (ast->z3 VCs over a heap model, loop invariants, slices), bounded run-time cross-check",
        design_ref="DESIGN 3 C29",
    ),
}
for k in CHECKS:
    PENDING.pop(k, None)
