"""Table of claimed checks; MANIFEST.json is generated from this (tools/gen_manifest.py)."""

SOURCE_COMMITS = []

_P = "planned at proof level (DESIGN 3) but the check is not built yet; not claimed until it is"
_B = "planned as a bounded stand-in (DESIGN 4) but the check is not built yet; not claimed until it is"

PENDING = {
    "C09": _B, "C10": _P, "C11": _P, "C12": _P, "C15": _P, "C21": _P, "C22": _P,
    "C23": _B, "C24": _B, "C25": _P, "C26": _P, "C27": _P, "C28": _P, "C29": _P,
    "C30": _P, "C31": _P, "C32": _P,
}

CHECKS = {}
