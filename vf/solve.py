"""Discharging VCs: z3 (python wheel) first, then /usr/bin/cvc5 and /usr/bin/z3 on
`unknown`.  VCs travel to worker processes as SMT-LIB2 text, which is also what is
hashed for the committed baseline."""
from __future__ import annotations
import hashlib, os, re, subprocess, tempfile, time
import multiprocessing as mp
import z3

_TOK = re.compile(r"\|[^|]*\||[^\s()]+")


def fun_symbols(*terms):
    """Names of the uninterpreted function symbols (arity > 0) occurring in the terms."""
    out, ids, stack = set(), set(), list(terms)
    while stack:
        t = stack.pop()
        if t.get_id() in ids:
            continue
        ids.add(t.get_id())
        if z3.is_quantifier(t):
            stack.append(t.body())
            continue
        if z3.is_app(t):
            d = t.decl()
            if d.kind() == z3.Z3_OP_UNINTERPRETED and d.arity() > 0:
                out.add(d.name())
            stack.extend(t.children())
    return out


def relevant(hints, hyps, goal):
    """Hints (quantified facts about spec functions) that share a function symbol with
    the VC, transitively.  Dropping an irrelevant true hypothesis is sound."""
    syms = fun_symbols(goal, *hyps)
    pool = [(h, fun_symbols(h)) for h in hints]
    chosen, changed = [], True
    while changed:
        changed = False
        for item in list(pool):
            h, hs = item
            if hs & syms:
                chosen.append(h)
                syms |= hs
                pool.remove(item)
                changed = True
    return chosen


def to_smt2(hyps, goal, extra=(), always=()):
    s = z3.Solver()
    for h in list(always) + relevant(list(extra), list(hyps), goal) + list(hyps):
        s.add(h)
    s.add(z3.Not(goal))
    return s.to_smt2()


def alpha_hash(smt2: str) -> str:
    """Hash of the VC text after renaming every declared symbol by order of first
    occurrence, so renamed locals / different fresh-name counters hash identically."""
    declared = []
    for m in re.finditer(r"\(declare-(?:fun|const|sort)\s+(\|[^|]*\||[^\s()]+)", smt2):
        declared.append(m.group(1))
    dset = set(declared)
    body = "\n".join(l for l in smt2.splitlines() if not l.startswith("(declare-") and not l.startswith(";") and not l.startswith("(set-info"))
    decl_lines = [l for l in smt2.splitlines() if l.startswith("(declare-")]
    mapping = {}

    def ren(m):
        t = m.group(0)
        if t in dset:
            if t not in mapping:
                mapping[t] = f"s{len(mapping)}"
            return mapping[t]
        return t

    body2 = _TOK.sub(ren, body)
    # declarations: keep sorts/arity of used symbols only, under the new names, sorted
    decls = sorted(_TOK.sub(ren, l) for l in decl_lines if any(tok in mapping for tok in _TOK.findall(l)[1:2]))
    return hashlib.sha256(("\n".join(decls) + "\n" + body2).encode()).hexdigest()[:20]


def _z3_py(smt2, timeout_ms, seed=0, opts=None, tag="", simple=False):
    t0 = time.time()
    ctx = z3.Context()
    s = z3.SimpleSolver(ctx=ctx) if simple else z3.Solver(ctx=ctx)
    s.set("timeout", int(timeout_ms))
    s.set("random_seed", seed)
    for k, v in (opts or {}).items():
        s.set(k, v)
    # watchdog: z3's own timeout is not honoured in every phase (preprocessing, some quantifier
    # instantiation loops); interrupt the context a little after the budget
    import threading

    wd = threading.Timer(timeout_ms / 1000.0 + 3.0, ctx.interrupt)
    wd.daemon = True
    wd.start()
    try:
        s.from_string(smt2)
        r = s.check()
    except z3.Z3Exception as e:
        return {"result": "error", "reason": str(e)[:300], "time": time.time() - t0, "solver": "z3py"}
    finally:
        wd.cancel()
    out = {"result": str(r), "time": time.time() - t0, "solver": "z3-5.1(py)" + tag}
    if r == z3.sat:
        m = s.model()
        model = {}
        for d in m.decls():
            try:
                model[d.name()] = str(m[d])[:2000]
            except Exception:
                pass
        out["model"] = model
    elif r == z3.unknown:
        out["reason"] = s.reason_unknown()
    return out


def _candidate(smt2, timeout_ms):
    """A model of the quantifier-free part of an undecided VC: only a *candidate*
    counterexample; it counts for nothing unless it fails when replayed on the real code."""
    ctx = z3.Context()
    try:
        asserts = z3.parse_smt2_string(smt2, ctx=ctx)
    except z3.Z3Exception:
        return None
    s = z3.Solver(ctx=ctx)
    s.set("timeout", int(timeout_ms))

    def has_q(t, seen):
        if t.get_id() in seen:
            return False
        seen.add(t.get_id())
        if z3.is_quantifier(t):
            return True
        return any(has_q(c, seen) for c in t.children())

    for a in asserts:
        if not has_q(a, set()):
            s.add(a)
    if s.check() != z3.sat:
        return None
    m = s.model()
    out = {}
    for d in m.decls():
        try:
            out[d.name()] = str(m[d])[:2000]
        except Exception:
            pass
    return out


def _cli(cmd, smt2, timeout_s, name):
    t0 = time.time()
    with tempfile.NamedTemporaryFile("w", suffix=".smt2", delete=False) as f:
        f.write(smt2 if "(check-sat)" in smt2 else smt2 + "\n(check-sat)\n")
        path = f.name
    try:
        p = subprocess.run(cmd + [path], capture_output=True, text=True, timeout=timeout_s + 5)
        first = (p.stdout.strip().splitlines() or ["error"])[0].strip()
        if first not in ("sat", "unsat", "unknown"):
            first = "error"
        return {"result": first, "time": time.time() - t0, "solver": name, "reason": (p.stdout + p.stderr)[:300] if first in ("error", "unknown") else ""}
    except subprocess.TimeoutExpired:
        return {"result": "unknown", "time": time.time() - t0, "solver": name, "reason": "timeout"}
    finally:
        os.unlink(path)


def solve_task(task):
    key, smt2, timeout_ms, portfolio = task
    attempts = []
    if portfolio == "probe":
        r = _z3_py(smt2, timeout_ms)
        r["key"], r["attempts"], r["total_time"] = key, [(r["solver"], r["result"], round(r["time"], 3))], r["time"]
        return r
    # portfolio: a short z3 run (most VCs take milliseconds), cvc5, then longer z3 runs with
    # other seeds, then the old z3; first definite answer wins
    t = max(2, timeout_ms // 1000)
    plan = [
        lambda: _z3_py(smt2, min(timeout_ms, 4000)),
        # E-matching only (no model-based quantifier instantiation): `unsat` is as sound as ever
        lambda: _z3_py(smt2, min(timeout_ms, 10000), opts={"smt.mbqi": False}, tag="[smt,mbqi=off]", simple=True),
        lambda: _z3_py(smt2, min(timeout_ms, 10000), tag="[smt]", simple=True),
        lambda: _cli(["/usr/bin/cvc5", "--lang=smt2", f"--tlimit={min(t, 8) * 1000}"], "(set-logic ALL)\n" + smt2, min(t, 8), "cvc5-1.0.3"),
        # products of variables as uninterpreted terms: `unsat` is still sound
        lambda: _z3_py(smt2, min(timeout_ms, 10000), opts={"smt.arith.nl": False}, tag="[smt,nl=off]", simple=True),
        lambda: _z3_py(smt2, timeout_ms // 2, seed=7),
        lambda: _z3_py(smt2, timeout_ms, seed=13),
        lambda: _cli(["/usr/bin/z3", f"-T:{min(t, 10)}"], smt2, min(t, 10), "z3-4.8.12"),
    ]
    if portfolio == "phase1":
        plan = plan[:2]
    elif portfolio == "phase2":
        plan = plan[2:]
    for step in plan if portfolio else plan[:1]:
        r = step()
        attempts.append(r)
        if r["result"] in ("sat", "unsat"):
            break
    if all(a["result"] in ("unknown", "error") for a in attempts):
        c = _candidate(smt2, min(timeout_ms, 10000))
        if c is not None:
            attempts[-1] = dict(attempts[-1])
            attempts[-1]["candidate_model"] = c
    final = attempts[-1]
    for a in attempts:
        if a["result"] in ("unsat", "sat"):
            final = a
            break
    final = dict(final)
    final["key"] = key
    final["attempts"] = [(a["solver"], a["result"], round(a["time"], 3)) for a in attempts]
    final["total_time"] = sum(a["time"] for a in attempts)
    return final


_pool = None


def pool():
    global _pool
    if _pool is None:
        _pool = mp.get_context("fork").Pool(min(16, os.cpu_count() or 4))
    return _pool


def _run(tasks):
    if len(tasks) <= 1 or os.environ.get("VF_SERIAL"):
        return [solve_task(t) for t in tasks]
    return pool().map(solve_task, tasks, chunksize=1)


MAX_DEEP = int(os.environ.get("VF_MAX_DEEP", "24"))


def solve_all(tasks):
    """Two phases, so that a tree on which MANY obligations fail does not cost minutes per
    obligation: phase 1 runs two fast strategies on every VC; only the VCs still open go through
    the rest of the portfolio, and at most MAX_DEEP of them (the others stay `unknown`: one open
    obligation already makes the run not-discharged).  On the committed tree every VC is closed
    in phase 1 or, for a handful, early in phase 2."""
    if not tasks:
        return []
    full = [t for t in tasks if t[3] is True]
    other = [t for t in tasks if t[3] is not True]
    res = {r["key"]: r for r in _run(other)}
    p1 = _run([(k, smt, tmo, "phase1") for (k, smt, tmo, _) in full])
    open_keys = []
    for r in p1:
        res[r["key"]] = r
        if r["result"] not in ("sat", "unsat"):
            open_keys.append(r["key"])
    by_key = {t[0]: t for t in full}
    deep = open_keys[:MAX_DEEP]
    for r in _run([(k, by_key[k][1], by_key[k][2], "phase2") for k in deep]):
        prev = res[r["key"]]
        r["attempts"] = prev["attempts"] + r["attempts"]
        r["total_time"] = prev["total_time"] + r["total_time"]
        if "candidate_model" in prev and "candidate_model" not in r and r["result"] not in ("sat", "unsat"):
            r["candidate_model"] = prev["candidate_model"]
        res[r["key"]] = r
    for k in open_keys[MAX_DEEP:]:
        res[k]["reason"] = (res[k].get("reason") or "") + " [not retried: more than %d obligations open after the fast strategies]" % MAX_DEEP
    return [res[t[0]] for t in tasks]
