"""What contract files import."""
import z3
from z3 import Consts, Ints, Reals, Xor, And, Or, Not, Implies, If, ForAll, Exists, Int, Real, Bool, IntVal, RealVal, BoolVal, Select, Store, Function, IntSort, RealSort, BoolSort, ArraySort, Const, Lambda, Distinct, ToReal, ToInt
from .contracts import Property
from .types import INT, REAL, BOOL, ELEM, VAL, STRING, OBJ, TUP, OPT, SEQ, SET, MAP, CONST
from .values import Ref, Elem, Val, NULL, ObjV, SeqV, SetV, MapV, Tup, OptV, NONE, fresh_name, arrs_of


def fresh(sort, name="q"):
    return z3.Const(fresh_name(name), sort)
from .types import NDARRAY


def mem(seq, x):
    """x occurs in the sequence."""
    from . import engine

    return engine.CURRENT.seq_mem(seq, x)


def mem_index(seq, x):
    """a position of x in the sequence (meaningful when mem(seq, x))."""
    from . import engine

    return engine.CURRENT.seq_mem_index(seq, x)


def cdiv(a, b):
    """ceil(a / b) for b > 0"""
    return -((-a) / b)


def increasing(seq):
    i, j = z3.Consts(f"{fresh_name('si')} {fresh_name('sj')}", z3.IntSort())
    (a,) = arrs_of(seq)
    return z3.ForAll([i, j], z3.Implies(z3.And(i >= 0, i < j, j < seq.n), z3.Select(a, i) < z3.Select(a, j)))


def at(seq, i):
    (a,) = arrs_of(seq)
    return z3.Select(a, i)


def forall(vs, body, patterns=()):
    """ForAll with patterns when they are valid for the current terms (a pattern can
    degenerate, e.g. select over a constant array), else without."""
    vs = vs if isinstance(vs, (list, tuple)) else [vs]
    if patterns:
        try:
            return z3.ForAll(list(vs), body, patterns=list(patterns))
        except z3.Z3Exception:
            pass
    return z3.ForAll(list(vs), body)
