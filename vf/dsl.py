"""What contract files import."""
import z3
from z3 import And, Or, Not, Implies, If, ForAll, Exists, Int, Real, Bool, IntVal, RealVal, BoolVal, Select, Store, Function, IntSort, RealSort, BoolSort, ArraySort, Const, Lambda, Distinct, ToReal, ToInt
from .contracts import Property
from .types import INT, REAL, BOOL, ELEM, VAL, STRING, OBJ, TUP, OPT, SEQ, SET, MAP, CONST
from .values import Ref, Elem, Val, NULL, ObjV, SeqV, SetV, MapV, Tup, OptV, NONE, fresh_name, arrs_of


def fresh(sort, name="q"):
    return z3.Const(fresh_name(name), sort)
