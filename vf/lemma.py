"""Lemmas: standalone VCs (direct, or by induction on an integer) whose universally
closed statement then becomes a quantified hint for the function VCs."""
from __future__ import annotations
import z3


def free_consts(*terms):
    seen, out = set(), []
    stack = list(terms)
    ids = set()
    while stack:
        t = stack.pop()
        if t.get_id() in ids:
            continue
        ids.add(t.get_id())
        if z3.is_const(t) and t.decl().kind() == z3.Z3_OP_UNINTERPRETED:
            if t.decl().name() not in seen:
                seen.add(t.decl().name())
                out.append(t)
        elif z3.is_quantifier(t):
            stack.append(t.body())
        else:
            stack.extend(t.children())
    return sorted(out, key=lambda c: c.decl().name())


class LemmaCtx:
    def __init__(self, name, prop=None):
        self.name = name
        self.prop = prop
        self.vcs = []  # (sub-name, hyps, goal)
        self.closed = []  # universally closed statements, usable as hints once proven

    def direct(self, hyps, goal, patterns=None, close=True, using=(), name=None):
        """Prove  hyps => goal  (free constants are universally quantified).  `using` are
        instances of already proven closed lemmas (see `instance`), added as hypotheses of
        the VC only.  The closed statement  forall vars. hyps => goal  becomes a hint."""
        self.vcs.append((name or f"direct{len(self.vcs)}", list(hyps) + list(using), goal))
        body = z3.Implies(z3.And(*hyps), goal) if hyps else goal
        vs = free_consts(body)
        closed = z3.ForAll(vs, body, patterns=patterns or []) if vs else body
        if close:
            self.closed.append(closed)
        if self.prop is not None and name:
            self.prop.closed_named[f"{self.name}.{name}"] = closed
        return closed

    @staticmethod
    def instance(closed, *terms):
        """The instance of a proven closed lemma at the given terms (in the order of its
        bound variables, which is alphabetical by name)."""
        assert z3.is_quantifier(closed) and closed.num_vars() == len(terms)
        # de Bruijn: variable 0 is the LAST bound variable
        return z3.substitute_vars(closed.body(), *reversed(terms))

    def induction(self, n, base, stmt, given=(), patterns=None):
        """forall n >= base. given => stmt(n), by induction on n (given must not mention n)."""
        given = list(given)
        self.vcs.append(("base", given, stmt(z3.IntVal(base))))
        self.vcs.append(("step", given + [n > base, stmt(n - 1)], stmt(n)))
        body = z3.Implies(z3.And(n >= base, *given), stmt(n))
        vs = free_consts(body)
        pats = [p(n) for p in patterns] if patterns else []
        self.closed.append(z3.ForAll(vs, body, patterns=pats))

    def strong_induction(self, n, base, stmt, given=(), patterns=None, smaller=None):
        """forall n >= base. given => stmt(n); the hypothesis is stmt(m) for every base <= m < n."""
        given = list(given)
        m = z3.Int("m!ih")
        ih = z3.ForAll([m], z3.Implies(z3.And(m >= base, m < n), stmt(m)))
        self.vcs.append(("strong_step", given + [n >= base, ih], stmt(n)))
        body = z3.Implies(z3.And(n >= base, *given), stmt(n))
        vs = free_consts(body)
        pats = [p(n) for p in patterns] if patterns else []
        self.closed.append(z3.ForAll(vs, body, patterns=pats))
