import argparse, os, sys

HERE = os.path.dirname(os.path.dirname(os.path.abspath(__file__)))
sys.path.insert(0, HERE)


def ensure_py312():
    """/repo uses Python 3.12 syntax (PEP 701 f-strings) that the tooling interpreter (3.11)
    cannot parse.  The VC generator therefore runs under a 3.12 interpreter: a venv built
    offline from /venv's python plus the z3-solver wheel of the local wheelhouse
    (/verif/build/py312, untracked; rebuilt here whenever it is missing)."""
    if sys.version_info >= (3, 12):
        return
    import subprocess

    venv = os.path.join(HERE, "build", "py312")
    py = os.path.join(venv, "bin", "python")
    ok = os.path.exists(py) and subprocess.run([py, "-c", "import z3"], capture_output=True).returncode == 0
    if not ok:
        import shutil

        shutil.rmtree(venv, ignore_errors=True)
        os.makedirs(os.path.dirname(venv), exist_ok=True)
        subprocess.run(["/venv/bin/python", "-m", "venv", venv], check=True)
        subprocess.run([py, "-m", "pip", "install", "-q", "--no-index", "--find-links", "/opt/veriftools/wheels", "z3-solver"], check=True,
                       env=dict(os.environ, PIP_NO_INDEX="1", PIP_DISABLE_PIP_VERSION_CHECK="1"))
    env = dict(os.environ)
    env["PYTHONPATH"] = HERE
    env["PYTHONDONTWRITEBYTECODE"] = "1"
    os.execve(py, [py, "-m", "vf"] + sys.argv[1:], env)


ensure_py312()


def main():
    ap = argparse.ArgumentParser(prog="vf")
    sub = ap.add_subparsers(dest="cmd", required=True)
    c = sub.add_parser("check")
    c.add_argument("pid")
    c.add_argument("--tier", default=os.environ.get("VERIF_TIER", "quick"))
    c.add_argument("-q", action="store_true")
    r = sub.add_parser("replay")
    r.add_argument("path")
    sub.add_parser("setup")
    b = sub.add_parser("baseline")
    b.add_argument("pids", nargs="*")
    d = sub.add_parser("dump")
    d.add_argument("pid")
    d.add_argument("pattern")
    d.add_argument("--out", default="/tmp/vf_dump")
    a = ap.parse_args()
    if a.cmd == "dump":
        import importlib
        from vf.check import build_vcs, load_known

        os.chdir(HERE)
        prop = importlib.import_module(f"contracts.{a.pid}").P
        vcs, info = build_vcs(prop, load_known(a.pid), print)
        os.makedirs(a.out, exist_ok=True)
        k = 0
        for v in vcs:
            if a.pattern in v.name:
                path = os.path.join(a.out, f"{k}.smt2")
                open(path, "w").write(v.smt2 + "\n(check-sat)\n")
                print(path, v.name, v.hash)
                k += 1
        sys.exit(0)
    os.chdir(HERE)
    seed = int(os.environ.get("VERIF_SEED", "0") or 0)
    if a.cmd == "check":
        from vf.check import check_property

        sys.exit(check_property(a.pid, a.tier, seed, verbose=not a.q))
    if a.cmd == "replay":
        from vf.replay import replay

        sys.exit(replay(a.path))
    if a.cmd == "setup":
        from vf.setup import setup

        sys.exit(setup())
    if a.cmd == "baseline":
        from vf.check import check_property

        os.environ["VF_UPDATE_BASELINE"] = "1"
        rc = 0
        for pid in a.pids:
            rc |= check_property(pid, "quick", seed)
        sys.exit(rc)


main()
