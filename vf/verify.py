"""Generate the verification conditions of one function (or of a statement range of a
function: a *slice*) under its contract."""
from __future__ import annotations
import ast
import z3
from . import values as V
from .values import Unsupported, NONE, ObjV
from .engine import Exec, Env, ReturnEx, RaiseEx, PathEnd, load_module, find_def, decorator_names, KNOWN_DECORATORS, BreakEx, ContinueEx
from .contracts import FnCtx


class EnvView:
    """What a slice postcondition sees: the variables at the end of the slice."""

    def __init__(self, env):
        self._env = env

    def __getitem__(self, name):
        return self._env.get(name)


def find_slice(fnode, start, end):
    """The statements from the first one whose source starts with `start` to the first later
    one (same statement list) whose source starts with `end`, inclusive.  Mechanical: located
    by source text on every run; not found -> Unsupported (undecided)."""

    def lists(node):
        for field in ("body", "orelse", "finalbody"):
            lst = getattr(node, field, None)
            if isinstance(lst, list) and lst and isinstance(lst[0], ast.stmt):
                yield lst
                for s in lst:
                    if not isinstance(s, (ast.FunctionDef, ast.ClassDef)):
                        yield from lists(s)
        for h in getattr(node, "handlers", []) or []:
            yield from lists(h)

    norm = lambda s: " ".join(ast.unparse(s).split())
    # an anchor may be (text, n): the n-th statement (0-based, in source order of statement lists) starting with text
    skip = 0
    if isinstance(start, tuple):
        start, skip = start
    for lst in lists(fnode):
        for i, s in enumerate(lst):
            if norm(s).startswith(start):
                if skip > 0:
                    skip -= 1
                    continue
                for j in range(i, len(lst)):
                    if norm(lst[j]).startswith(end):
                        return lst[i: j + 1]
                raise Unsupported(f"slice end anchor {end!r} not found after {start!r} in {fnode.name}")
    raise Unsupported(f"slice start anchor {start!r} not found in {fnode.name}")


def verify_function(prop, spec):
    """Returns (exec, list of Obligation).  Raises Unsupported when undecidable."""
    tree, _src = load_module(spec.relfile)
    fnode = find_def(tree, spec.qualname)
    ex = Exec(prop, spec.relfile, spec.qualname, fnode, tree)
    if spec.label:
        ex.qualname = f"{spec.qualname}[{spec.label}]"
    for d in decorator_names(fnode):
        if d not in KNOWN_DECORATORS:
            raise Unsupported(f"decorator @{d} on {spec.qualname} is not in the list of dropped decorators")
        ex.drops.add(f"{spec.qualname}: decorator @{d}")
    ctx = FnCtx(prop, spec, "verify", ex=ex)
    ex.heap0_view = lambda: ex.heap0

    a = fnode.args
    real_params = [p.arg for p in a.posonlyargs + a.args + a.kwonlyargs]
    is_slice = spec.slice is not None
    if is_slice:
        body = find_slice(fnode, *spec.slice)
        from .engine import number_loops

        ex.loop_ids = number_loops(ast.Module(body=body, type_ignores=[]))  # L0, L1, ... within the slice
        ex.drops.add(f"{spec.qualname}[{spec.label}]: SLICE lines {body[0].lineno}-{body[-1].end_lineno}; everything of the function outside this statement range is dropped (its effect on the slice's variables is a precondition of the slice contract)")
    else:
        body = fnode.body
        if a.vararg or a.kwarg:
            if not spec.allow_varargs:
                raise Unsupported("*args / **kwargs parameters")

    def run_once():
        ex.start_path()
        ctx.reset()
        ex.fctx = ctx
        spec.fn(ctx)
        outer = Env()
        outer.vars.update(ctx.free_vars)  # closure variables of a nested function under contract
        env = Env(parent=outer) if ctx.free_vars else Env()
        if ctx.yield_type is not None:
            from .builtins import empty_seq

            env.vars["__yielded__"] = empty_seq(ctx.yield_type.shape())
        if is_slice:
            env.vars.update(ctx.args)
        else:
            params = list(real_params)
            if a.vararg:  # verified for calls without extra positional / keyword arguments
                from .values import Tup

                env.vars[a.vararg.arg] = Tup([])
            if a.kwarg:
                from .engine import KwDict

                env.vars[a.kwarg.arg] = KwDict({})
            for nm in params:
                if nm not in ctx.args:
                    raise Unsupported(f"contract of {spec.qualname} does not declare parameter {nm}")
                env.vars[nm] = ctx.args[nm]
            for nm in ctx.args:
                if nm not in params:
                    raise Unsupported(f"contract of {spec.qualname} declares {nm}, which is not a parameter of the real function")
        ex.env = env
        returned = False
        try:
            try:
                ex.exec_block(body)
                res = NONE
            except ReturnEx as r:
                if is_slice and not spec.slice_allows_return:
                    raise Unsupported("return inside a slice")
                res = r.value
                returned = True
            except ContinueEx:
                if not is_slice:
                    raise
                res = NONE  # `continue` of an enclosing loop ends the slice normally
        except RaiseEx as r:
            rule = ctx.exc_rules.get(r.exc)
            ln = r.lineno - fnode.lineno
            if rule is None:
                ex.oblige(f"{ex.qualname}/no_exception.{r.exc}@{ln}", z3.BoolVal(False), "exception", r.lineno)
            else:
                when, nm = rule
                if when is not None:
                    ex.oblige(f"{ex.qualname}/raises.{nm}@{ln}", when(), "exception", r.lineno)
            return
        except (BreakEx, ContinueEx):
            raise Unsupported("break/continue outside a loop")
        if ctx.yield_type is not None:
            res = env.vars["__yielded__"]  # a generator's "result" is the sequence it yields
        if is_slice:
            view = EnvView(ex.env)
            view.returned = res if returned else None  # value of a `return` inside the slice, if any
            res = view
        ex.return_paths.append(list(ex.hyps))
        for nm, fn in ctx.posts:
            ex.oblige(f"{ex.qualname}/post.{nm}", fn(res), "postcondition")
        # in-out parameters: the final value of a mutable argument
        # frame: fields not declared modifiable are unchanged
        for f, arrs in ex.heap.items():
            if f in ctx.modifies_fields:
                continue
            for x, y in zip(arrs, ex.heap0.get(f, arrs)):
                if not x.eq(y):
                    r = z3.Const("fr!r", V.Ref)
                    ex.oblige(f"{ex.qualname}/frame.{f}", z3.ForAll([r], z3.Implies(prop.alloc0(r), z3.Select(x, r) == z3.Select(y, r))), "frame")

    ex.explore(run_once)
    # reachability report: statements of the verified text that no explored path executes (under the
    # contract's preconditions: dead branches such as defensive raises -- or a sign of an over-strong
    # precondition; listed in the evidence so that they can be inspected)
    ex.unreached = []
    for top in body:
        for n in ast.walk(top):
            if isinstance(n, ast.stmt) and not isinstance(n, (ast.FunctionDef, ast.ClassDef)) and id(n) not in ex.covered and not ex.is_dropped(n):
                if any(isinstance(p_, ast.FunctionDef) and p_ is not fnode and n in ast.walk(p_) for p_ in ex.local_defs.values()):
                    continue  # inside a nested def that is under its own contract / inlined elsewhere
                ex.unreached.append(f"{ex.qualname}:+{n.lineno - fnode.lineno}: {' '.join(ast.unparse(n).split())[:70]}")
    obs = []
    for name, lst in ex.obligations.items():
        obs.extend(lst)
    return ex, obs
