"""Generate the verification conditions of one function under its contract."""
from __future__ import annotations
import ast
import z3
from . import values as V
from .values import Unsupported, NONE, ObjV
from .engine import Exec, Env, ReturnEx, RaiseEx, PathEnd, load_module, find_def, decorator_names, KNOWN_DECORATORS, BreakEx, ContinueEx
from .contracts import FnCtx


def verify_function(prop, spec):
    """Returns (exec, list of Obligation).  Raises Unsupported when undecidable."""
    tree, _src = load_module(spec.relfile)
    fnode = find_def(tree, spec.qualname)
    ex = Exec(prop, spec.relfile, spec.qualname, fnode, tree)
    if spec.label:
        ex.qualname = f"{spec.qualname}[{spec.label}]"
    for d in decorator_names(fnode):
        if d not in KNOWN_DECORATORS:
            raise Unsupported(f"decorator @{d} on {spec.qualname} is not in the list of dropped decorators")
        ex.drops.add(f"{spec.qualname}: decorator @{d}")
    ctx = FnCtx(prop, spec, "verify", ex=ex)
    ex.heap0_view = lambda: ex.heap0

    a = fnode.args
    real_params = [p.arg for p in a.posonlyargs + a.args + a.kwonlyargs]
    if a.vararg or a.kwarg:
        raise Unsupported("*args / **kwargs parameters")

    def run_once():
        ex.start_path()
        ctx.reset()
        ex.fctx = ctx
        spec.fn(ctx)
        outer = Env()
        outer.vars.update(ctx.free_vars)  # closure variables of a nested function under contract
        env = Env(parent=outer) if ctx.free_vars else Env()
        if ctx.yield_type is not None:
            from .builtins import empty_seq

            env.vars["__yielded__"] = empty_seq(ctx.yield_type.shape())
        for nm in real_params:
            if nm not in ctx.args:
                raise Unsupported(f"contract of {spec.qualname} does not declare parameter {nm}")
            env.vars[nm] = ctx.args[nm]
        for nm in ctx.args:
            if nm not in real_params:
                raise Unsupported(f"contract of {spec.qualname} declares {nm}, which is not a parameter of the real function")
        ex.env = env
        try:
            try:
                ex.exec_block(fnode.body)
                res = NONE
            except ReturnEx as r:
                res = r.value
        except RaiseEx as r:
            rule = ctx.exc_rules.get(r.exc)
            ln = r.lineno - fnode.lineno
            if rule is None:
                ex.oblige(f"{ex.qualname}/no_exception.{r.exc}@{ln}", z3.BoolVal(False), "exception", r.lineno)
            else:
                when, nm = rule
                if when is not None:
                    ex.oblige(f"{ex.qualname}/raises.{nm}@{ln}", when(), "exception", r.lineno)
            return
        except (BreakEx, ContinueEx):
            raise Unsupported("break/continue outside a loop")
        if ctx.yield_type is not None:
            res = env.vars["__yielded__"]  # a generator's "result" is the sequence it yields
        ex.return_paths.append(list(ex.hyps))
        for nm, fn in ctx.posts:
            ex.oblige(f"{ex.qualname}/post.{nm}", fn(res), "postcondition")
        # frame: fields not declared modifiable are unchanged
        for f, arrs in ex.heap.items():
            if f in ctx.modifies_fields:
                continue
            for x, y in zip(arrs, ex.heap0.get(f, arrs)):
                if not x.eq(y):
                    r = z3.Const("fr!r", V.Ref)
                    ex.oblige(f"{ex.qualname}/frame.{f}", z3.ForAll([r], z3.Implies(prop.alloc0(r), z3.Select(x, r) == z3.Select(y, r))), "frame")

    ex.explore(run_once)
    obs = []
    for name, lst in ex.obligations.items():
        obs.extend(lst)
    return ex, obs
