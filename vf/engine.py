"""pyvc: forward symbolic execution of real Python FunctionDefs into z3 VCs.

One *path* = one run of the function body under a list of branch decisions
(re-execution DFS).  Loops are cut at their (sidecar) invariants; calls to
functions under contract are replaced by the callee's contract; nested defs and
lambdas are inlined.  Anything not understood raises Unsupported -> undecided.
"""
from __future__ import annotations
import ast, os, hashlib
import z3
from . import values as V
from .values import (
    Unsupported, NONE, StrV, Tup, QuotV, SqrtV, OptV, SeqV, SetV, MapV, ObjV, FnV, ClassV,
    ModV, BoundMethod, is_z3, is_int, is_real, is_bool, lift, to_num, to_real, coerce,
    fresh_name, Ref, flatten, unflatten, shape_sorts, arrs_of, key_sort, TupShape, ObjShape,
)

REPO = os.environ.get("VF_REPO", "/repo")
CURRENT = None  # the executor of the path being explored (used by dsl helpers)
MAX_PATHS = int(os.environ.get("VF_MAX_PATHS", "4000"))


# ---------------------------------------------------------------------------------
# source extraction
# ---------------------------------------------------------------------------------
_src_cache = {}


def load_module(relfile):
    path = os.path.join(REPO, relfile)
    key = (path, os.path.getmtime(path))
    if key not in _src_cache:
        with open(path) as f:
            src = f.read()
        _src_cache[key] = (ast.parse(src, filename=path), src)
    return _src_cache[key]


def find_def(tree, qualname):
    """Locate a FunctionDef by dotted qualname (classes and enclosing functions)."""
    node = tree
    for part in qualname.split("."):
        found = None
        for ch in ast.walk(node) if isinstance(node, (ast.FunctionDef,)) else ast.iter_child_nodes(node):
            if isinstance(ch, (ast.FunctionDef, ast.ClassDef)) and ch.name == part and ch is not node:
                found = ch
                break
        if found is None:
            raise Unsupported(f"definition {qualname!r} not found (looking for {part!r})")
        node = found
    if not isinstance(node, ast.FunctionDef):
        raise Unsupported(f"{qualname} is not a function")
    return node


KNOWN_DECORATORS = {
    "lru_cache", "functools.lru_cache", "cache", "functools.cache", "dict_cached",
    "classmethod", "staticmethod", "property", "abstractmethod", "numba.jit", "jit", "njit",
    "numba.njit", "functools.wraps", "override", "cached_property", "functools.cached_property",
}


def decorator_names(fnode):
    out = []
    for d in fnode.decorator_list:
        e = d.func if isinstance(d, ast.Call) else d
        out.append(ast.unparse(e))
    return out


# ---------------------------------------------------------------------------------
# control-flow signals
# ---------------------------------------------------------------------------------
class ReturnEx(Exception):
    def __init__(self, value):
        self.value = value


class RaiseEx(Exception):
    def __init__(self, exc, lineno):
        self.exc, self.lineno = exc, lineno


class BreakEx(Exception):
    pass


class ContinueEx(Exception):
    pass


class PathEnd(Exception):
    """The current path stops here (end of a loop-body segment, infeasible path ...)."""


class Env:
    def __init__(self, parent=None):
        self.vars = {}
        self.parent = parent
        self.nonlocals = set()

    def lookup_env(self, name):
        e = self
        while e is not None:
            if name in e.vars:
                return e
            e = e.parent
        return None

    def get(self, name):
        e = self.lookup_env(name)
        if e is None:
            raise KeyError(name)
        return e.vars[name]

    def set(self, name, value):
        if name in self.nonlocals:
            e = self.parent.lookup_env(name) if self.parent else None
            if e is None:
                raise Unsupported(f"nonlocal {name} not found")
            e.vars[name] = value
        else:
            self.vars[name] = value

    def mutate(self, name, value):
        """Rebind where the name lives (used for in-place container mutation)."""
        e = self.lookup_env(name)
        if e is None:
            raise Unsupported(f"mutation of unknown name {name}")
        e.vars[name] = value


class Obligation:
    def __init__(self, name, hyps, goal, kind, func, lineno=None):
        self.name, self.hyps, self.goal, self.kind, self.func, self.lineno = name, list(hyps), goal, kind, func, lineno

    def key(self):
        return self.name


MUTATORS = {
    "append", "add", "extend", "update", "remove", "discard", "pop", "insert", "clear", "sort",
    "setdefault", "popitem", "reverse",
}


def assigned_names(stmts, local_defs):
    """Names (re)bound or mutated in place by these statements (syntactic, transitive
    through calls of locally defined functions), and heap fields stored."""
    names, fields = set(), set()
    seen_defs = set()

    def target(t):
        if isinstance(t, ast.Name):
            names.add(t.id)
        elif isinstance(t, (ast.Tuple, ast.List)):
            for e in t.elts:
                target(e)
        elif isinstance(t, ast.Starred):
            target(t.value)
        elif isinstance(t, ast.Subscript):
            base = t.value
            while isinstance(base, ast.Subscript):
                base = base.value
            if isinstance(base, ast.Name):
                names.add(base.id)
            elif isinstance(base, ast.Attribute):
                fields.add(base.attr)
        elif isinstance(t, ast.Attribute):
            fields.add(t.attr)

    def visit(n):
        if isinstance(n, (ast.Assign,)):
            for t in n.targets:
                target(t)
        elif isinstance(n, (ast.AugAssign, ast.AnnAssign)):
            target(n.target)
        elif isinstance(n, (ast.For,)):
            target(n.target)
        elif isinstance(n, ast.NamedExpr):
            target(n.target)
        elif isinstance(n, (ast.Yield, ast.YieldFrom)):
            names.add("__yielded__")
        elif isinstance(n, ast.comprehension):
            pass
        elif isinstance(n, ast.Call):
            f = n.func
            if isinstance(f, ast.Attribute) and f.attr in MUTATORS:
                target(f.value) if isinstance(f.value, (ast.Name, ast.Subscript)) else None
                if isinstance(f.value, ast.Attribute):
                    fields.add(f.value.attr)
            if isinstance(f, ast.Name) and f.id == "setattr" and n.args and isinstance(n.args[0], ast.Name):
                names.add(n.args[0].id)
            if isinstance(f, ast.Name) and f.id == "next" and n.args and isinstance(n.args[0], ast.Name):
                names.add("__pos_" + n.args[0].id)
            if isinstance(f, ast.Name) and f.id in local_defs and f.id not in seen_defs:
                seen_defs.add(f.id)
                d = local_defs[f.id]
                sub_n, sub_f = assigned_names(d.body, local_defs)
                # only names that are not local to the callee matter; over-approximate
                params = {a.arg for a in d.args.args + d.args.kwonlyargs}
                names.update(sub_n - params)
                fields.update(sub_f)
        elif isinstance(n, (ast.FunctionDef, ast.Lambda)):
            return  # a definition itself assigns nothing (besides its name)
        for ch in ast.iter_child_nodes(n):
            visit(ch)

    for s in stmts:
        if isinstance(s, ast.FunctionDef):
            names.add(s.name)
            continue
        visit(s)
    return names, fields


def rebinds(stmts, name):
    """True if `name` is (re)bound by an assignment / for target in these statements."""
    for s in stmts:
        for n in ast.walk(s):
            tgts = []
            if isinstance(n, ast.Assign):
                tgts = n.targets
            elif isinstance(n, (ast.AugAssign, ast.AnnAssign, ast.For, ast.NamedExpr)):
                tgts = [n.target]
            for t in tgts:
                for x in ast.walk(t):
                    if isinstance(x, ast.Name) and x.id == name:
                        return True
    return False


def number_loops(fnode):
    """Loop ids L0, L1, ... in source (preorder) order, including loops of nested defs."""
    ids = {}
    k = 0
    for n in ast.walk(fnode):
        pass
    def rec(n):
        nonlocal k
        for ch in ast.iter_child_nodes(n):
            if isinstance(ch, (ast.For, ast.While)):
                ids[id(ch)] = f"L{k}"
                k += 1
            rec(ch)
    rec(fnode)
    return ids


class LoopCtx:
    """What an invariant function sees."""

    def __init__(self, ex, k, seq, entry_env, entry_heap):
        self.ex, self.k, self.seq = ex, k, seq
        self._entry_env, self._entry_heap = entry_env, entry_heap
        # the enclosing loop's context (its index k / sequence) while its body is being executed
        self.outer = ex.loop_stack[-1] if getattr(ex, "loop_stack", None) else None

    def v(self, name):
        return self.ex.env.get(name)

    def entry(self, name):
        return self._entry_env[name]

    def field(self, obj, name):
        return self.ex.read_field(obj, name)

    def entry_field(self, obj, name):
        return self.ex.read_field(obj, name, heap=self._entry_heap)

    def use(self, lemma_key, *terms):
        """Invariant entry that adds (as a hypothesis only) the instance at `terms` of the
        proven closed lemma registered under `lemma_key` (a "lemma call")."""
        return ("use:" + lemma_key, self.ex.prop.lemma_instance(lemma_key, *terms))


class Exec:
    """Executes one function under one contract context (see contracts.FnCtx)."""

    def __init__(self, prop, relfile, qualname, fnode, module_tree):
        self.prop, self.relfile, self.qualname, self.fnode, self.tree = prop, relfile, qualname, fnode, module_tree
        self.loop_ids = number_loops(fnode)
        self.obligations = {}
        self.drops = set()
        self.notes = []
        self.paths = 0
        self.pruned = 0
        self.return_paths = []  # (hyps) of paths that reached a normal return, for cover checks
        self.local_defs = {n.name: n for n in ast.walk(fnode) if isinstance(n, ast.FunctionDef) and n is not fnode}
        self.covered = set()  # ids of the statements executed on some path (reachability report)

    # ---- decisions -----------------------------------------------------------
    def decide(self, cond):
        """Branch on a symbolic condition; returns the Python bool chosen on this path
        and records the condition as a hypothesis."""
        if isinstance(cond, bool):
            return cond
        cond = z3.simplify(cond)
        if z3.is_true(cond):
            return True
        if z3.is_false(cond):
            return False
        c = self.choose(2, lambda c: self.hyps.append(cond if c == 0 else z3.Not(cond)))
        self.prune_if_infeasible()
        return c == 0

    @staticmethod
    def _bounded_check(solver, ms):
        """solver.check() with a watchdog: z3's own timeout is not honoured in every phase."""
        import threading

        wd = threading.Timer(ms / 1000.0 + 2.0, solver.ctx.interrupt)
        wd.daemon = True
        wd.start()
        try:
            return solver.check()
        except z3.Z3Exception:
            return z3.unknown
        finally:
            wd.cancel()

    def prune_if_infeasible(self):
        """Stop exploring a path whose hypotheses are unsatisfiable (sound: only `unsat`
        prunes; unknown / sat continue)."""
        s = z3.Solver()
        s.set("timeout", 300)
        qf = [h for h in self.hyps if not _has_quantifier(h)]
        s.add(*qf)
        if self._bounded_check(s, 300) == z3.unsat:
            self.pruned += 1
            raise PathEnd()
        if len(qf) != len(self.hyps):
            # second try with the quantified hypotheses too (E-matching only, short budget)
            s2 = z3.SimpleSolver()
            s2.set("timeout", 400)
            s2.set("smt.mbqi", False)
            s2.add(*self.hyps)
            s2.add(*self.prop.distinct_axioms())
            if self._bounded_check(s2, 400) == z3.unsat:
                self.pruned += 1
                raise PathEnd()

    def choose(self, n, on_choice=None):
        if self.dpos < len(self.decisions):
            c = self.decisions[self.dpos]
        else:
            c = 0
            for alt in range(1, n):
                self.alternatives.append(self.decisions[: self.dpos] + [alt])
            self.decisions.append(0)
        self.dpos += 1
        if on_choice:
            on_choice(c)
        return c

    def explore(self, run_once):
        work = [[]]
        while work:
            prefix = work.pop()
            self.decisions, self.dpos, self.alternatives = list(prefix), 0, []
            V.reset_names()
            self.paths += 1
            if self.paths > MAX_PATHS:
                raise Unsupported(f"more than {MAX_PATHS} paths in {self.qualname}")
            try:
                run_once()
            except PathEnd:
                pass
            work.extend(self.alternatives)

    # ---- obligations ------------------------------------------------------------
    def oblige(self, name, goal, kind="assert", lineno=None):
        goal = z3.simplify(goal) if is_z3(goal) else z3.BoolVal(bool(goal))
        if z3.is_true(goal):
            # still record that the obligation exists (trivially discharged)
            self.obligations.setdefault(name, []).append(Obligation(name, [], z3.BoolVal(True), kind, self.qualname, lineno))
            return
        self.obligations.setdefault(name, []).append(Obligation(name, self.hyps, goal, kind, self.qualname, lineno))

    def assume(self, f, fresh=False):
        """fresh=True: a fact that only constrains a constant created just now (identity of a
        newly allocated object); comprehensions keep such facts unconditional."""
        if isinstance(f, bool):
            f = z3.BoolVal(f)
        if fresh:
            self.fresh_facts.add(f.get_id())
        self.hyps.append(f)

    # ---- heap -------------------------------------------------------------------
    def field_shape(self, name):
        if name not in self.prop.fields:
            raise Unsupported(f"attribute .{name} is not a declared field")
        return self.prop.fields[name].shape()

    def heap_arrays(self, name, heap=None):
        heap = self.heap if heap is None else heap
        if name not in heap:
            sh = self.field_shape(name)
            heap[name] = [
                z3.Const(f"H0.{name}.{i}", z3.ArraySort(Ref, s)) for i, s in enumerate(shape_sorts(sh))
            ]
            if heap is self.heap:
                self.heap0.setdefault(name, heap[name])
        return heap[name]

    def read_field(self, obj, name, heap=None):
        if isinstance(obj, OptV):
            obj = obj.val
        if not isinstance(obj, ObjV):
            raise Unsupported(f"field read .{name} on {type(obj).__name__}")
        arrs = self.heap_arrays(name, heap)
        r = unflatten(self.field_shape(name), [z3.Select(a, obj.ref) for a in arrs])
        if isinstance(r, SeqV) and name in getattr(self.prop, "ndarray_fields", ()):
            r.is_ndarray = True  # e.g. Series.values: a numpy array (elementwise comparison with a scalar)
        return r

    def write_field(self, obj, name, value):
        if isinstance(obj, OptV):
            if self.decide(obj.isnone):
                raise RaiseEx("AttributeError", getattr(self, "cur_line", 0))
            obj = obj.val
        if not isinstance(obj, ObjV):
            raise Unsupported(f"field write .{name} on {type(obj).__name__}")
        arrs = self.heap_arrays(name)
        terms = flatten(self.field_shape(name), value)
        self.heap[name] = [z3.Store(a, obj.ref, t) for a, t in zip(arrs, terms)]

    def havoc_field(self, name, tag="hv"):
        sh = self.field_shape(name)
        self.heap_arrays(name)
        self.heap[name] = [
            z3.Const(fresh_name(f"H.{name}.{i}.{tag}"), z3.ArraySort(Ref, s)) for i, s in enumerate(shape_sorts(sh))
        ]

    def new_object(self, cls):
        r = z3.Const(fresh_name(f"new.{cls}"), Ref)
        self.assume(r != V.NULL, fresh=True)
        for o in self.allocated:
            self.assume(r != o, fresh=True)
        self.allocated.append(r)
        self.assume(z3.Not(self.prop.pre_allocated(r)), fresh=True)
        return ObjV(r, cls)

    # ---- running a function -----------------------------------------------------
    def start_path(self):
        global CURRENT
        CURRENT = self
        self.seq_mem_done = set()
        self.owned_values = {}
        self.materialized = {}
        self.in_comprehension = 0
        self.fresh_facts = set()
        self.loop_stack = []
        self.hyps = []
        self.heap = {}
        self.heap0 = {}
        self.allocated = []
        self.env = Env()

    def run_body(self, fnode, env):
        saved = self.env
        self.env = env
        try:
            self.exec_block(fnode.body)
            return NONE
        except ReturnEx as r:
            return r.value
        finally:
            self.env = saved

    # ---- statements -------------------------------------------------------------
    def exec_block(self, stmts):
        for s in stmts:
            self.exec_stmt(s)

    def is_dropped(self, s):
        """Effect-free logging / progress statements that the extraction drops."""
        if isinstance(s, ast.Expr):
            if isinstance(s.value, ast.Constant):
                return True  # docstring
            if isinstance(s.value, ast.Call):
                txt = ast.unparse(s.value.func)
                for pat in self.prop.drop_calls:
                    if txt == pat or txt.startswith(pat + ".") or (pat.endswith(".") and txt.startswith(pat)):
                        self.drops.add(f"{self.qualname}:{s.lineno}: {ast.unparse(s)[:70]}")
                        return True
        return False

    def exec_stmt(self, s):
        if self.is_dropped(s):
            return
        m = getattr(self, "st_" + type(s).__name__, None)
        if m is None:
            raise Unsupported(f"statement {type(s).__name__} at {self.qualname}:{s.lineno}")
        self.cur_line = s.lineno
        self.covered.add(id(s))
        m(s)

    def st_Pass(self, s):
        pass

    def st_Global(self, s):
        raise Unsupported("global statement")

    def st_Nonlocal(self, s):
        self.env.nonlocals.update(s.names)

    def st_Expr(self, s):
        if isinstance(s.value, ast.Yield):
            # generator under contract: the yielded values form the ghost output sequence
            out = self.env.get("__yielded__")
            v = self.eval(s.value.value) if s.value.value is not None else NONE
            terms = flatten(out.shape, v)
            arrs = [z3.Store(a, out.n, t) for a, t in zip(arrs_of(out), terms)]
            self.env.mutate("__yielded__", SeqV(out.shape, arrs if len(arrs) > 1 else arrs[0], out.n + 1))
            return
        if isinstance(s.value, ast.YieldFrom):
            # `yield from gen(...)`: everything the (contract of the) called generator yields is yielded here
            out = self.env.get("__yielded__")
            sub = self.as_seq(self.eval(s.value.value), s)
            self.env.mutate("__yielded__", self.seq_binop(ast.Add(), out, sub) if not isinstance(out, EmptySeq) else sub)
            return
        self.eval(s.value)

    def st_Import(self, s):
        raise Unsupported("import inside function")

    def st_ImportFrom(self, s):
        """`from module import Name` inside a function: binds names that the contracts know (classes
        declared for the property, functions under contract); anything else is outside the subset."""
        for a in s.names:
            nm = a.asname or a.name
            if a.name in self.prop.classes:
                self.env.set(nm, ClassV(a.name))
            elif self.prop.lookup_callee(a.name, self.relfile) is not None:
                self.env.set(nm, FnV(name=a.name, qual=a.name))
            else:
                raise Unsupported(f"local import of {a.name}, which the contracts do not declare")

    def st_FunctionDef(self, s):
        self.env.set(s.name, FnV(node=s, env=self.env, name=s.name))

    def st_Return(self, s):
        raise ReturnEx(self.eval(s.value) if s.value is not None else NONE)

    def st_Break(self, s):
        raise BreakEx()

    def st_Continue(self, s):
        raise ContinueEx()

    def st_Assert(self, s):
        c = self.truth(self.eval(s.test))
        mode = self.prop.assert_mode
        if mode == "oblige":
            self.oblige(f"{self.qualname}/assert@{self.rel_line(s)}", c, "assert", s.lineno)
            self.assume(c)
        else:
            if not self.decide(c):
                raise RaiseEx("AssertionError", s.lineno)

    def rel_line(self, s):
        return s.lineno - self.fnode.lineno

    def st_Raise(self, s):
        if s.exc is None:
            raise Unsupported("bare raise")
        e = s.exc
        name = None
        if isinstance(e, ast.Call):
            name = ast.unparse(e.func)
        elif isinstance(e, ast.Name):
            name = e.id
            try:
                v = self.env.get(e.id)
                if isinstance(v, ExcV):
                    name = v.exc  # re-raise of a caught exception
            except KeyError:
                pass
        else:
            raise Unsupported("raise of a computed object")
        raise RaiseEx(name.split(".")[-1], s.lineno)

    def st_Try(self, s):
        """try / except: exceptions raised by statements of the body (RaiseEx: explicit raises, failing
        lookups, asserts) are matched against the handlers by class name (a handler for a base class
        listed in prop.exc_parents also matches).  Exceptions inside callees under contract are not
        modelled (contracts describe normal returns), so a handler whose only sources are calls is
        never entered: it can then only rename / annotate an exception that propagates anyway."""
        if s.finalbody:
            raise Unsupported("try ... finally")
        try:
            self.exec_block(s.body)
        except RaiseEx as r:
            for h in s.handlers:
                if h.type is None:
                    names = None
                elif isinstance(h.type, ast.Tuple):
                    names = [ast.unparse(x).split(".")[-1] for x in h.type.elts]
                else:
                    names = [ast.unparse(h.type).split(".")[-1]]
                anc, frontier = {r.exc}, [r.exc]
                while frontier:
                    for par in self.prop.exc_parents.get(frontier.pop(), []):
                        if par not in anc:
                            anc.add(par)
                            frontier.append(par)
                if names is None or anc & set(names) or "Exception" in names or "BaseException" in names:
                    if h.name:
                        self.env.set(h.name, ExcV(r.exc))
                    self.exec_block(h.body)
                    return
            raise
        self.exec_block(s.orelse)

    def st_If(self, s):
        taken = self.decide(self.truth(self.eval(s.test)))
        # `if x is None:` / `if x is not None:` on a maybe-None variable: where x is known not to be None it
        # is re-bound to its plain value (flow-sensitive refinement; the path condition already says so)
        t = s.test
        if isinstance(t, ast.Compare) and len(t.ops) == 1 and isinstance(t.ops[0], (ast.Is, ast.IsNot)) and isinstance(t.left, ast.Name) \
                and isinstance(t.comparators[0], ast.Constant) and t.comparators[0].value is None:
            not_none_here = taken != isinstance(t.ops[0], ast.Is)
            try:
                cur = self.env.get(t.left.id)
            except KeyError:
                cur = None
            from . import types as T_
            declared_optional = isinstance(self.fctx.locals.get(t.left.id), T_.OPT)  # the contract reads it as (isnone, value)
            if isinstance(cur, OptV) and not_none_here and not declared_optional:
                v = cur.val
                if getattr(cur.val, "owner", None) is None and getattr(cur, "owner", None) is not None:
                    v.owner = cur.owner
                self.env.mutate(t.left.id, v)
                self._refined_after_if = None
            elif isinstance(cur, OptV) and not s.orelse:
                # the None branch of `if x is None: x = <default>`: after the statement x is not None on this
                # path either when the body assigns a plain value (checked below)
                pass
        if taken:
            self.exec_block(s.body)
        else:
            self.exec_block(s.orelse)

    def st_Assign(self, s):
        # declared type of the (single, plain) target: lets `{k: set() for ...}` / `{k: [] ...}` type
        # their empty values
        self.expected_type = self.fctx.locals.get(s.targets[0].id) if len(s.targets) == 1 and isinstance(s.targets[0], ast.Name) else None
        try:
            v = self.eval(s.value)
        finally:
            self.expected_type = None
        for t in s.targets:
            self.assign(t, v)

    def st_AnnAssign(self, s):
        if s.value is not None:
            self.assign(s.target, self.eval(s.value))

    def st_AugAssign(self, s):
        cur = self.eval(s.target)
        v = self.binop(s.op, cur, self.eval(s.value), s)
        self.assign(s.target, v)

    def assign(self, t, v, mutate=False):
        if isinstance(t, ast.Name):
            v = self.typed_empty(t.id, v)
            if getattr(v, "is_iterator", False):
                self.env.set("__pos_" + t.id, z3.IntVal(0))  # position of the iterator bound to this name
            if mutate and self.env.lookup_env(t.id) is not None:
                # in-place mutation of a container held by a (possibly enclosing) variable
                self.note_mutation(self.env.get(t.id), v)
                self.env.mutate(t.id, v)
            else:
                self.env.set(t.id, v)
        elif isinstance(t, (ast.Tuple, ast.List)):
            items = self.unpack_value(v, len(t.elts))
            for e, x in zip(t.elts, items):
                self.assign(e, x)
        elif isinstance(t, ast.Attribute):
            obj = self.eval(t.value)
            self.write_field(obj, t.attr, v)
        elif isinstance(t, ast.Subscript):
            base = self.eval(t.value)
            newbase = self.store_index(base, self.eval_index(t.slice), v)
            # `x[i] = v` mutates the container x refers to: rebind x where it lives (it may be a
            # variable of an enclosing function)
            self.assign(t.value, newbase, mutate=True)
        else:
            raise Unsupported(f"assignment target {type(t).__name__}")

    def note_mutation(self, cur, new):
        """In-place mutation of a container that came in as a parameter (`owner` = the parameter's
        name): allowed only if the contract declares it with c.mutates(...); the mutated value is
        still the caller's object, so the tag is kept."""
        owner = getattr(cur, "owner", None)
        if owner is None:
            return
        if owner not in self.fctx.mutated_params:
            self.oblige(f"{self.qualname}/frame.parameter_{owner}_is_not_mutated@{self.cur_line - self.fnode.lineno}", z3.BoolVal(False), "frame", self.cur_line)
        try:
            new.owner = owner
            self.owned_values[owner] = new  # the caller's container as it is now (see FnCtx.final)
        except AttributeError:
            pass

    def typed_empty(self, name, v):
        """`[]`, `set()`, `{}` bound to a local whose type the contract declares."""
        from .builtins import EmptySet, empty_seq, empty_set, empty_map
        from . import types as T

        ltyp = self.fctx.locals.get(name)
        if isinstance(ltyp, T.OPT):
            # a local declared Optional: None / plain values are stored in the (isnone, value) form
            if v is NONE:
                return OptV(z3.BoolVal(True), ltyp.inner.fresh(name + ".none"))
            if not isinstance(v, OptV):
                return OptV(z3.BoolVal(False), v)
            return v
        if isinstance(v, NoneList):
            typ = self.fctx.locals.get(name)
            if not (isinstance(typ, T.SEQ) and isinstance(typ.elem, T.OPT)):
                raise Unsupported(f"`[None] * n` bound to {name}: declare its type SEQ(OPT(..)) in the contract")
            sh = typ.elem.shape()
            sorts = shape_sorts(sh)
            arrs = [z3.K(z3.IntSort(), z3.BoolVal(True))] + [z3.K(z3.IntSort(), default_of(s)) for s in sorts[1:]]
            return SeqV(sh, arrs, v.n)
        if isinstance(v, DefaultDictEmpty):
            typ = self.fctx.locals.get(name)
            if not isinstance(typ, T.MAP):
                raise Unsupported(f"defaultdict bound to {name}: declare its type MAP(..) in the contract")
            r = empty_map(typ.key.shape(), typ.val.shape(), typ.ordered)
            r.default = v.default
            return r
        if isinstance(v, (EmptySeq, EmptySet, EmptyDict)):
            typ = self.fctx.locals.get(name)
            if typ is None:
                return v
            if isinstance(typ, T.SEQ) and isinstance(v, EmptySeq):
                return empty_seq(typ.elem.shape())
            if isinstance(typ, T.SET) and isinstance(v, EmptySet):
                return empty_set(typ.elem.shape())
            if isinstance(typ, T.MAP) and isinstance(v, EmptyDict):
                return empty_map(typ.key.shape(), typ.val.shape(), typ.ordered)
            raise Unsupported(f"local {name}: declared type does not match the empty literal")
        return v

    def unpack_value(self, v, n):
        if isinstance(v, Tup):
            if len(v.items) != n:
                raise Unsupported("unpack arity")
            return list(v.items)
        if is_z3(v) and v.sort() == V.Val:
            # unpacking an opaque value: its items (a wrong arity would raise in Python; the
            # contracts that produce such values state their arity)
            return [self.prop.theory.item(v, z3.IntVal(i)) for i in range(n)]
        if isinstance(v, SeqV):
            # unpacking a list: its length must be the number of targets (else ValueError)
            if not self.decide(v.n == n):
                raise RaiseEx("ValueError", getattr(self, "cur_line", 0))
            return [v.get(z3.IntVal(i)) for i in range(n)]
        raise Unsupported(f"unpacking of {type(v).__name__}")

    # ---- loops --------------------------------------------------------------------
    def loop_invariant(self, node):
        lid = self.loop_ids[id(node)]
        return lid, self.fctx.invariants.get(lid)

    def havoc_loop_targets(self, node, lid):
        names, fields = assigned_names(node.body + node.orelse, self.local_defs)
        # variables handed to an in-out parameter of a function under contract are mutated by the call
        for st in node.body + node.orelse:
            for n in ast.walk(st):
                if isinstance(n, ast.Call):
                    fname = n.func.id if isinstance(n.func, ast.Name) else (n.func.attr if isinstance(n.func, ast.Attribute) else None)
                    for sp in [s_ for s_ in self.prop.specs if fname and (s_.name == fname) and getattr(s_, "static_inout", None)]:
                        sig_params = None
                        try:
                            from .contracts import FnCtx
                            sig_params = FnCtx(self.prop, sp, "call", ex=self)._signature()[0]
                        except Exception:
                            pass
                        for pname in sp.static_inout:
                            if sig_params and pname in sig_params:
                                pos = sig_params.index(pname) - (1 if isinstance(n.func, ast.Attribute) and sig_params[0] == "self" else 0)
                                if 0 <= pos < len(n.args) and isinstance(n.args[pos], ast.Name):
                                    names.add(n.args[pos].id)
                            for kw in n.keywords:
                                if kw.arg == pname and isinstance(kw.value, ast.Name):
                                    names.add(kw.value.id)
                if isinstance(n, ast.YieldFrom):
                    names.add("__yielded__")
        if isinstance(node, ast.For):
            n2, _ = assigned_names([ast.Assign(targets=[node.target], value=ast.Constant(0))], self.local_defs)
            names |= n2
        for nm in sorted(names):
            e = self.env.lookup_env(nm)
            if e is None:
                continue  # first assigned inside the loop: no entry value to havoc
            cur = e.vars[nm]
            if (cur is NONE or isinstance(cur, (StrV, FnV, ClassV, ModV))) and not rebinds(node.body + node.orelse, nm):
                continue  # only method calls on an immutable value: nothing to havoc
            e.vars[nm] = self.havoc_like(cur, f"{nm}.{lid}")
            if getattr(cur, "owner", None) is not None:
                e.vars[nm].owner = cur.owner
                if self.owned_values.get(cur.owner) is cur:
                    self.owned_values[cur.owner] = e.vars[nm]  # the caller's container after the loop's mutations
            if getattr(cur, "default", None) is not None:
                e.vars[nm].default = cur.default
        # heap: the fields the loop body may modify -- those it stores syntactically plus those that
        # the contracts of the functions it calls declare (statically, `modifies=` at registration);
        # a callee under contract without a static declaration may modify anything the enclosing
        # function may modify
        callee_fields, unknown = set(), False
        for st in node.body + node.orelse:
            for n in ast.walk(st):
                if isinstance(n, ast.Call):
                    fname = n.func.id if isinstance(n.func, ast.Name) else (n.func.attr if isinstance(n.func, ast.Attribute) else None)
                    if fname is None:
                        unknown = True
                        continue
                    if fname in self.local_defs:
                        continue  # nested defs are inlined: their stores were collected syntactically
                    for sp in [s for s in self.prop.specs if s.name == fname or s.name.endswith("." + fname)]:
                        if sp.static_modifies is None:
                            unknown = True
                        else:
                            callee_fields |= set(sp.static_modifies)
        if unknown:
            callee_fields |= set(self.fctx.modifies_fields)
        for f in sorted(set(fields) | callee_fields):
            if f in self.prop.fields:
                self.havoc_field(f, lid)
        return names

    def havoc_like(self, cur, name):
        if isinstance(cur, z3.ExprRef):
            return z3.Const(fresh_name(name), cur.sort())
        if isinstance(cur, SeqV):
            arrs = [z3.Const(fresh_name(f"{name}.a{i}"), a.sort()) for i, a in enumerate(arrs_of(cur))]
            n = z3.Const(fresh_name(name + ".len"), z3.IntSort())
            self.assume(n >= 0)
            return SeqV(cur.shape, arrs if len(arrs) > 1 else arrs[0], n)
        if isinstance(cur, SetV):
            return SetV(cur.shape, z3.Const(fresh_name(name), cur.arr.sort()))
        if isinstance(cur, MapV):
            dom = z3.Const(fresh_name(name + ".dom"), cur.dom.sort())
            vals = [z3.Const(fresh_name(f"{name}.val{i}"), a.sort()) for i, a in enumerate(cur.val if isinstance(cur.val, (list, tuple)) else [cur.val])]
            keys = self.havoc_like(cur.keys, name + ".keys") if cur.keys is not None else None
            return MapV(cur.kshape, cur.vshape, dom, vals if len(vals) > 1 else vals[0], keys)
        if isinstance(cur, Tup):
            return Tup([self.havoc_like(x, f"{name}.{i}") for i, x in enumerate(cur.items)])
        if isinstance(cur, OptV):
            return OptV(z3.Const(fresh_name(name + ".isnone"), z3.BoolSort()), self.havoc_like(cur.val, name))
        if isinstance(cur, ObjV):
            return ObjV(z3.Const(fresh_name(name), Ref), cur.cls)
        if isinstance(cur, (FnV, ClassV, ModV, StrV)) or cur is NONE:
            raise Unsupported(f"loop re-binds {name} which holds a {type(cur).__name__}; give it a declared type")
        raise Unsupported(f"cannot havoc {type(cur).__name__}")

    def materialize(self, seq):
        """A sequence whose array is a z3 lambda is re-expressed over a fresh array
        constant m with  forall i. m[i] == body(i)  (lambdas cannot occur in patterns)."""
        arrs = arrs_of(seq)
        if not any(z3.is_quantifier(a) for a in arrs):
            return seq
        key = tuple(a.get_id() for a in arrs) + (seq.n.get_id(),)
        if key in self.materialized:
            return self.materialized[key]
        out = []
        for a in arrs:
            if z3.is_quantifier(a):
                m = z3.Const(fresh_name("arr"), a.sort())
                i = z3.Const(fresh_name("ai"), z3.IntSort())
                self.assume(V.qforall([i], z3.Select(m, i) == z3.Select(a, i), patterns=[z3.Select(m, i)]))
                out.append(m)
            else:
                out.append(a)
        r = SeqV(seq.shape, out if len(out) > 1 else out[0], seq.n)
        for attr in ("is_ndarray", "strictly_increasing", "range"):
            if hasattr(seq, attr):
                setattr(r, attr, getattr(seq, attr))
        self.materialized[key] = r
        return r

    def seq_mem(self, seq, x):
        """`x in seq` as an atom seq_mem(arr, n, x), *defined* for this (arr, n) by the two
        skolemised halves of  exists j. 0 <= j < n and arr[j] == x  (assumed once per path).
        An atom (instead of an inline existential) gives quantified facts a pattern."""
        seq = self.materialize(seq)
        (a,) = arrs_of(seq)
        es = a.sort().range()
        f = z3.Function(f"seq_mem.{es}", a.sort(), z3.IntSort(), es, z3.BoolSort())
        w = z3.Function(f"seq_mem.witness.{es}", a.sort(), z3.IntSort(), es, z3.IntSort())
        key = (a.get_id(), seq.n.get_id())
        if key not in self.seq_mem_done:
            self.seq_mem_done.add(key)
            j = z3.Const(fresh_name("mj"), z3.IntSort())
            y = z3.Const(fresh_name("my"), es)
            sel = z3.Select(a, j)
            body1 = z3.Implies(z3.And(j >= 0, j < seq.n), f(a, seq.n, sel))
            try:
                self.assume(V.qforall([j], body1, patterns=[sel]))
            except z3.Z3Exception:
                self.assume(V.qforall([j], body1))
            wy = w(a, seq.n, y)
            self.assume(V.qforall([y], z3.Implies(f(a, seq.n, y), z3.And(wy >= 0, wy < seq.n, z3.Select(a, wy) == y)), patterns=[f(a, seq.n, y)]))
        return f(a, seq.n, x)

    def seq_mem_index(self, seq, x):
        """The witness position of `x in seq` (some j with seq[j] == x when x is a member)."""
        m = self.seq_mem(seq, x)
        a, n, y = m.children()
        es = a.sort().range()
        w = z3.Function(f"seq_mem.witness.{es}", a.sort(), z3.IntSort(), es, z3.IntSort())
        return w(a, n, y)

    def trigger(self, term):
        """Keep `term` alive in the VC so that quantified hints can match it.  The
        hypothesis vf_trigger(term) uses a predicate that occurs nowhere else: it can
        be interpreted as `true` in any model, so it adds no logical content."""
        t = z3.Function("vf_trigger." + str(term.sort()), term.sort(), z3.BoolSort())
        self.assume(t(term))

    def check_inv(self, inv, L, lid, phase):
        if inv is None:
            return
        for nm, f in inv(L):
            if nm.startswith("trigger"):
                self.trigger(f)
                continue
            if nm.startswith("use:"):
                self.assume(f)  # instance of a proven lemma
                continue
            self.oblige(f"{self.qualname}/{lid}.inv.{nm}.{phase}", f, "invariant." + phase)

    def assume_inv(self, inv, L):
        if inv is None:
            return
        for nm, f in inv(L):
            if nm.startswith("trigger"):
                self.trigger(f)
                continue
            self.assume(f)

    def frame_check_segment(self, entry_heap, lid):
        for f, arrs in self.heap.items():
            if f in self.fctx.modifies_fields:
                continue
            base = entry_heap.get(f) or self.heap0.get(f)
            if base is None:
                continue
            for a, b in zip(arrs, base):
                if not a.eq(b):
                    r = z3.Const("fr!r", Ref)
                    self.oblige(f"{self.qualname}/{lid}.frame.{f}", V.qforall([r], z3.Implies(self.prop.alloc0(r), z3.Select(a, r) == z3.Select(b, r))), "frame")

    def st_For(self, s):
        seq = self.as_seq(self.eval(s.iter), s)
        lid, inv = self.loop_invariant(s)
        if inv is None and z3.is_int_value(z3.simplify(seq.n)) and z3.simplify(seq.n).as_long() == 0:
            # a loop over a sequence that is empty by construction: no iteration, nothing changes
            self.exec_block(s.orelse)
            return
        entry_env = self.snapshot_env()
        entry_heap = dict(self.heap)
        zero = z3.IntVal(0)
        self.check_inv(inv, LoopCtx(self, zero, seq, entry_env, entry_heap), lid, "init")
        which = self.choose(2)
        self.havoc_loop_targets(s, lid)
        if which == 0:
            # arbitrary iteration
            k = z3.Const(fresh_name(f"k.{lid}"), z3.IntSort())
            if z3.is_int_value(z3.simplify(seq.n)) and z3.simplify(seq.n).as_long() == 0:
                raise PathEnd()  # a loop over a sequence that is empty by construction has no iteration
            self.assume(z3.And(k >= 0, k < seq.n))
            self.assume_inv(inv, LoopCtx(self, k, seq, entry_env, entry_heap))
            self.assign(s.target, seq.get(k))
            self.loop_stack.append(LoopCtx(self, k, seq, entry_env, entry_heap))  # L.outer of inner loops
            try:
                self.exec_block(s.body)
            except ContinueEx:
                pass
            except BreakEx:
                self.loop_stack.pop()
                return  # continue after the loop with the state at the break (no orelse)
            self.loop_stack.pop()
            self.check_inv(inv, LoopCtx(self, k + 1, seq, entry_env, entry_heap), lid, "preserve")
            self.frame_check_segment(entry_heap, lid)
            raise PathEnd()
        else:
            self.assume_inv(inv, LoopCtx(self, seq.n, seq, entry_env, entry_heap))
            # loop variable after the loop: last element if any (left havocked otherwise)
            self.exec_block(s.orelse)

    def st_While(self, s):
        lid, inv = self.loop_invariant(s)
        entry_env = self.snapshot_env()
        entry_heap = dict(self.heap)
        L0 = LoopCtx(self, None, None, entry_env, entry_heap)
        self.check_inv(inv, L0, lid, "init")
        which = self.choose(2)
        self.havoc_loop_targets(s, lid)
        self.assume_inv(inv, L0)
        variant = self.fctx.variants.get(lid)
        v0 = variant(L0) if variant else None
        cond = self.truth(self.eval(s.test))
        if which == 0:
            self.assume(cond)
            try:
                self.exec_block(s.body)
            except ContinueEx:
                pass
            except BreakEx:
                return
            self.check_inv(inv, L0, lid, "preserve")
            if variant:
                v1 = variant(L0)
                self.oblige(f"{self.qualname}/{lid}.variant", z3.And(v0 >= 0, v1 < v0), "variant")
            self.frame_check_segment(entry_heap, lid)
            raise PathEnd()
        else:
            self.assume(z3.Not(cond))
            self.exec_block(s.orelse)

    def snapshot_env(self):
        snap = {}
        e = self.env
        chain = []
        while e is not None:
            chain.append(e)
            e = e.parent
        for e in reversed(chain):
            snap.update(e.vars)
        return snap

    # ---- expressions ----------------------------------------------------------------
    def eval(self, e):
        m = getattr(self, "ev_" + type(e).__name__, None)
        if m is None:
            raise Unsupported(f"expression {type(e).__name__} at {self.qualname}:{getattr(e, 'lineno', '?')}")
        return m(e)

    def ev_Constant(self, e):
        if isinstance(e.value, (bool, int, float, str)) or e.value is None:
            return lift(e.value)
        raise Unsupported(f"constant {e.value!r}")

    def ev_Name(self, e):
        try:
            return self.env.get(e.id)
        except KeyError:
            pass
        return self.resolve_global(e.id)

    def resolve_global(self, name):
        g = self.fctx.globals.get(name, self.prop.globals.get(name))
        if g is not None:
            return lift(g)
        from .builtins import BUILTINS, MODULES

        if name in BUILTINS:
            return V.FnV(name="builtin:" + name)
        if name in MODULES:
            return ModV(MODULES[name])
        if self.prop.lookup_callee(name, self.relfile) is not None:
            return FnV(name=name, qual=name)
        # module-level function of the same file that is marked inline
        for n in self.tree.body:
            if isinstance(n, ast.FunctionDef) and n.name == name:
                if name in self.prop.inline:
                    return FnV(node=n, env=Env(), name=name)
                raise Unsupported(f"call of {name} which has no contract and is not marked inline")
            if isinstance(n, ast.ClassDef) and n.name == name:
                return ClassV(name)
        if name in self.prop.classes:
            return ClassV(name)
        raise Unsupported(f"unknown global name {name!r} in {self.qualname}")

    def ev_Tuple(self, e):
        return Tup([self.eval(x) for x in e.elts])

    def ev_List(self, e):
        items = [self.eval(x) for x in e.elts]
        if items and all(isinstance(x, StrV) for x in items):
            return Tup(items)  # a list of string constants that is only read
        if len(items) == 1 and items[0] is NONE:
            return NoneList(z3.IntVal(1))
        return self.seq_from_items(items)

    def seq_from_items(self, items, shape=None):
        if not items and shape is None:
            return EmptySeq()
        if shape is None:
            shape = self.shape_of(items[0])
        sorts = shape_sorts(shape)
        arrs = [z3.K(z3.IntSort(), default_of(s)) for s in sorts]
        for i, it in enumerate(items):
            for j, t in enumerate(flatten(shape, it)):
                arrs[j] = z3.Store(arrs[j], i, t)
        return SeqV(shape, arrs if len(arrs) > 1 else arrs[0], z3.IntVal(len(items)))

    def shape_of(self, v):
        v = lift(v)
        if isinstance(v, QuotV):
            return z3.RealSort()
        if is_z3(v):
            return v.sort()
        if isinstance(v, Tup):
            return TupShape(*[self.shape_of(x) for x in v.items])
        if isinstance(v, ObjV):
            return ObjShape(v.cls)
        if isinstance(v, OptV):
            return V.OptShape(self.shape_of(v.val))
        if isinstance(v, SetV):
            return V.SetShape(v.shape)
        raise Unsupported(f"no element shape for {type(v).__name__}")

    def ev_Attribute(self, e):
        base = self.eval(e.value)
        return self.getattr(base, e.attr, e)

    def getattr(self, base, attr, node=None):
        from .builtins import MODULE_ATTRS

        from .builtins import SuperV

        if isinstance(base, SuperV):
            return BoundMethod(base.obj, "super." + attr)
        if isinstance(base, ModV):
            key = f"{base.name}.{attr}"
            if key in MODULE_ATTRS:
                return MODULE_ATTRS[key]
            if self.prop.lookup_callee(key, self.relfile) is not None:
                return FnV(name=key, qual=key)  # an assumed (external) contract for module.function
            return FnV(name="builtin:" + key)
        if isinstance(base, ObjV):
            cc = self.prop.class_consts.get((base.cls, attr))
            if cc is None:
                cc = self.prop.class_consts.get((None, attr))
            if cc is not None:
                return lift(cc)
            if attr in self.prop.fields:
                return self.read_field(base, attr)
            k = self.class_constant(base.cls, attr)
            if k is not None:
                return k
            return BoundMethod(base, attr)
        if isinstance(base, OptV):
            # attribute access on a maybe-None value: None would raise AttributeError
            if self.decide(base.isnone):
                raise RaiseEx("AttributeError", getattr(node, "lineno", 0))
            return self.getattr(base.val, attr, node)
        if isinstance(base, (SeqV, SetV, MapV, StrV, EmptySeq, Tup)) or is_z3(base):
            return BoundMethod(base, attr)
        if isinstance(base, ClassV):
            cc = self.prop.class_consts.get((base.name, attr))
            if cc is not None:
                return lift(cc)
            return FnV(name=f"{base.name}.{attr}", qual=f"{base.name}.{attr}")
        raise Unsupported(f"attribute .{attr} on {type(base).__name__}")

    def class_constant(self, cls, attr):
        """`self.NAME` where NAME = <literal> is assigned in the class body (real source)."""
        for n in ast.walk(self.tree):
            if isinstance(n, ast.ClassDef) and n.name == cls:
                for st in n.body:
                    if isinstance(st, ast.Assign) and any(isinstance(t, ast.Name) and t.id == attr for t in st.targets):
                        try:
                            return lift(ast.literal_eval(st.value))
                        except Exception:
                            raise Unsupported(f"class attribute {cls}.{attr} is not a literal")
        return None

    def ev_NamedExpr(self, e):
        v = self.eval(e.value)
        self.assign(e.target, v)
        return v

    def ev_IfExp(self, e):
        c = self.truth(self.eval(e.test))
        if self.decide(c):
            return self.eval(e.body)
        return self.eval(e.orelse)

    def ev_BoolOp(self, e):
        if self.in_comprehension:
            # no path split inside a comprehension body: all operands are evaluated (obligations of a
            # later operand are then required unconditionally, which is stronger than Python's
            # short-circuit needs) and combined when they are all truth values
            vals = [lift(self.eval(sub)) for sub in e.values]
            if all(is_bool(v) for v in vals):
                return z3.And(*vals) if isinstance(e.op, ast.And) else z3.Or(*vals)
            raise Unsupported("and/or of non-boolean operands inside a comprehension")
        # short-circuit with Python value semantics
        last = None
        for i, sub in enumerate(e.values):
            last = self.eval(sub)
            if i == len(e.values) - 1:
                return last
            t = self.truth(last)
            if isinstance(e.op, ast.And):
                if not self.decide(t):
                    return last
            else:
                if self.decide(t):
                    return last
        return last

    def ev_UnaryOp(self, e):
        v = self.eval(e.operand)
        if isinstance(e.op, ast.Not):
            return z3.Not(self.truth(v))
        if isinstance(e.op, ast.USub):
            return -to_num(v)
        if isinstance(e.op, ast.UAdd):
            return to_num(v)
        if isinstance(e.op, ast.Invert):
            if isinstance(v, ObjV):
                return self.call_method(v, "__invert__", [], {}, e)
            raise Unsupported("~ on non-object")
        raise Unsupported("unary op")

    def ev_BinOp(self, e):
        return self.binop(e.op, self.eval(e.left), self.eval(e.right), e)

    DUNDER = {ast.BitAnd: "__and__", ast.BitOr: "__or__", ast.Sub: "__sub__", ast.BitXor: "__xor__",
              ast.Add: "__add__", ast.Mult: "__mul__"}

    def binop(self, op, a, b, node):
        a, b = lift(a), lift(b)
        if isinstance(a, NoneList) and isinstance(op, ast.Mult):
            n = to_num(b)
            self.oblige(f"{self.qualname}/repeat_nonneg@{self.rel_line(node)}", n >= 0, "safety")
            self.assume(n >= 0)
            return NoneList(a.n * n)
        if isinstance(a, ObjV) and type(op) in self.DUNDER:
            return self.call_method(a, self.DUNDER[type(op)], [b], {}, node)
        if isinstance(a, SetV) or isinstance(b, SetV):
            return self.set_binop(op, a, b)
        if isinstance(a, (SeqV, EmptySeq)) or isinstance(b, (SeqV, EmptySeq)):
            return self.seq_binop(op, a, b)
        if isinstance(a, OptV) or isinstance(b, OptV):
            # arithmetic on a maybe-None value: None raises TypeError
            for x in (a, b):
                if isinstance(x, OptV) and self.decide(x.isnone):
                    raise RaiseEx("TypeError", getattr(node, "lineno", 0))
            a = a.val if isinstance(a, OptV) else a
            b = b.val if isinstance(b, OptV) else b
        if isinstance(a, StrV) and isinstance(b, StrV) and isinstance(op, ast.Add):
            return StrV(a.s + b.s)
        if isinstance(op, ast.Add) and (isinstance(a, StrV) or isinstance(b, StrV)):
            # string constant + opaque value: concatenation as an uninterpreted function of both
            th = self.prop.theory
            x, y = (th.str_const(v.s) if isinstance(v, StrV) else v for v in (a, b))
            if is_z3(x) and is_z3(y) and x.sort() == V.Val and y.sort() == V.Val:
                return th.str_concat(x, y)
            raise Unsupported("str + non-opaque value")
        if isinstance(op, ast.Div):
            return QuotV(to_num(a), to_num(b))
        if isinstance(op, ast.Pow):
            if isinstance(b, z3.RatNumRef) and b.as_fraction() == __import__("fractions").Fraction(1, 2):
                return SqrtV(to_num(a))
            if isinstance(b, z3.IntNumRef) and 0 <= b.as_long() <= 4:
                r = z3.IntVal(1)
                for _ in range(b.as_long()):
                    r = r * to_num(a)
                return r
            raise Unsupported("general power")
        x, y = to_num(a), to_num(b)
        if x.is_int() != y.is_int():
            x, y = to_real(x), to_real(y)
        if isinstance(op, ast.Add):
            return x + y
        if isinstance(op, ast.Sub):
            return x - y
        if isinstance(op, ast.Mult):
            return self.prop.theory.mul(x, y, self.prop.abstract_nl)
        if isinstance(op, (ast.FloorDiv, ast.Mod)):
            if not x.is_int():
                raise Unsupported("floor division / modulo on reals")
            # Python floor semantics == z3 Euclidean semantics only for a positive divisor
            self.oblige(f"{self.qualname}/divisor_positive@{self.rel_line(node)}", y > 0, "safety", getattr(node, "lineno", None))
            self.assume(y > 0)
            th = self.prop.theory
            return th.div(x, y, self.prop.abstract_nl) if isinstance(op, ast.FloorDiv) else th.mod(x, y, self.prop.abstract_nl)
        if isinstance(op, ast.RShift) and isinstance(y, z3.IntNumRef):
            return x / (2 ** y.as_long())
        if isinstance(op, ast.LShift) and isinstance(y, z3.IntNumRef):
            return x * (2 ** y.as_long())
        if isinstance(op, (ast.BitAnd, ast.BitOr)) and is_bool(a) and is_bool(b):
            return z3.And(a, b) if isinstance(op, ast.BitAnd) else z3.Or(a, b)
        raise Unsupported(f"binary operator {type(op).__name__}")

    def set_binop(self, op, a, b):
        if not (isinstance(a, SetV) and isinstance(b, SetV)):
            raise Unsupported("set operator with a non-set operand")
        from .builtins import define_set

        A, B = (lambda x: z3.Select(a.arr, x)), (lambda x: z3.Select(b.arr, x))
        if isinstance(op, ast.BitOr):
            body = lambda x: z3.Or(A(x), B(x))
        elif isinstance(op, ast.BitAnd):
            body = lambda x: z3.And(A(x), B(x))
        elif isinstance(op, ast.Sub):
            body = lambda x: z3.And(A(x), z3.Not(B(x)))
        elif isinstance(op, ast.BitXor):
            body = lambda x: z3.Xor(A(x), B(x))
        else:
            raise Unsupported("set operator")
        return define_set(self, a.shape, body)

    def seq_binop(self, op, a, b):
        # numpy array (modelled as a sequence) times / plus a scalar: elementwise
        if isinstance(a, SeqV) and is_z3(lift(b)) and isinstance(op, (ast.Mult, ast.Add, ast.Sub)) and getattr(a, "is_ndarray", False):
            i = z3.Const(fresh_name("i"), z3.IntSort())
            el = z3.Select(a.arr, i)
            y = to_num(b)
            a = self.materialize(a)
            el = z3.Select(a.arr, i)
            body = self.prop.theory.mul(el, y, self.prop.abstract_nl) if isinstance(op, ast.Mult) else (el + y if isinstance(op, ast.Add) else el - y)
            m = z3.Const(fresh_name("elementwise"), a.arr.sort())
            # defined array: m[i] == a[i] (op) y, usable from either side (two alternative patterns)
            self.assume(V.qforall([i], z3.Select(m, i) == body, patterns=[z3.Select(m, i), el]))
            r = SeqV(a.shape, m, a.n)
            r.is_ndarray = True
            return r
        if isinstance(op, ast.Add) and isinstance(a, (SeqV, EmptySeq)) and isinstance(b, (SeqV, EmptySeq)) and not getattr(a, "is_ndarray", False):
            # list concatenation: defined arrays  m[i] == (a[i] if i < len(a) else b[i - len(a)])
            if isinstance(a, EmptySeq):
                return b
            if isinstance(b, EmptySeq):
                return a
            a, b = self.materialize(a), self.materialize(b)
            i = z3.Const(fresh_name("cc"), z3.IntSort())
            arrs = []
            for x, y in zip(arrs_of(a), arrs_of(b)):
                m = z3.Const(fresh_name("concat"), x.sort())
                self.assume(V.qforall([i], z3.Select(m, i) == z3.If(i < a.n, z3.Select(x, i), z3.Select(y, i - a.n)), patterns=[z3.Select(m, i)]))
                # bridge for E-matching (content-free, see trigger): an item of either operand is an item of the result
                tr = z3.Function("vf_trigger." + str(x.sort().range()), x.sort().range(), z3.BoolSort())
                if not z3.is_quantifier(x):
                    self.assume(V.qforall([i], tr(z3.Select(m, i)), patterns=[z3.Select(x, i)]))
                if not z3.is_quantifier(y):
                    self.assume(V.qforall([i], tr(z3.Select(m, i + a.n)), patterns=[z3.Select(y, i)]))
                arrs.append(m)
            r = SeqV(a.shape, arrs if len(arrs) > 1 else arrs[0], a.n + b.n)
            if len(arrs) == 1:
                # membership in a concatenation (a consequence of the definitions, stated with a pattern)
                y = z3.Const(fresh_name("cy"), arrs[0].sort().range())
                self.assume(V.qforall([y], self.seq_mem(r, y) == z3.Or(self.seq_mem(a, y), self.seq_mem(b, y)), patterns=[self.seq_mem(r, y)]))
            return r
        if isinstance(op, ast.Mult) and isinstance(a, SeqV) and a.n.eq(z3.IntVal(1)):
            # [x] * n
            n = to_num(b)
            first = [z3.Select(ar, 0) for ar in arrs_of(a)]
            arrs = [z3.K(z3.IntSort(), t) for t in first]
            self.oblige(f"{self.qualname}/repeat_nonneg@{self.cur_line - self.fnode.lineno}", n >= 0, "safety")
            return SeqV(a.shape, arrs if len(arrs) > 1 else arrs[0], n)
        raise Unsupported("sequence operator")

    def ev_Compare(self, e):
        left = self.eval(e.left)
        res = []
        for op, rhs in zip(e.ops, e.comparators):
            right = self.eval(rhs)
            res.append(self.compare(op, left, right, e))
            left = right
        return res[0] if len(res) == 1 else z3.And(*res)

    def compare(self, op, a, b, node=None):
        a, b = lift(a), lift(b)
        if isinstance(op, (ast.Is, ast.IsNot, ast.Eq, ast.NotEq)):
            r = self.equal(a, b, identity=isinstance(op, (ast.Is, ast.IsNot)))
            return z3.Not(r) if isinstance(op, (ast.IsNot, ast.NotEq)) else r
        if isinstance(op, (ast.In, ast.NotIn)):
            r = self.contains(b, a, node)
            return z3.Not(r) if isinstance(op, ast.NotIn) else r
        if isinstance(a, OptV) or isinstance(b, OptV):
            # ordering against a maybe-None value: None raises TypeError
            for v in (a, b):
                if isinstance(v, OptV) and self.decide(v.isnone):
                    raise RaiseEx("TypeError", getattr(node, "lineno", 0))
            a = a.val if isinstance(a, OptV) else a
            b = b.val if isinstance(b, OptV) else b
        x, y = to_num(a), to_num(b)
        if x.is_int() != y.is_int():
            x, y = to_real(x), to_real(y)
        return {ast.Lt: x < y, ast.LtE: x <= y, ast.Gt: x > y, ast.GtE: x >= y}[type(op)]

    def equal(self, a, b, identity=False):
        if a is NONE or b is NONE:
            o = b if a is NONE else a
            if o is NONE:
                return z3.BoolVal(True)
            if isinstance(o, OptV):
                return o.isnone
            if isinstance(o, ObjV):
                return o.ref == V.NULL
            return z3.BoolVal(False)
        if isinstance(a, OptV) or isinstance(b, OptV):
            ai, av = (a.isnone, a.val) if isinstance(a, OptV) else (z3.BoolVal(False), a)
            bi, bv = (b.isnone, b.val) if isinstance(b, OptV) else (z3.BoolVal(False), b)
            return z3.Or(z3.And(ai, bi), z3.And(z3.Not(ai), z3.Not(bi), self.equal(av, bv)))
        if not identity and isinstance(a, SeqV) and getattr(a, "is_ndarray", False) and is_z3(b):
            # numpy: array == scalar is the elementwise mask (a boolean array of the same length)
            a = self.materialize(a)
            (arr,) = V.arrs_of(a)
            if arr.sort().range() != b.sort():
                raise Unsupported("ndarray == scalar of another sort")
            m = z3.Const(V.fresh_name("eqmask"), z3.ArraySort(z3.IntSort(), z3.BoolSort()))
            k = z3.Const(V.fresh_name("mk"), z3.IntSort())
            self.assume(V.qforall([k], z3.Select(m, k) == (z3.Select(arr, k) == b), patterns=[z3.Select(m, k)]))
            r = SeqV(z3.BoolSort(), m, a.n)
            r.is_ndarray = True
            return r
        if isinstance(a, StrV) and isinstance(b, StrV):
            return z3.BoolVal(a.s == b.s)
        if isinstance(a, StrV) and is_z3(b) and b.sort() == z3.StringSort():
            return b == z3.StringVal(a.s)
        if isinstance(b, StrV) and is_z3(a) and a.sort() == z3.StringSort():
            return a == z3.StringVal(b.s)
        if isinstance(a, StrV) != isinstance(b, StrV):
            ov = b if isinstance(a, StrV) else a
            sv = a if isinstance(a, StrV) else b
            if is_z3(ov) and ov.sort() == V.Elem:
                return ov == self.prop.elem_of_str(sv.s)
            return z3.BoolVal(False)  # a str never equals a non-str value
        if isinstance(a, ObjV) and not identity and self.prop.has_eq_override(a.cls) and not isinstance(b, ObjV):
            return self.call_method(a, "__eq__", [b], {}, None)  # e.g. pandas Index == scalar: an elementwise mask
        if isinstance(a, ObjV) and isinstance(b, ObjV):
            if identity or not self.prop.has_eq_override(a.cls):
                return a.ref == b.ref
            return self.call_method(a, "__eq__", [b], {}, None)
        if isinstance(a, Tup) and isinstance(b, Tup):
            if len(a.items) != len(b.items):
                return z3.BoolVal(False)
            return z3.And(*[self.equal(x, y) for x, y in zip(a.items, b.items)]) if a.items else z3.BoolVal(True)
        if isinstance(a, QuotV) or isinstance(b, QuotV):
            return to_real(a) == to_real(b)
        if is_z3(a) and is_z3(b):
            if a.sort() == b.sort():
                return a == b
            if isinstance(a, z3.ArithRef) and isinstance(b, z3.ArithRef):
                return to_real(a) == to_real(b)
            if (is_bool(a) and isinstance(b, z3.ArithRef)) or (is_bool(b) and isinstance(a, z3.ArithRef)):
                return to_num(a) == to_num(b)
            return z3.BoolVal(False)
        if isinstance(a, ClassV) and isinstance(b, ClassV):
            return z3.BoolVal(a.name == b.name)
        if type(a) is not type(b):
            return z3.BoolVal(False)
        raise Unsupported(f"== between {type(a).__name__} and {type(b).__name__}")

    def contains(self, container, x, node=None):
        x = lift(x)
        if isinstance(container, SetV):
            return z3.Select(container.arr, coerce_key(self, x, key_sort(container.shape)))
        if isinstance(container, MapV):
            return z3.Select(container.dom, coerce_key(self, x, key_sort(container.kshape)))
        if isinstance(container, EmptySeq):
            return z3.BoolVal(False)
        if isinstance(container, SeqV) and isinstance(container.shape, ObjShape):
            if isinstance(x, ObjV):
                return self.seq_mem(container, x.ref)  # identity (no __eq__ override is modelled)
            if getattr(container, "by_name", False) or container.shape.cls in self.prop.by_name_lists:
                # EvalableList: `key in lst` with a str key is a lookup by element name
                return self.by_name_exists(container, x)
            return z3.BoolVal(False)  # a str / number never equals a model object
        if isinstance(container, SeqV):
            if isinstance(container.n, z3.IntNumRef) and container.n.as_long() <= 8:
                return z3.Or(*[self.equal(container.get(z3.IntVal(i)), x) for i in range(container.n.as_long())])
            if len(arrs_of(container)) == 1 and is_z3(x):
                return self.seq_mem(container, coerce(x, arrs_of(container)[0].sort().range()))
            i = z3.Const(fresh_name("i"), z3.IntSort())
            return z3.Exists([i], z3.And(i >= 0, i < container.n, self.equal(container.get(i), x)))
        if isinstance(container, Tup):
            return z3.Or(*[self.equal(it, x) for it in container.items]) if container.items else z3.BoolVal(False)
        if isinstance(container, ObjV):
            return self.truth(self.call_method(container, "__contains__", [x], {}, node))
        raise Unsupported(f"'in' on {type(container).__name__}")

    # ---- EvalableList: lookup by element name (model = the verified contract of
    #      EvalableList.__getitem__ / __contains__ for str keys; names are distinct) ----------
    def by_name_index(self, seq, names=None):
        (a,) = arrs_of(self.materialize(seq))
        names = self.heap_arrays("name")[0] if names is None else names
        f = z3.Function("by_name_index", a.sort(), z3.IntSort(), V.Elem, names.sort(), z3.IntSort())
        return lambda key: f(a, seq.n, key, names)

    def by_name_exists(self, seq, key, names=None):
        """`key` names an element of the list, w.r.t. the `name` field of the current heap (or of
        the given names array).  Both the predicate and the index function take the names array
        as an argument, so facts about different heaps never interfere."""
        seq = self.materialize(seq)
        (a,) = arrs_of(seq)
        key = coerce(key, V.Elem)
        names = self.heap_arrays("name")[0] if names is None else names
        e = z3.Function("by_name_exists", a.sort(), z3.IntSort(), V.Elem, names.sort(), z3.BoolSort())
        fi = z3.Function("by_name_index", a.sort(), z3.IntSort(), V.Elem, names.sort(), z3.IntSort())
        atom = e(a, seq.n, key, names)
        k = ("byname", a.get_id(), seq.n.get_id(), names.get_id())
        if k not in self.seq_mem_done:
            self.seq_mem_done.add(k)
            j = z3.Const(fresh_name("bj"), z3.IntSort())
            y = z3.Const(fresh_name("by"), V.Elem)
            iy = fi(a, seq.n, y, names)
            # exists(key) -> the index function points at an element with that name
            self.assume(V.qforall([y], z3.Implies(e(a, seq.n, y, names), z3.And(iy >= 0, iy < seq.n, z3.Select(names, z3.Select(a, iy)) == y)), patterns=[e(a, seq.n, y, names)]))
            # every element's name exists
            self.assume(V.qforall([j], z3.Implies(z3.And(j >= 0, j < seq.n), e(a, seq.n, z3.Select(names, z3.Select(a, j)), names)), patterns=[z3.Select(a, j)]))
        return atom

    def by_name_get(self, seq, key, node=None):
        seq = self.materialize(seq)
        key = coerce(key, V.Elem)
        if not self.decide(self.by_name_exists(seq, key)):
            raise RaiseEx("KeyError", self.cur_line)
        return seq.get(self.by_name_index(seq)(key))

    def truth(self, v):
        v = lift(v)
        if isinstance(v, bool):
            return z3.BoolVal(v)
        if is_bool(v):
            return v
        if isinstance(v, z3.ArithRef):
            return v != 0
        if v is NONE:
            return z3.BoolVal(False)
        if isinstance(v, StrV):
            return z3.BoolVal(bool(v.s))
        if isinstance(v, OptV):
            return z3.And(z3.Not(v.isnone), self.truth(v.val))
        if isinstance(v, SeqV):
            return v.n > 0
        if isinstance(v, SetV):
            x = z3.Const(fresh_name("tx"), key_sort(v.shape))
            return z3.Exists([x], z3.Select(v.arr, x))
        if isinstance(v, EmptySeq):
            return z3.BoolVal(False)
        if isinstance(v, MapV) and v.keys is not None:
            return v.keys.n > 0
        if isinstance(v, Tup):
            return z3.BoolVal(len(v.items) > 0)
        if isinstance(v, ObjV):
            if self.prop.truthy_objects:
                return v.ref != V.NULL
        if isinstance(v, (FnV, ClassV)):
            return z3.BoolVal(True)
        if isinstance(v, QuotV):
            return to_real(v) != 0
        raise Unsupported(f"truth value of {type(v).__name__}")

    # ---- subscripts -------------------------------------------------------------------
    def eval_index(self, sl):
        if isinstance(sl, ast.Slice):
            return ("slice", self.eval(sl.lower) if sl.lower else None, self.eval(sl.upper) if sl.upper else None, self.eval(sl.step) if sl.step else None)
        if isinstance(sl, ast.Tuple):
            return Tup([self.eval(x) for x in sl.elts])
        return self.eval(sl)

    def ev_Subscript(self, e):
        base = self.eval(e.value)
        if isinstance(base, ClassV) or (isinstance(base, FnV) and base.node is None and isinstance(e.value, ast.Name) and e.value.id[:1].isupper()):
            return base  # generic alias  Cls[T]  constructs the same class
        idx = self.eval_index(e.slice)
        return self.load_index(base, idx, e)

    def load_index(self, base, idx, node=None):
        if isinstance(base, OptV):
            # subscript on a maybe-None value: None raises TypeError
            if self.decide(base.isnone):
                raise RaiseEx("TypeError", getattr(node, "lineno", 0))
            base = base.val
        if is_z3(base) and base.sort() == V.Val:
            return self.prop.theory.item(base, to_num(idx))
        if isinstance(base, Tup):
            if isinstance(idx, tuple) and idx[0] == "slice":
                lo = idx[1].as_long() if idx[1] is not None else None
                hi = idx[2].as_long() if idx[2] is not None else None
                return Tup(base.items[lo:hi])
            if isinstance(idx, z3.IntNumRef):
                return base.items[idx.as_long()]
            raise Unsupported("symbolic index into a tuple")
        if isinstance(base, SeqV) and isinstance(base.shape, ObjShape) and (isinstance(idx, StrV) or (is_z3(idx) and idx.sort() == V.Elem)):
            if getattr(base, "by_name", False) or base.shape.cls in self.prop.by_name_lists:
                return self.by_name_get(base, idx, node)  # EvalableList[str]
            raise RaiseEx("TypeError", self.cur_line)  # list indices must be integers
        if isinstance(base, SeqV):
            if isinstance(idx, tuple) and idx[0] == "slice":
                lo = to_num(idx[1]) if idx[1] is not None else z3.IntVal(0)
                if idx[3] is not None:
                    raise Unsupported("slice step")
                hi = to_num(idx[2]) if idx[2] is not None else base.n
                self.oblige(f"{self.qualname}/slice_bounds@{self.cur_line - self.fnode.lineno}", z3.And(lo >= 0, lo <= hi, hi <= base.n), "safety")
                i = z3.Const(fresh_name("i"), z3.IntSort())
                arrs = [z3.Lambda([i], z3.Select(a, i + lo)) for a in arrs_of(base)]
                return SeqV(base.shape, arrs if len(arrs) > 1 else arrs[0], hi - lo)
            i = z3.simplify(self.as_index(idx))
            if isinstance(i, z3.IntNumRef) and i.as_long() < 0:
                i = base.n + i
            self.oblige(f"{self.qualname}/index_in_bounds@{self.cur_line - self.fnode.lineno}", z3.And(i >= 0, i < base.n), "safety", self.cur_line)
            self.assume(z3.And(i >= 0, i < base.n))
            return base.get(i)
        if isinstance(base, MapV):
            k = coerce_key(self, idx, key_sort(base.kshape))
            if getattr(base, "default", None) is not None:
                # collections.defaultdict: a missing key reads as the default value (the entry it
                # creates is added by the store that follows in `d[k] += v`)
                vals = base.val if isinstance(base.val, (list, tuple)) else [base.val]
                dflt = flatten(base.vshape, base.default)
                return unflatten(base.vshape, [z3.If(z3.Select(base.dom, k), z3.Select(a, k), d) for a, d in zip(vals, dflt)])
            if self.in_comprehension:
                # inside a comprehension body a path split is not possible: the lookup must
                # succeed for every value of the bound variable (else KeyError would propagate)
                self.oblige(f"{self.qualname}/no_exception.KeyError@{self.cur_line - self.fnode.lineno}", z3.Select(base.dom, k), "exception", self.cur_line)
                self.assume(z3.Select(base.dom, k))
            elif not self.decide(z3.Select(base.dom, k)):
                raise RaiseEx("KeyError", self.cur_line)
            return self.map_get(base, k)
        if isinstance(base, ObjV):
            return self.call_method(base, "__getitem__", [idx], {}, node)
        raise Unsupported(f"subscript on {type(base).__name__}")

    def map_get(self, m, k):
        vals = m.val if isinstance(m.val, (list, tuple)) else [m.val]
        return unflatten(m.vshape, [z3.Select(a, k) for a in vals])

    def as_index(self, idx):
        """A sequence index; an opaque value used as an index is a boxed int."""
        if isinstance(idx, OptV):
            if self.decide(idx.isnone):
                raise RaiseEx("TypeError", getattr(self, "cur_line", 0))  # list indices must be integers, not NoneType
            idx = idx.val
        if is_z3(idx) and idx.sort() == V.Val:
            return self.prop.theory.unbox_int(idx)
        return to_num(idx)

    def store_index(self, base, idx, v):
        if isinstance(base, SeqV):
            i = self.as_index(idx)
            self.oblige(f"{self.qualname}/store_in_bounds@{self.cur_line - self.fnode.lineno}", z3.And(i >= 0, i < base.n), "safety", self.cur_line)
            self.assume(z3.And(i >= 0, i < base.n))
            terms = flatten(base.shape, v)
            arrs = [z3.Store(a, i, t) for a, t in zip(arrs_of(base), terms)]
            r = SeqV(base.shape, arrs if len(arrs) > 1 else arrs[0], base.n)
            return r
        if isinstance(base, MapV):
            k = coerce_key(self, idx, key_sort(base.kshape))
            return self.map_store(base, k, v)
        raise Unsupported(f"subscript store on {type(base).__name__}")

    def map_store(self, m, k, v):
        vals = m.val if isinstance(m.val, (list, tuple)) else [m.val]
        terms = flatten(m.vshape, v)
        nv = [z3.Store(a, k, t) for a, t in zip(vals, terms)]
        keys = m.keys
        if keys is not None:
            # insertion order: append the key if it is new
            isnew = z3.Not(z3.Select(m.dom, k))
            (ka,) = arrs_of(keys)
            keys = SeqV(keys.shape, z3.If(isnew, z3.Store(ka, keys.n, k), ka), z3.If(isnew, keys.n + 1, keys.n))
        r = MapV(m.kshape, m.vshape, z3.Store(m.dom, k, z3.BoolVal(True)), nv if len(nv) > 1 else nv[0], keys)
        if getattr(m, "default", None) is not None:
            r.default = m.default
        return r

    # ---- sequences -------------------------------------------------------------------
    def as_seq(self, v, node=None):
        from .builtins import to_seq

        return to_seq(self, v, node)

    # ---- calls ---------------------------------------------------------------------
    def ev_Lambda(self, e):
        return FnV(node=e, env=self.env, name="<lambda>")

    def ev_Call(self, e):
        from .builtins import call_builtin, call_builtin_method

        f = self.eval(e.func)
        if is_z3(f) and f.sort() == V.Val:
            # opaque callable applied as  f(*a, **k)  with opaque argument packs
            if len(e.args) == 1 and isinstance(e.args[0], ast.Starred) and len(e.keywords) == 1 and e.keywords[0].arg is None:
                a, k = self.eval(e.args[0].value), self.eval(e.keywords[0].value)
                if is_z3(a) and a.sort() == V.Val and is_z3(k) and k.sort() == V.Val:
                    return self.prop.theory.apply(f, a, k)
            raise Unsupported("call of an opaque value other than f(*a, **k)")
        args, kwargs = [], {}
        for a in e.args:
            if isinstance(a, ast.Starred):
                v = self.eval(a.value)
                if isinstance(v, Tup):
                    args.extend(v.items)
                else:
                    raise Unsupported("*args of a non-tuple")
            else:
                args.append(self.eval_arg(a))
        for kw in e.keywords:
            if kw.arg is None:
                v = self.eval(kw.value)
                if isinstance(v, KwDict):
                    kwargs.update(v.items)
                elif isinstance(v, (MapV, EmptyDict)):
                    kwargs["**"] = v  # handed to the callee's contract as its `**` argument
                else:
                    raise Unsupported("**kwargs of a non-dict")
            else:
                kwargs[kw.arg] = self.eval_arg(kw.value)
        return self.call_value(f, args, kwargs, e)

    def eval_arg(self, a):
        if isinstance(a, ast.GeneratorExp):
            return GenExp(a, self.env)
        return self.eval(a)

    def call_value(self, f, args, kwargs, node):
        from .builtins import call_builtin, call_builtin_method

        if isinstance(f, FnV):
            if f.name and f.name.startswith("builtin:"):
                return call_builtin(self, f.name[8:], args, kwargs, node)
            if f.node is not None:
                base = self.qualname.split("[")[0]
                nested = [s for s in self.prop.specs if s.qualname == f"{base}.{f.name}" and s.relfile == self.relfile]
                if nested:  # a nested def that has its own contract is called by contract
                    return self.call_contract(nested[0], args, kwargs, node)
                return self.call_inline(f, args, kwargs, node)
            c = self.prop.lookup_callee(f.qual, self.relfile)
            if c is not None:
                return self.call_contract(c, args, kwargs, node)
            raise Unsupported(f"call of {f.name}: no contract")
        if isinstance(f, BoundMethod):
            if isinstance(f.recv, ObjV):
                return self.call_method(f.recv, f.name, args, kwargs, node)
            return call_builtin_method(self, f.recv, f.name, args, kwargs, node)
        if isinstance(f, ClassV):
            return self.construct(f, args, kwargs, node)
        if isinstance(f, ObjV):
            return self.call_method(f, "__call__", args, kwargs, node)
        raise Unsupported(f"call of a {type(f).__name__}")

    def construct(self, cls, args, kwargs, node):
        spec = self.prop.records.get(cls.name)
        if spec is None:
            c = self.prop.lookup_callee(cls.name, self.relfile)
            if c is not None:
                return self.call_contract(c, args, kwargs, node)
            raise Unsupported(f"construction of {cls.name}")
        obj = self.new_object(cls.name)
        names = list(spec)
        given = dict(list(zip(names, args)) + list(kwargs.items()))
        for nm, v in given.items():
            if nm not in spec:
                raise Unsupported(f"{cls.name}({nm}=...)")
            self.write_field(obj, nm, v)
        for nm, dv in self.prop.record_defaults.get(cls.name, {}).items():
            if nm not in given:
                self.write_field(obj, nm, dv(self) if callable(dv) else dv)
        if self.prop.class_tag is not None:
            self.assume(self.prop.class_tag(obj.ref) == self.prop.class_id(cls.name), fresh=True)
        return obj

    def call_method(self, recv, name, args, kwargs, node):
        c = self.prop.lookup_method(None if recv.cls == "?" else recv.cls, name, self.relfile)
        if c is None:
            raise Unsupported(f"method {recv.cls}.{name} has no contract")
        if c.is_static():
            return self.call_contract(c, list(args), kwargs, node)  # @staticmethod: no receiver
        return self.call_contract(c, [recv] + list(args), kwargs, node)

    def call_inline(self, f, args, kwargs, node):
        n = f.node
        env = Env(parent=f.env)
        a = n.args
        if a.vararg or a.kwarg:
            raise Unsupported("inline call with *args/**kwargs parameters")
        params = [p.arg for p in a.posonlyargs + a.args]
        defaults = dict(zip(params[len(params) - len(a.defaults):], a.defaults))
        bound = dict(zip(params, args))
        if len(args) > len(params):
            raise Unsupported("too many positional arguments")
        for k, v in kwargs.items():
            bound[k] = v
        for p in params + [p.arg for p in a.kwonlyargs]:
            if p not in bound:
                d = defaults.get(p)
                if d is None:
                    for kp, kd in zip(a.kwonlyargs, a.kw_defaults):
                        if kp.arg == p:
                            d = kd
                if d is None:
                    raise Unsupported(f"missing argument {p}")
                saved = self.env
                self.env = f.env
                try:
                    bound[p] = self.eval(d)
                finally:
                    self.env = saved
        env.vars.update(bound)
        if isinstance(n, ast.Lambda):
            saved = self.env
            self.env = env
            try:
                return self.eval(n.body)
            finally:
                self.env = saved
        if any(isinstance(x, (ast.Yield, ast.YieldFrom)) for x in ast.walk(n)):
            raise Unsupported(f"generator function {n.name} needs a contract")
        return self.run_body(n, env)

    def call_contract(self, c, args, kwargs, node):
        from .contracts import FnCtx

        from .contracts import NotThisSpec

        # several contracts may be registered for one function (labels = calling modes);
        # each declares with c.applies(...) whether it covers these actual arguments
        alts = [s for s in self.prop.specs if s.qualname == c.qualname and s.relfile == c.relfile and s.cls == c.cls] or [c]
        for spec in alts:
            ctx = FnCtx(self.prop, spec, mode="call", ex=self, actuals=(args, kwargs), node=node)
            nh, nob = len(self.hyps), {k: len(v) for k, v in self.obligations.items()}
            try:
                return ctx.run_call()
            except NotThisSpec:
                del self.hyps[nh:]
                for k in list(self.obligations):
                    del self.obligations[k][nob.get(k, 0):]
                continue
        raise Unsupported(f"no contract of {c.qualname} covers the arguments at line {getattr(node, 'lineno', '?')}")

    # comprehension over a sequence -> Lambda array
    def ev_ListComp(self, e):
        from .builtins import comprehension

        return comprehension(self, e, "list")

    def ev_SetComp(self, e):
        from .builtins import comprehension

        return comprehension(self, e, "set")

    def ev_DictComp(self, e):
        from .builtins import dict_comprehension

        return dict_comprehension(self, e)

    def ev_GeneratorExp(self, e):
        return GenExp(e, self.env)

    def ev_Dict(self, e):
        if not e.keys:
            return EmptyDict()
        if all(isinstance(k, ast.Constant) and isinstance(k.value, str) for k in e.keys):
            return KwDict({k.value: self.eval(v) for k, v in zip(e.keys, e.values)})
        raise Unsupported("dict literal with non-constant keys")

    def ev_Set(self, e):
        from .builtins import empty_set

        items = [lift(self.eval(x)) for x in e.elts]
        if all(isinstance(x, StrV) for x in items):
            s = empty_set(V.Elem)
            for x in items:
                s = SetV(V.Elem, z3.Store(s.arr, V.str_elem(x.s), z3.BoolVal(True)))
            return s
        if all(is_z3(x) for x in items) and len({x.sort() for x in items}) == 1:
            s = empty_set(items[0].sort())
            for x in items:
                s = SetV(items[0].sort(), z3.Store(s.arr, x, z3.BoolVal(True)))
            return s
        raise Unsupported("set literal of mixed / compound elements")

    def ev_JoinedStr(self, e):
        return StrV("<f-string>")

    def ev_Starred(self, e):
        raise Unsupported("starred expression")


def _has_quantifier(f):
    seen = set()
    stack = [f]
    while stack:
        t = stack.pop()
        if t.get_id() in seen:
            continue
        seen.add(t.get_id())
        if z3.is_quantifier(t):
            return True
        stack.extend(t.children())
    return False


class DefaultDictEmpty:
    """defaultdict(float) / defaultdict(int) before its declared type is known."""

    def __init__(self, default):
        self.default = default


class ExcV:
    """A caught exception object (only its class name is modelled)."""

    def __init__(self, exc):
        self.exc = exc


class EmptySeq:
    """`[]` before its element type is known; typed on first append or by the
    contract's declared local types."""


class EmptyDict:
    pass


class NoneList:
    """`[None] * n` before its element type is known (typed by the declared local type)."""

    def __init__(self, n):
        self.n = n


class KwDict:
    """A dict literal with constant string keys (used for **kwargs plumbing)."""

    def __init__(self, items):
        self.items = dict(items)


class GenExp:
    def __init__(self, node, env):
        self.node, self.env = node, env


def default_of(sort):
    if sort == z3.IntSort():
        return z3.IntVal(0)
    if sort == z3.RealSort():
        return z3.RealVal(0)
    if sort == z3.BoolSort():
        return z3.BoolVal(False)
    return z3.Const("dflt." + str(sort), sort)


def coerce_key(ex, x, sort):
    x = lift(x)
    if isinstance(x, StrV) and sort == V.Elem:
        return ex.prop.elem_of_str(x.s)
    if isinstance(x, ObjV):
        if sort != Ref:
            raise Unsupported("object used as key of a non-reference container")
        return x.ref
    if isinstance(x, SeqV) and sort == V.Val and x.shape == V.Val:
        # a tuple of opaque values used as a key: an opaque value that is a function of its items
        # (Theory.val_tuple: equal items give equal tuples)
        x = ex.materialize(x)
        return ex.prop.theory.val_tuple(arrs_of(x)[0], x.n)
    return coerce(x, sort)
