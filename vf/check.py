"""Run all obligations of one property against /repo's current working tree."""
from __future__ import annotations
import importlib, json, os, subprocess, sys, time, traceback
import z3
from . import values as V
from .values import Unsupported
from .verify import verify_function
from .solve import to_smt2, alpha_hash, solve_all
from .lemma import LemmaCtx

VERIF = os.path.dirname(os.path.dirname(os.path.abspath(__file__)))
VENV_PY = "/venv/bin/python"


class VC:
    def __init__(self, name, smt2, kind, func, required=True, note=""):
        self.name, self.smt2, self.kind, self.func, self.required, self.note = name, smt2, kind, func, required, note
        self.hash = alpha_hash(smt2)
        self.result = None


def load_known(pid):
    path = os.path.join(VERIF, "known_findings.json")
    if not os.path.exists(path):
        return []
    data = json.load(open(path))
    return [e for e in data.get("findings", []) if e["property"] == pid]


def load_baseline():
    path = os.path.join(VERIF, "contracts", "EXPECTED_OBLIGATIONS.json")
    if os.path.exists(path):
        return json.load(open(path))
    return {}


def timeout_ms(tier):
    base = int(os.environ.get("VF_TIMEOUT_MS", "20000"))
    return base * (3 if tier == "thorough" else 1)


def build_vcs(prop, known, log):
    """Generate every VC of the property from the current source.  Returns
    (vcs, info) or raises Unsupported."""
    vcs = []
    info = {"functions": [], "drops": [], "paths": 0, "pruned_paths": 0, "return_paths": {}, "trusted": []}
    open_classes = {e["class_id"]: e for e in known if e.get("status", "open") == "open"}
    prop.open_finding_ids = set(open_classes)

    # ---- lemmas -----------------------------------------------------------------
    defs = [h for (_n, h, _l) in prop.hints]
    proven_closed = []
    closed_by_lemma = {}
    for lem in prop.lemmas:
        L = LemmaCtx(lem.name, prop)
        lem.build(L)
        usable = proven_closed if not lem.uses else [f for u in lem.uses for f in closed_by_lemma.get(u, [])]
        for nm, hyps, goal in L.vcs:
            interp = prop.theory.interp_axioms() if prop.abstract_nl else []
            smt = to_smt2(hyps, goal, extra=defs + usable + interp, always=prop.distinct_axioms())
            vcs.append(VC(f"lemma/{lem.name}.{nm}", smt, "lemma", "lemma:" + lem.name))
        proven_closed = proven_closed + L.closed
        closed_by_lemma[lem.name] = list(L.closed)
    prop.lemma_closed = proven_closed

    # ---- functions ----------------------------------------------------------------
    for spec in prop.specs:
        if spec.trusted:
            info["trusted"].append(f"{spec.qualname}: {spec.why_trusted or 'assumed contract'}")
            continue
        t0 = time.time()
        ex, obs = verify_function(prop, spec)
        info["functions"].append(spec.ident)
        info["drops"] += sorted(ex.drops)
        info["paths"] += ex.paths
        info["pruned_paths"] += ex.pruned
        info["return_paths"][spec.ident] = ex.return_paths
        info.setdefault("unreached", []).extend(getattr(ex, "unreached", []))
        if spec.hints is None:
            extra_all = defs + proven_closed
        else:
            extra_all = defs + [f for u in spec.hints for f in closed_by_lemma[u]]
        by_name = {}
        for o in obs:
            by_name.setdefault(o.name, []).append(o)
        for name, lst in by_name.items():
            seen_hashes = set()
            for k, o in enumerate(lst):
                hyps = list(o.hyps)
                excl = getattr(ex, "finding_classes", {})
                restricted_by = []
                for cid, (formula_hyps_fn) in excl.items():
                    ent = open_classes.get(cid)
                    if ent and any(name.endswith(p) or p in name for p in ent["obligations"]):
                        restricted_by.append(cid)
                smt_unres = to_smt2(hyps, o.goal, extra=extra_all, always=prop.distinct_axioms())
                if restricted_by:
                    rh = hyps + [z3.Not(excl[cid]) for cid in restricted_by]
                    smt = to_smt2(rh, o.goal, extra=extra_all, always=prop.distinct_axioms())
                    vc = VC(name, smt, o.kind, o.func, note="restricted by known finding(s) " + ",".join(restricted_by))
                    vc.restricted_by = restricted_by
                    info_vc = VC(name + "#unrestricted", smt_unres, o.kind, o.func, required=False, note="informational: the same obligation without the known-finding exclusion")
                    info_vc.restricted_by = restricted_by
                    if vc.hash not in seen_hashes:
                        seen_hashes.add(vc.hash)
                        vcs.append(vc)
                        vcs.append(info_vc)
                else:
                    vc = VC(name, smt_unres, o.kind, o.func)
                    if vc.hash not in seen_hashes:
                        seen_hashes.add(vc.hash)
                        vcs.append(vc)
        log(f"  generated {spec.ident}: {len(obs)} obligation instances, {ex.paths} paths ({ex.pruned} pruned) in {time.time() - t0:.1f}s")
    return vcs, info


def guard_vcs(prop, info):
    """Vacuity guards: each function has at least one satisfiable return path."""
    out = []
    for ident, paths in info["return_paths"].items():
        if not paths:
            continue
        # satisfiable-return-path check: the disjunction over paths is too big; check the paths
        # one by one until one is sat (done in the solver loop)
        for k, hyps in enumerate(paths[:12]):
            s = z3.Solver()
            for h in hyps:
                s.add(h)
            out.append((ident, k, s.to_smt2()))
    return out


def run_oracle(pid, mode, payload, timeout=600):
    """Run /verif/oracles/<pid>.py under the repo's interpreter; returns parsed JSON."""
    cmd = [VENV_PY, os.path.join(VERIF, "oracles", "run.py"), pid, mode]
    env = dict(os.environ)
    repo = os.environ.get("VF_REPO", "/repo")
    env["VF_REPO"] = repo
    env["PYTHONPATH"] = repo + ":" + VERIF + (":" + env["PYTHONPATH"] if env.get("PYTHONPATH") else "")
    env["PYTHONDONTWRITEBYTECODE"] = "1"
    # (run in a scratch directory: the code under test may write files such as mapping.svg into the
    #  working directory, which must never be /repo or /verif)
    import tempfile, shutil

    scratch = tempfile.mkdtemp(prefix="vf_oracle_")
    env["TMPDIR"] = scratch  # temporary files of the code under test (accelforge.util.parallel leaves *.pkl behind) go with it
    try:
        p = subprocess.run(cmd, input=json.dumps(payload), capture_output=True, text=True, timeout=timeout, env=env, cwd=scratch)
    finally:
        shutil.rmtree(scratch, ignore_errors=True)
    if p.returncode != 0:
        return {"error": (p.stderr or p.stdout)[-2000:]}
    try:
        return json.loads(p.stdout.strip().splitlines()[-1])
    except Exception:
        return {"error": "unparsable oracle output: " + p.stdout[-500:]}


def evidence_dir():
    """/verif/evidence for runs against /repo; a scratch directory for self-test runs against a
    mutated copy (VF_REPO), so that they never overwrite the evidence of the real tree."""
    if os.environ.get("VF_REPO", "/repo") != "/repo":
        d = os.path.join(os.environ["VF_REPO"], ".vf_evidence")
    else:
        d = os.path.join(VERIF, "evidence")
    os.makedirs(d, exist_ok=True)
    return d


LAST_FALLBACK = {}  # result of the last bounded cross-check run by undecided_fallback (for the evidence file)


def undecided_fallback(pid, tier, seed, known, log):
    """The deductive part could not decide (source outside the verified subset).  The
    executable postcondition is still evaluated on the real code over the bounded family: a
    concrete failing input is a violation whatever the state of the proof; none found leaves
    the run undecided (exit 2)."""
    LAST_FALLBACK.clear()
    if not os.path.exists(os.path.join(VERIF, "oracles", pid + ".py")):
        return 2
    res = run_oracle(pid, "crosscheck", {"seed": seed, "n": 2000 if tier == "thorough" else 200, "known": [e for e in known if e.get("status", "open") == "open"]}, timeout=3000)
    LAST_FALLBACK.update(res)
    if res.get("failed"):
        rp = os.path.join(VERIF, "replays", pid, "crosscheck.json")
        json.dump(res, open(rp, "w"), indent=1, default=str)
        print(f"VIOLATION property={pid} replay={rp} (proof undecided; bounded run-time check of the executable postcondition fails on the real code: {str(res.get('observed'))[:200]})", flush=True)
        return 1
    log(f"  bounded cross-check on the real code found no failing input: {str(res)[:200]}")
    return 2


def check_property(pid, tier="quick", seed=0, verbose=True):
    t_start = time.time()
    lines = []

    def log(s):
        if verbose:
            print(s, flush=True)

    os.makedirs(os.path.join(VERIF, "evidence"), exist_ok=True)
    os.makedirs(os.path.join(VERIF, "replays", pid), exist_ok=True)
    known = load_known(pid)
    baseline = load_baseline().get(pid, {})
    status = {"exit": 0}
    if not os.path.exists(os.path.join(VERIF, "contracts", pid + ".py")):
        # no deductive contracts for this property: a bounded stand-in (labelled as such)
        from .bounded import check_bounded

        return check_bounded(pid, tier, seed, log)
    try:
        mod = importlib.import_module(f"contracts.{pid}")
        prop = mod.P
        log(f"[{pid}] generating VCs from /repo working tree")
        vcs, info = build_vcs(prop, known, log)
    except Unsupported as e:
        log(f"UNDECIDED property={pid}: the current source is outside the verified subset: {e}")
        code = undecided_fallback(pid, tier, seed, known, log)
        write_evidence(pid, tier, seed, None, [], {}, time.time() - t_start, undecided=str(e), violations=int(code == 1), extra={"crosscheck": dict(LAST_FALLBACK)})
        return code
    except Exception as e:
        # An internal error of the VC generator on source it was not built for is a limitation of
        # the machinery, not a verdict: undecided.  (On the committed baseline tree this never
        # happens; `vf setup` self-tests that.)
        traceback.print_exc()
        log(f"UNDECIDED property={pid}: internal error of the VC generator ({type(e).__name__}: {e})")
        code = undecided_fallback(pid, tier, seed, known, log)
        write_evidence(pid, tier, seed, None, [], {}, time.time() - t_start, undecided=f"internal error of the VC generator ({type(e).__name__}: {e})", violations=int(code == 1), extra={"crosscheck": dict(LAST_FALLBACK)})
        return code

    # ---- guards -------------------------------------------------------------------
    if not [v for v in vcs if v.required]:
        log(f"CHECKER-ERROR property={pid}: zero obligations generated")
        return 3
    tmo = timeout_ms(tier)
    # must-fail probes: `False` under the hypotheses of a return path plus every hint must NOT be
    # provable (else a contradictory precondition / hint makes the whole contract vacuous)
    all_hints = [h for (_n, h, _l) in prop.hints] + list(getattr(prop, "lemma_closed", []))
    for ident, paths in info["return_paths"].items():
        for hyps in paths[:1]:
            s_ = z3.Solver()
            s_.add(*(prop.distinct_axioms() + all_hints + list(hyps)))
            pv = VC(f"{ident}/probe.false_is_not_provable", s_.to_smt2(), "probe", ident, required=False, note="vacuity probe: must not be unsat")
            pv.is_probe = True
            vcs.append(pv)
    tasks = [(i, v.smt2, (3000 if getattr(v, "is_probe", False) else tmo), ("probe" if getattr(v, "is_probe", False) else (True if v.required else "phase1"))) for i, v in enumerate(vcs)]  # informational VCs: fast strategies only
    t0 = time.time()
    results = solve_all(tasks)
    solver_time = sum(r.get("total_time", 0) for r in results)
    for r in results:
        vcs[r["key"]].result = r
    log(f"[{pid}] solved {len(vcs)} VCs in {time.time() - t0:.1f}s wall ({solver_time:.1f}s solver)")
    for v in sorted(vcs, key=lambda v: -v.result.get("total_time", 0))[:4]:
        if v.result.get("total_time", 0) > 2:
            log(f"    slow: {v.name} {v.result['result']} {v.result.get('total_time', 0):.1f}s {v.result.get('attempts')}")

    # vacuity: at least one satisfiable return path per function
    vac_errors = [f"{v.name}: hypotheses + hints are contradictory" for v in vcs if getattr(v, "is_probe", False) and v.result["result"] == "unsat"]
    for ident, paths in info["return_paths"].items():
        if not paths:
            vac_errors.append(f"{ident}: no path reaches a normal return")
            continue
        # (run in the worker pool: z3's own timeout is not always honoured in-process; the workers have a
        #  watchdog that interrupts the solver)
        ptasks = []
        for k_, hyps in enumerate(paths[:24]):
            s_ = z3.Solver()
            s_.add(*hyps)
            ptasks.append((k_, s_.to_smt2(), 5000, "probe"))
        ok = any(r_["result"] != "unsat" for r_ in solve_all(ptasks))
        if not ok:
            vac_errors.append(f"{ident}: every return path is infeasible under the preconditions (vacuous contract)")
    def _fails_now(v):
        if not v.required or v.result["result"] == "unsat":
            return False
        if v.result["result"] == "sat":
            return True
        b_ = baseline.get(v.name)
        return bool(b_) and v.hash not in b_.get("hashes", [])  # passed on the unchanged tree, different VC now, not discharged

    if vac_errors and any(_fails_now(v) for v in vcs):
        # a failing obligation explains the unreachable returns (e.g. an invariant that the changed code no
        # longer establishes is assumed at the loop head): report that obligation, not a checker error
        for e in vac_errors:
            log("note (vacuity, superseded by a failing obligation): " + e)
        vac_errors = []
    if vac_errors:
        for e in vac_errors:
            log("CHECKER-ERROR vacuity: " + e)
        # (never on the committed tree.  On a changed tree the contracts no longer fit the code --
        #  e.g. a loop was added or removed so invariants attach to other loops; the bounded
        #  run-time check can still exhibit a concrete failing input)
        code = 1 if undecided_fallback(pid, tier, seed, known, log) == 1 else 3
        write_evidence(pid, tier, seed, prop, vcs, info, time.time() - t_start, undecided="vacuity guard: " + "; ".join(vac_errors[:4]), solver_time=solver_time, violations=int(code == 1), extra={"crosscheck": dict(LAST_FALLBACK)})
        return code

    # ---- classify -------------------------------------------------------------------
    failed, undecided = [], []
    for v in vcs:
        r = v.result["result"]
        if not v.required:
            continue
        if r == "unsat":
            continue
        base = baseline.get(v.name)
        if r == "sat":
            failed.append((v, "refuted"))
        else:
            # neither proved nor refuted
            if base and v.hash in base.get("hashes", []):
                undecided.append(v)  # same question as on the baseline tree: solver trouble
            elif base:
                failed.append((v, "no-longer-discharged"))  # the code this obligation depends on changed
            else:
                undecided.append(v)  # never discharged before: a proof gap of the machinery, not a violation

    # obligations present in the baseline but missing now
    names_now = {v.name for v in vcs}
    # (safety / call-site obligations are named by line and may legitimately disappear; the
    #  obligations that carry the property -- postconditions, invariants, lemmas -- may not)
    missing = [n for n in baseline if n not in names_now and not n.endswith("#unrestricted") and ("/post." in n or ".inv." in n or n.startswith("lemma/") or "/raises." in n or "/frame." in n)]
    refuted_now = [v for v, why in failed if why == "refuted"]
    if missing and refuted_now:
        log(f"note: obligations of the baseline were not generated (structure changed): {missing[:4]}; a refuted obligation is reported regardless")
    if missing and not refuted_now and not os.environ.get("VF_UPDATE_BASELINE"):
        log(f"UNDECIDED property={pid}: obligations of the baseline were not generated (structure changed): {missing[:5]}")
        code = undecided_fallback(pid, tier, seed, known, log)
        write_evidence(pid, tier, seed, prop, vcs, info, time.time() - t_start, undecided="missing obligations: " + ", ".join(missing[:8]), solver_time=solver_time, violations=int(code == 1), extra={"crosscheck": dict(LAST_FALLBACK)})
        return code

    # ---- known findings ---------------------------------------------------------------
    kf_lines = []
    oracle_used = False
    helpers_only = getattr(prop, "claim_level", "proof") == "exploration"
    for ent in known:
        if ent.get("status", "open") != "open" or helpers_only:
            continue
        res = run_oracle(pid, "witness", {"finding": ent})
        if res.get("error"):
            log(f"CHECKER-ERROR known-finding witness {ent['class_id']}: {res['error']}")
            return 3
        if res.get("failed"):
            kf_lines.append(f"KNOWN-FINDING: property={pid} {ent['class_id']}: {ent['what']} (witness still fails on the real code: {res.get('observed')})")
        else:
            log(f"note: known finding {ent['class_id']} no longer reproduces on the real code (witness passes)")

    # ---- violations ---------------------------------------------------------------------
    viol_lines = []
    reported = set()
    for v, why in failed:
        if v.name in reported:
            continue
        reported.add(v.name)
        rp = os.path.join(VERIF, "replays", pid, safe(v.name) + ".json")
        rec = {
            "property": pid, "obligation": v.name, "function": v.func, "kind": v.kind, "why": why,
            "solver": v.result.get("solver"), "solver_result": v.result["result"], "attempts": v.result.get("attempts"),
            "reason": v.result.get("reason"), "model": v.result.get("model"), "candidate_model": v.result.get("candidate_model"), "vc_hash": v.hash,
            "baseline_hashes": baseline.get(v.name, {}).get("hashes"),
            "replay_cmd": f"python3-vt -m vf replay {rp}",
        }
        found = None
        if prop.oracle:
            res = run_oracle(pid, "replay", {"obligation": v.name, "model": v.result.get("model") or v.result.get("candidate_model"), "model_is_candidate": "model" not in v.result, "seed": seed, "known": [e for e in known if e.get('status', 'open') == 'open']})
            rec["oracle"] = res
            if res.get("failed"):
                found = res
        json.dump(rec, open(rp, "w"), indent=1, default=str)
        tail = "" if found else " no-failing-input-found"
        viol_lines.append(f"VIOLATION property={pid} replay={rp} obligation={v.name} ({why}){tail}")

    for l in kf_lines:
        print(l, flush=True)
    exit_code = 0
    if viol_lines:
        for l in viol_lines:
            print(l, flush=True)
        exit_code = 1
    elif undecided:
        for v in undecided[:20]:
            log(f"UNDECIDED obligation {v.name}: {v.result['result']} ({v.result.get('reason', '')}) attempts={v.result.get('attempts')}")
        log(f"UNDECIDED property={pid}: {len(undecided)} obligation(s) neither proved nor refuted")
        exit_code = 2

    if helpers_only:
        # The property is CLAIMED at level `exploration`: the contracts cover helper functions only and
        # the bounded run-time check decides the property.  A failed helper obligation is still a
        # violation; otherwise the bounded check runs, writes the (exploration-level) evidence, and the
        # proof summary of the helpers is attached to it.
        from .bounded import check_bounded

        req = [v for v in vcs if v.required]
        summary = {"functions_under_contract": info.get("functions", []), "obligations": len(req),
                   "discharged": len([v for v in req if v.result and v.result["result"] == "unsat"]), "solver_time_s": round(solver_time, 3),
                   "note": "helper kernels proved by the VC generator; NOT the property as a whole (see the bounded check)"}
        if exit_code == 1:
            write_evidence(pid, tier, seed, prop, vcs, info, time.time() - t_start, solver_time=solver_time, violations=len(viol_lines), undecided_n=len(undecided))
            return 1
        code_b = check_bounded(pid, tier, seed, log)
        evp = os.path.join(evidence_dir(), f"{pid}.json")
        try:
            ev = json.load(open(evp))
            ev["coverage"]["proved_helpers"] = summary
            ev["coverage"]["helpers_undecided"] = len(undecided)
            json.dump(ev, open(evp, "w"), indent=1, default=str)
        except Exception:
            pass
        if os.environ.get("VF_UPDATE_BASELINE") and exit_code == 0 and code_b == 0:
            update_baseline(pid, vcs)
        return code_b if code_b != 0 else exit_code

    # ---- thorough extras ---------------------------------------------------------------
    extra = {}
    if exit_code in (0, 2) and prop.oracle:
        n = 2000 if tier == "thorough" else 200
        res = run_oracle(pid, "crosscheck", {"seed": seed, "n": n, "known": [e for e in known if e.get('status', 'open') == 'open']}, timeout=3000)
        extra["crosscheck"] = res
        if res.get("error"):
            log(f"CHECKER-ERROR crosscheck: {res['error']}")
            exit_code = 3
        elif res.get("failed"):
            rp = os.path.join(VERIF, "replays", pid, "crosscheck.json")
            json.dump(res, open(rp, "w"), indent=1, default=str)
            print(f"VIOLATION property={pid} replay={rp} (executable postcondition fails on the real code: {str(res.get('observed'))[:200]})", flush=True)
            exit_code = 1

    if os.environ.get("VF_UPDATE_BASELINE") and exit_code == 0:
        update_baseline(pid, vcs)
    write_evidence(pid, tier, seed, prop, vcs, info, time.time() - t_start, solver_time=solver_time, known_lines=kf_lines, violations=len(viol_lines), extra=extra, undecided_n=len(undecided))
    return exit_code


def safe(name):
    return "".join(ch if ch.isalnum() or ch in "._-" else "_" for ch in name)[:150]


def update_baseline(pid, vcs):
    path = os.path.join(VERIF, "contracts", "EXPECTED_OBLIGATIONS.json")
    data = json.load(open(path)) if os.path.exists(path) else {}
    cur = {}
    for v in vcs:
        if v.result["result"] == "unsat" and v.required:
            cur.setdefault(v.name, {"hashes": []})["hashes"].append(v.hash)
    for k in cur:
        cur[k]["hashes"] = sorted(set(cur[k]["hashes"]))
    data[pid] = cur
    json.dump(data, open(path, "w"), indent=0, sort_keys=True)


def write_evidence(pid, tier, seed, prop, vcs, info, wall, undecided=None, solver_time=0.0, known_lines=(), violations=0, extra=None, undecided_n=0):
    req = [v for v in vcs if v.required]
    discharged = [v for v in req if v.result and v.result["result"] == "unsat"]
    per_backend = {}
    for v in discharged:
        per_backend[v.result["solver"]] = per_backend.get(v.result["solver"], 0) + 1
    names = sorted({v.name for v in req})
    samples = []
    for v in req[:8] + req[-4:]:
        samples.append({"obligation": v.name, "kind": v.kind, "function": v.func, "verdict": v.result["result"] if v.result else None, "solver": v.result.get("solver") if v.result else None, "time_s": round(v.result.get("time", 0), 4) if v.result else None, "vc_hash": v.hash, "note": v.note})
    informational = [{"obligation": v.name, "verdict": v.result["result"], "note": v.note} for v in vcs if not v.required and v.result and not getattr(v, "is_probe", False)]
    probes = sum(1 for v in vcs if getattr(v, "is_probe", False))
    assumptions = list(prop.assumptions) if prop else []
    if prop:
        assumptions += ["A-INT: Python int is mathematical (no overflow)", "A-DISPATCH: models of Python/numpy built-ins in vf/builtins.py are trusted"]
        assumptions += ["trusted/assumed contract: " + t for t in info.get("trusted", [])]
        assumptions += ["extraction drops: " + d for d in info.get("drops", [])]
    ev = {
        "property_id": pid, "tier": tier, "seed": int(seed), "level": "proof",
        "coverage": {
            "obligations": len(req), "discharged": len(discharged),
            "checker_cmd": f"python3-vt -m vf check {pid} --tier {tier}",
            "trusted_base": ["vf/ VC generator (Python ast -> z3) and its built-in models", "z3 5.1.0 / cvc5 1.0.3 / z3 4.8.12", "CPython semantics as listed in DESIGN 2.3"] + (info.get("trusted", []) if info else []),
            "named_obligations": len(names),
            "functions_under_contract": info.get("functions", []) if info else [],
            "per_backend": per_backend, "solver_time_s": round(solver_time, 3),
            "paths_explored": info.get("paths") if info else 0,
            "samples": samples, "informational": informational,
            "vacuity_probes_passed": probes, "unreached_statements": (info.get("unreached", []) if info else []), "known_findings_seen": list(known_lines), "undecided_obligations": undecided_n,
            "undecided_reason": undecided,
        },
        "assumptions": assumptions, "wall_s": round(wall, 3), "violations": int(violations),
    }
    if extra:
        ev["coverage"].update(extra)
    if not req or not discharged:
        # nothing generated / nothing discharged (only on a tree the contracts no longer fit; the
        # run exits non-zero): this is not a proof record, so the proof keys are not claimed and
        # the counts reported are those of the bounded run-time cross-check that stood in
        cov = ev["coverage"]
        cov["obligations_generated"], cov["obligations_discharged"] = cov.pop("obligations"), cov.pop("discharged")
        cc = (extra or {}).get("crosscheck") or {}
        # (a cross-check that stops at its first failing input reports no counts: at least that one
        #  input was evaluated; nothing more is claimed)
        cov["evaluations"] = int(cc.get("evaluations") or (1 if cc.get("failed") else 0))
        cov["distinct_nontrivial"] = int(cc.get("distinct") or (1 if cc.get("failed") else 0))
        if not cov["samples"]:
            cov["samples"] = [{"failing_input": cc.get("input"), "observed": cc.get("observed"), "required": cc.get("required")} if cc.get("failed") else {"undecided": undecided}]
        cov["rule"] = "proof UNDECIDED on this tree; the counts are those of the bounded run-time cross-check of the executable postcondition on the real code: " + str(cc.get("rule", "not run"))
    with open(os.path.join(evidence_dir(), f"{pid}.json"), "w") as f:
        json.dump(ev, f, indent=1, default=str)
        f.write("\n")
