"""Engine self-test: a correct and a deliberately wrong contract on a tiny real
function must give `discharged` and `refuted` respectively."""
import z3
from .dsl import *
from .verify import verify_function
from .solve import to_smt2, solve_task


def selftest():
    F = "accelforge/model/_looptree/reuse/symbolic/_network.py"
    ok = True
    for wrong in (False, True):
        P = Property("SELFTEST")

        @P.fn(F, "multicast_cost")
        def c(c, wrong=wrong):
            n = c.arg("n_dsts", REAL)
            s = c.arg("stride", REAL)
            c.result(REAL)
            c.post("links", lambda r: r == ((n - 1) * s + (1 if wrong else 0)))

        ex, obs = verify_function(P, P.specs[0])
        if not obs:
            print("selftest: zero obligations")
            return False
        res = [solve_task((0, to_smt2(o.hyps, o.goal), 10000, False))["result"] for o in obs]
        want = "sat" if wrong else "unsat"
        good = all(r == want for r in res)
        print(f"selftest ({'wrong' if wrong else 'right'} contract): {res} expected {want}: {'ok' if good else 'FAIL'}")
        ok &= good
    return ok
