"""Symbolic value domain of the VC generator.

Scalars are plain z3 terms (Int / Real / Bool / uninterpreted sorts).  Compound
Python values are immutable wrappers around z3 terms; mutation is functional
update of the variable that holds them (aliasing of mutable containers between two
names is rejected by the executor as unsupported -> undecided).
"""
from __future__ import annotations
import itertools
import z3

_counter = itertools.count()


def fresh_name(base: str) -> str:
    return f"{base}!{next(_counter)}"


def reset_names():
    global _counter
    _counter = itertools.count()


Ref = z3.DeclareSort("Ref")  # object references
Elem = z3.DeclareSort("Elem")  # abstract hashable elements (tensor names, field names ...)
Val = z3.DeclareSort("Val")  # abstract opaque values (job results, pandas Series ...)

NULL = z3.Const("null", Ref)


class Unsupported(Exception):
    """Raised when the real code uses something outside the modelled subset.
    The run is then *undecided* (exit 2); it is never reported as a violation."""


class PyNone:
    _inst = None

    def __new__(cls):
        if cls._inst is None:
            cls._inst = super().__new__(cls)
        return cls._inst

    def __repr__(self):
        return "None"


NONE = PyNone()


class StrV:
    """A Python string constant (symbolic strings are z3 String terms)."""

    def __init__(self, s: str):
        self.s = s

    def __repr__(self):
        return f"StrV({self.s!r})"


class Tup:
    def __init__(self, items):
        self.items = tuple(items)

    def __repr__(self):
        return f"Tup{self.items!r}"


class QuotV:
    """The float quotient a / b of two mathematical numbers, kept lazy so that
    math.ceil(a / b), round(a / b) and int(a / b) become integer division
    (assumption A-FLOATDIV) instead of nonlinear real arithmetic."""

    def __init__(self, num, den):
        self.num, self.den = num, den


class SqrtV:
    def __init__(self, arg):
        self.arg = arg


class OptV:
    """A value that may be None: (isnone, val)."""

    def __init__(self, isnone, val):
        self.isnone, self.val = isnone, val


class SeqV:
    """Finite sequence: z3 array Int -> elem plus a length.  `shape` describes the
    element (a z3 sort, or a Shape object for compound elements)."""

    def __init__(self, shape, arr, n):
        self.shape, self.arr, self.n = shape, arr, n

    def get(self, i):
        return self.shape_unpack(i)

    def shape_unpack(self, i):
        return unpack(self.shape, self.arr, i)


class SetV:
    def __init__(self, shape, arr):
        self.shape, self.arr = shape, arr  # arr: Array(elem -> Bool)


class MapV:
    """Finite map with insertion-ordered keys (Python dict).  dom: Array(k->Bool),
    val: (tuple of) Array(k->v); keys: optional SeqV giving the insertion order."""

    def __init__(self, kshape, vshape, dom, val, keys=None):
        self.kshape, self.vshape, self.dom, self.val, self.keys = kshape, vshape, dom, val, keys


class ObjV:
    def __init__(self, ref, cls=None):
        self.ref, self.cls = ref, cls

    def __repr__(self):
        return f"ObjV({self.ref}, {self.cls})"


class FnV:
    """A Python function value: nested def / lambda with its defining environment,
    or a named repo function / external."""

    def __init__(self, node=None, env=None, name=None, qual=None):
        self.node, self.env, self.name, self.qual = node, env, name, qual


class ClassV:
    def __init__(self, name):
        self.name = name

    def __repr__(self):
        return f"ClassV({self.name})"


class ModV:
    def __init__(self, name):
        self.name = name


class BoundMethod:
    def __init__(self, recv, name):
        self.recv, self.name = recv, name


# ---------------------------------------------------------------------------------
# Shapes: how a compound element is laid out in z3 arrays
# ---------------------------------------------------------------------------------
class TupShape:
    def __init__(self, *items):
        self.items = items


class ObjShape:
    def __init__(self, cls=None):
        self.cls = cls


class OptShape:
    def __init__(self, inner):
        self.inner = inner


class SeqShape:
    """A list held in an object field (or as an element): arrays of the element's sorts + length."""

    def __init__(self, elem):
        self.elem = elem


class SetShape:
    """A set held in an object field: one characteristic array elem -> Bool."""

    def __init__(self, elem):
        self.elem = elem


class MapShape:
    """A dict held in an object field (iteration order not modelled): domain array + value arrays."""

    def __init__(self, key, val, ordered=False):
        self.key, self.val, self.ordered = key, val, ordered  # ordered: the insertion order of the keys is kept too


def shape_sorts(shape):
    """Flat list of z3 sorts for a shape."""
    if isinstance(shape, MapShape):
        k = key_sort(shape.key)
        keys = [z3.ArraySort(z3.IntSort(), k), z3.IntSort()] if shape.ordered else []
        return [z3.ArraySort(k, z3.BoolSort())] + [z3.ArraySort(k, s) for s in shape_sorts(shape.val)] + keys
    if isinstance(shape, z3.SortRef):
        return [shape]
    if isinstance(shape, SetShape):
        return [z3.ArraySort(key_sort(shape.elem), z3.BoolSort())]
    if isinstance(shape, SeqShape):
        return [z3.ArraySort(z3.IntSort(), s) for s in shape_sorts(shape.elem)] + [z3.IntSort()]
    if isinstance(shape, TupShape):
        out = []
        for it in shape.items:
            out += shape_sorts(it)
        return out
    if isinstance(shape, ObjShape):
        return [Ref]
    if isinstance(shape, OptShape):
        return [z3.BoolSort()] + shape_sorts(shape.inner)
    raise Unsupported(f"shape {shape!r}")


def flatten(shape, value):
    """Flat list of z3 terms for a value of that shape."""
    if isinstance(shape, z3.SortRef):
        return [coerce(value, shape)]
    if isinstance(shape, SetShape):
        if not isinstance(value, SetV):
            raise Unsupported(f"set expected for a set-valued field, got {type(value).__name__}")
        return [value.arr]
    if isinstance(shape, MapShape):
        if not isinstance(value, MapV):
            raise Unsupported(f"dict expected for a dict-valued field, got {type(value).__name__}")
        out = [value.dom] + (list(value.val) if isinstance(value.val, (list, tuple)) else [value.val])
        if shape.ordered:
            if value.keys is None:
                raise Unsupported("an unordered dict where an insertion-ordered one is expected")
            out += arrs_of(value.keys) + [value.keys.n]
        return out
    if isinstance(shape, SeqShape):
        if not isinstance(value, SeqV):
            raise Unsupported(f"sequence expected for a list-valued field, got {type(value).__name__}")
        return arrs_of(value) + [value.n]
    if isinstance(shape, TupShape):
        if not isinstance(value, Tup) or len(value.items) != len(shape.items):
            raise Unsupported("tuple shape mismatch")
        out = []
        for s, v in zip(shape.items, value.items):
            out += flatten(s, v)
        return out
    if isinstance(shape, ObjShape):
        if isinstance(value, ObjV):
            return [value.ref]
        if value is NONE:
            return [NULL]
        raise Unsupported("object expected")
    if isinstance(shape, OptShape):
        if value is NONE:
            return [z3.BoolVal(True)] + [z3.FreshConst(s, "dflt") for s in shape_sorts(shape.inner)]
        if isinstance(value, OptV):
            return [value.isnone] + flatten(shape.inner, value.val)
        return [z3.BoolVal(False)] + flatten(shape.inner, value)
    raise Unsupported(f"shape {shape!r}")


def unflatten(shape, terms):
    """Inverse of flatten; consumes from the list `terms` (front)."""
    if isinstance(shape, z3.SortRef):
        return terms.pop(0)
    if isinstance(shape, SetShape):
        return SetV(shape.elem, terms.pop(0))
    if isinstance(shape, MapShape):
        dom = terms.pop(0)
        k = len(shape_sorts(shape.val))
        vals = [terms.pop(0) for _ in range(k)]
        keys = None
        if shape.ordered:
            ka, kn = terms.pop(0), terms.pop(0)
            keys = SeqV(shape.key, ka, kn)
        return MapV(shape.key, shape.val, dom, vals if k > 1 else vals[0], keys)
    if isinstance(shape, SeqShape):
        k = len(shape_sorts(shape.elem))
        arrs = [terms.pop(0) for _ in range(k)]
        n = terms.pop(0)
        return SeqV(shape.elem, arrs if k > 1 else arrs[0], n)
    if isinstance(shape, TupShape):
        return Tup([unflatten(s, terms) for s in shape.items])
    if isinstance(shape, ObjShape):
        return ObjV(terms.pop(0), shape.cls)
    if isinstance(shape, OptShape):
        isnone = terms.pop(0)
        return OptV(isnone, unflatten(shape.inner, terms))
    raise Unsupported(f"shape {shape!r}")


def unpack(shape, arrs, i):
    if not isinstance(arrs, (list, tuple)):
        arrs = [arrs]
    return unflatten(shape, [z3.Select(a, i) for a in arrs])


def arrs_of(x):
    a = x.arr
    return list(a) if isinstance(a, (list, tuple)) else [a]


def key_sort(shape):
    ss = shape_sorts(shape)
    if len(ss) != 1:
        raise Unsupported("compound keys are not modelled")
    return ss[0]


# ---------------------------------------------------------------------------------
def is_z3(v):
    return isinstance(v, z3.ExprRef)


def is_int(v):
    return isinstance(v, z3.ArithRef) and v.is_int()


def is_real(v):
    return isinstance(v, z3.ArithRef) and v.is_real()


def is_bool(v):
    return isinstance(v, z3.BoolRef)


def lift(v):
    """Python constant -> z3 term (leaves z3 terms and wrappers alone)."""
    if isinstance(v, bool):
        return z3.BoolVal(v)
    if isinstance(v, int):
        return z3.IntVal(v)
    if isinstance(v, float):
        if v != v or v in (float("inf"), float("-inf")):
            raise Unsupported("non-finite float literal")
        return z3.RealVal(repr(v))
    if isinstance(v, str):
        return StrV(v)
    if v is None:
        return NONE
    return v


def to_num(v):
    """Numeric z3 term for a value (Bool -> 0/1, QuotV -> real quotient)."""
    v = lift(v)
    if isinstance(v, QuotV):
        return to_real(v.num) / to_real(v.den)
    if is_bool(v):
        return z3.If(v, z3.IntVal(1), z3.IntVal(0))
    if isinstance(v, z3.ArithRef):
        return v
    if is_z3(v) and v.sort() == Val:
        # an opaque value used as a number is a boxed int (theory: unbox_int(box_int(n)) == n)
        return z3.Function("val_unbox_int", Val, z3.IntSort())(v)
    raise Unsupported(f"number expected, got {type(v).__name__}")


def to_real(v):
    v = to_num(v)
    return z3.ToReal(v) if v.is_int() else v


STR_ELEMS = {}


def str_elem(s):
    """The abstract element standing for the string constant `s` (all distinct)."""
    if s not in STR_ELEMS:
        STR_ELEMS[s] = z3.Const(f"str:{s}", Elem)
    return STR_ELEMS[s]


def coerce(v, sort):
    v = lift(v)
    if isinstance(v, StrV) and sort == Elem:
        return str_elem(v.s)
    if isinstance(v, QuotV):
        v = to_num(v)
    if not is_z3(v):
        raise Unsupported(f"cannot coerce {type(v).__name__} to {sort}")
    if v.sort() == sort:
        return v
    if sort == z3.RealSort() and is_int(v):
        return z3.ToReal(v)
    if sort == z3.RealSort() and is_bool(v):
        return z3.ToReal(to_num(v))
    if sort == z3.IntSort() and is_bool(v):
        return to_num(v)
    raise Unsupported(f"sort mismatch {v.sort()} vs {sort}")


def qforall(vs, body, patterns=None, **kw):
    """z3.ForAll that falls back to no patterns when a pattern degenerates (e.g. a
    select over a constant array simplifies to a value)."""
    if patterns:
        try:
            return z3.ForAll(vs, body, patterns=patterns, **kw)
        except z3.Z3Exception:
            pass
    return z3.ForAll(vs, body, **kw)
