"""Bounded stand-ins (DESIGN 4): properties whose functions cannot be brought within the VC
generator's reach.  The contract is an executable run-time check of the REAL function over an
explicitly bounded, enumerated family (oracles/<PID>.py: bounded(payload) -> dict).  Evidence level
`exploration`; never counted as proved."""
import json, os, time

VERIF = os.path.dirname(os.path.dirname(os.path.abspath(__file__)))


def check_bounded(pid, tier, seed, log):
    from .check import run_oracle, load_known

    t0 = time.time()
    known = [e for e in load_known(pid) if e.get("status", "open") == "open"]
    os.makedirs(os.path.join(VERIF, "replays", pid), exist_ok=True)
    kf_lines = []
    for ent in known:
        res = run_oracle(pid, "witness", {"finding": ent})
        if res.get("error"):
            log(f"CHECKER-ERROR known-finding witness {ent['class_id']}: {res['error']}")
            return 3
        if res.get("failed"):
            kf_lines.append(f"KNOWN-FINDING: property={pid} {ent['class_id']}: {ent['what']} (witness still fails on the real code: {str(res.get('observed'))[:200]})")
        else:
            log(f"note: known finding {ent['class_id']} no longer reproduces on the real code")
    res = run_oracle(pid, "bounded", {"seed": seed, "tier": tier, "known": known}, timeout=7200)
    if res.get("error"):
        log("CHECKER-ERROR bounded check: " + res["error"])
        return 3
    for l in kf_lines:
        print(l, flush=True)
    code = 0
    if res.get("failed"):
        rp = os.path.join(VERIF, "replays", pid, "bounded.json")
        json.dump(res, open(rp, "w"), indent=1, default=str)
        print(f"VIOLATION property={pid} replay={rp} (run-time contract fails on the real code: {str(res.get('observed'))[:200]})", flush=True)
        code = 1
    ev = {
        "property_id": pid, "tier": tier, "seed": int(seed), "level": "exploration",
        "coverage": {
            "evaluations": int(res.get("evaluations", 0)), "distinct_nontrivial": int(res.get("distinct", 0)),
            "rule": res.get("rule", ""), "samples": res.get("samples", [])[:12] or [res.get("input", "n/a")],
            "exhaustive": bool(res.get("exhaustive", False)), "bound": res.get("bound", ""),
            "known_findings_seen": kf_lines, "known_finding_hits": res.get("known_finding_hits", 0),
            "label": "BOUNDED run-time contract check of the real function (stand-in; not a proof)",
        },
        "assumptions": res.get("assumptions", []), "wall_s": round(time.time() - t0, 3), "violations": 1 if code == 1 else 0,
    }
    from .check import evidence_dir

    with open(os.path.join(evidence_dir(), f"{pid}.json"), "w") as f:
        json.dump(ev, f, indent=1, default=str)
        f.write("\n")
    return code
