"""Models of the Python / numpy built-ins that the verified functions use.

Every model here is part of the trusted base (assumption A-DISPATCH): it states
the documented behaviour of the built-in as z3 terms or as assumed axioms on a
fresh result.  Anything not modelled raises Unsupported.
"""
from __future__ import annotations
import ast
import z3
from . import values as V
from .values import (
    Unsupported, NONE, StrV, Tup, QuotV, SqrtV, OptV, SeqV, SetV, MapV, ObjV, FnV, ClassV,
    is_z3, is_int, is_bool, lift, to_num, to_real, coerce, fresh_name, flatten, unflatten,
    shape_sorts, arrs_of, key_sort, TupShape,
)

MODULES = {"math": "math", "np": "np", "numpy": "np", "itertools": "itertools", "copy": "copy", "functools": "functools", "re": "re", "logging": "logging"}
MODULE_ATTRS = {}

BUILTINS = {
    "len", "range", "sorted", "set", "list", "tuple", "sum", "min", "max", "abs", "int", "float", "round",
    "isinstance", "enumerate", "zip", "reversed", "any", "all", "dict", "str", "print", "oset", "bool",
    "ceil", "floor", "next", "iter", "frozenset", "type", "id", "repr", "getattr", "hasattr", "fzs",
    "deepcopy", "super", "setattr", "defaultdict",
}


def I(n):
    return z3.IntVal(n)


def _multipatterns(groups):
    out = []
    for g in groups:
        try:
            out.append(z3.MultiPattern(*g))
        except z3.Z3Exception:
            pass
    return out


def mk_seq(shape, arrs, n):
    return SeqV(shape, arrs if len(arrs) > 1 else arrs[0], n)


def empty_seq(shape):
    from .engine import default_of

    return mk_seq(shape, [z3.K(z3.IntSort(), default_of(s)) for s in shape_sorts(shape)], I(0))


def empty_set(shape):
    return SetV(shape, z3.K(key_sort(shape), z3.BoolVal(False)))


def empty_map(kshape, vshape, ordered=True):
    from .engine import default_of

    k = key_sort(kshape)
    vals = [z3.K(k, default_of(s)) for s in shape_sorts(vshape)]
    keys = empty_seq(kshape) if ordered else None
    return MapV(kshape, vshape, z3.K(k, z3.BoolVal(False)), vals if len(vals) > 1 else vals[0], keys)


def cdiv(ex, a, b, node=None):
    """ceil(a / b) for integers with b > 0 (assumption A-FLOATDIV: the float quotient
    rounds to the same ceiling as the exact quotient)."""
    a, b = to_num(a), to_num(b)
    if not (a.is_int() and b.is_int()):
        raise Unsupported("ceil of a real quotient")
    ex.oblige(f"{ex.qualname}/ceil_divisor_positive@{ex.cur_line - ex.fnode.lineno}", b > 0, "safety")
    ex.assume(b > 0)
    return ex.prop.theory.cdiv(a, b, ex.prop.abstract_nl)


def to_seq(ex, v, node=None):
    from .engine import EmptySeq, GenExp

    if isinstance(v, SeqV):
        return v
    if isinstance(v, EmptySeq):
        return empty_seq(z3.IntSort())
    if isinstance(v, Tup):
        if not v.items:
            return empty_seq(z3.IntSort())
        return ex.seq_from_items(list(v.items))
    if isinstance(v, MapV):
        if v.keys is None:
            raise Unsupported("iteration over an unordered map")
        return v.keys
    if isinstance(v, SetV):
        return set_enumeration(ex, v)
    if isinstance(v, GenExp):
        return comprehension(ex, v.node, "list", env=v.env)
    raise Unsupported(f"iteration over {type(v).__name__}")


def set_enumeration(ex, s, sorted_=False):
    """Some enumeration of a finite set: distinct, exactly its members.  With
    sorted_=True the enumeration is strictly increasing (sorted(set))."""
    sort = key_sort(s.shape)
    if sorted_ and sort == z3.IntSort():
        # sorted(set) is a FUNCTION of the set: equal sets have the same sorted enumeration
        # (sorted_enum / sorted_len / sorted_idx are uninterpreted functions of the set's
        # characteristic array; the facts below are their defining properties for this set)
        SA = s.arr.sort()
        arr = z3.Function("sorted_enum", SA, z3.ArraySort(z3.IntSort(), sort))(s.arr)
        n = z3.Function("sorted_len", SA, z3.IntSort())(s.arr)
        _idx = z3.Function("sorted_idx", SA, sort, z3.IntSort())
        idx = lambda t: _idx(s.arr, t)
    else:
        arr = z3.Const(fresh_name("enum"), z3.ArraySort(z3.IntSort(), sort))
        n = z3.Const(fresh_name("enum.len"), z3.IntSort())
        idx = z3.Function(fresh_name("enum.idx"), sort, z3.IntSort())
    i, j = z3.Ints(f"{fresh_name('i')} {fresh_name('j')}")
    x = z3.Const(fresh_name("x"), sort)
    ex.assume(n >= 0)
    ex.assume(V.qforall([i], z3.Implies(z3.And(i >= 0, i < n), z3.And(z3.Select(s.arr, z3.Select(arr, i)), idx(z3.Select(arr, i)) == i)), patterns=[z3.Select(arr, i)]))
    ex.assume(V.qforall([x], z3.Implies(z3.Select(s.arr, x), z3.And(idx(x) >= 0, idx(x) < n, z3.Select(arr, idx(x)) == x)), patterns=[z3.Select(s.arr, x)]))
    if sorted_:
        if sort not in (z3.IntSort(), z3.RealSort()):
            raise Unsupported("sorted() over a non-numeric set")
        ex.assume(V.qforall([i, j], z3.Implies(z3.And(i >= 0, i < j, j < n), z3.Select(arr, i) < z3.Select(arr, j)), patterns=[z3.MultiPattern(z3.Select(arr, i), z3.Select(arr, j))]))
    r = SeqV(s.shape, arr, n)
    r.enum_of = s
    ex.assume(V.qforall([x], ex.seq_mem(r, x) == z3.Select(s.arr, x), patterns=[ex.seq_mem(r, x)]))
    return r


def define_set(ex, shape, body_fn, name="set"):
    """A set given by its characteristic formula: fresh array constant S with the
    defining axiom  forall x. S[x] <-> body(x)  (pattern S[x]); avoids z3 lambdas, which
    cannot be used in patterns."""
    sort = key_sort(shape)
    S = z3.Const(fresh_name(name), z3.ArraySort(sort, z3.BoolSort()))
    x = z3.Const(fresh_name("x"), sort)
    ex.assume(V.qforall([x], z3.Select(S, x) == body_fn(x), patterns=[z3.Select(S, x)]))
    return SetV(shape, S)


def seq_to_set(ex, q):
    i = z3.Const(fresh_name("i"), z3.IntSort())
    (arr,) = arrs_of(q)
    if isinstance(q.n, z3.IntNumRef) and q.n.as_long() <= 8:
        k_ = q.n.as_long()
        return define_set(ex, q.shape, lambda x: z3.Or(*[z3.Select(arr, k) == x for k in range(k_)]) if k_ else z3.BoolVal(False))
    r = define_set(ex, q.shape, lambda x: ex.seq_mem(q, x))
    x = z3.Const(fresh_name("x"), key_sort(q.shape))
    ex.assume(V.qforall([x], ex.seq_mem(q, x) == z3.Select(r.arr, x), patterns=[ex.seq_mem(q, x)]))
    return r


def comprehension(ex, node, kind, env=None):
    """[elt for t in S (if c)] over one generator.  Without a filter the result is
    a pointwise map (z3 Lambda); with a filter over a strictly increasing integer
    source the result is the strictly increasing sequence with the same members."""
    from .engine import Env

    if len(node.generators) != 1:
        raise Unsupported("comprehension with several generators")
    g = node.generators[0]
    saved = ex.env
    if env is not None:
        ex.env = env
    try:
        src = to_seq(ex, ex.eval(g.iter), node)
        k = z3.Const(fresh_name("ck"), z3.IntSort())
        inner = Env(parent=ex.env)
        ex.env = inner
        nhyps = len(ex.hyps)
        ndec = ex.dpos
        done0, mat0 = set(ex.seq_mem_done), dict(ex.materialized)
        ex.in_comprehension += 1
        rng = getattr(src, "range", None) if isinstance(g.target, ast.Name) else None
        if rng is not None:
            # the loop variable itself is the bound variable: lo <= v < hi
            v = z3.Const(fresh_name("cv"), z3.IntSort())
            ex.assume(z3.And(v >= rng[0], v < rng[1]))
            ex.assign(g.target, v)
        else:
            ex.assume(z3.And(k >= 0, k < src.n))
            ex.assign(g.target, src.get(k))
        conds = [ex.truth(ex.eval(c)) for c in g.ifs]
        elt = ex.eval(node.elt)
        if ex.dpos != ndec:
            raise Unsupported("comprehension body branches on symbolic data")
        # facts assumed while evaluating the body (callee postconditions ...) hold for every
        # value of the bound variable: keep them universally quantified
        body_facts = ex.hyps[nhyps + 1:]
        range_fact = ex.hyps[nhyps]
        del ex.hyps[nhyps:]
        for f in [f for f in body_facts if f.get_id() in ex.fresh_facts]:
            ex.assume(f, fresh=True)
        body_facts = [f for f in body_facts if f.get_id() not in ex.fresh_facts]
        bv = v if rng is not None else k
        # facts that do not mention the bound variable are facts about the enclosing state
        for f in [f for f in body_facts if not _mentions(f, bv)]:
            ex.assume(z3.Implies(src.n > 0, f))  # (the body only runs when the source is non-empty)
        ex.seq_mem_done, ex.materialized = set(done0), dict(mat0)  # definitional facts are re-stated on later use
        body_facts = [f for f in body_facts if _mentions(f, bv)]
        if body_facts:
            ex.assume(V.qforall([bv], z3.Implies(range_fact, z3.And(*body_facts))))
    finally:
        ex.in_comprehension = max(0, ex.in_comprehension - 1)
        ex.env = saved
    shape = ex.shape_of(elt)
    if rng is not None:
        lo, hi = rng
        terms = flatten(shape, elt)
        if not conds:
            r = mk_seq(shape, [z3.Lambda([k], z3.substitute(t, (v, lo + k))) for t in terms], src.n)
            r.range_body = (v, lo, hi, terms)
            if kind == "set":
                return seq_to_set(ex, r)
            return r
        cond = z3.And(*conds)
        (t,) = terms
        if not t.eq(v):
            raise Unsupported("filtered comprehension over a range with a non-identity element")
        member = define_set(ex, shape, lambda x: z3.And(x >= lo, x < hi, z3.substitute(cond, (v, x))))
        if kind == "set":
            return member
        r = set_enumeration(ex, member, sorted_=True)
        r.strictly_increasing = True
        r.filtered_range = (v, lo, hi, cond)
        return r
    if not conds:
        terms = flatten(shape, elt)
        # pointwise map as defined arrays:  m[k] == elt(k); usable from the result's side and
        # from the source's side (alternative patterns)
        src_pats = [z3.Select(a, k) for a in arrs_of(src) if z3.is_const(a)]
        arrs = []
        for t in terms:
            m = z3.Const(fresh_name("comp"), z3.ArraySort(z3.IntSort(), t.sort()))
            ex.assume(V.qforall([k], z3.Select(m, k) == t, patterns=[z3.Select(m, k)] + src_pats))
            arrs.append(m)
        r = mk_seq(shape, arrs, src.n)
        if kind == "set":
            return seq_to_set(ex, r)
        return r
    cond = z3.And(*conds)
    if kind == "list" and not (len(flatten(shape, elt)) == 1 and getattr(src, "strictly_increasing", False)):
        return filtered_subsequence(ex, src, k, cond, shape, elt)
    (t,) = flatten(shape, elt)
    if kind == "set":
        return define_set(ex, shape, lambda x: z3.Exists([k], z3.And(k >= 0, k < src.n, cond, t == x)))
    # filtered list: only for the identity element over a strictly increasing source
    (sa,) = arrs_of(src)
    if not (t.eq(z3.Select(sa, k)) or z3.simplify(t == z3.Select(sa, k)).eq(z3.BoolVal(True))) or not getattr(src, "strictly_increasing", False):
        raise Unsupported("filtered list comprehension other than [x for x in <increasing> if c]")
    member = define_set(ex, shape, lambda x: z3.Exists([k], z3.And(k >= 0, k < src.n, cond, t == x)))
    r = set_enumeration(ex, member, sorted_=True)
    r.strictly_increasing = True
    return r


def filtered_subsequence(ex, src, k, cond, shape, elt):
    """[elt(k) for k-th item of src if cond(k)]: the subsequence of the kept items, in source order.
    Characterised completely by a strictly increasing index map `sidx` (result position -> source
    position) whose image is exactly the set of source positions that satisfy the filter (`pos` is
    its inverse there)."""
    src = ex.materialize(src)
    terms = flatten(shape, elt)
    sidx = z3.Function(fresh_name("flt.src"), z3.IntSort(), z3.IntSort())
    pos = z3.Function(fresh_name("flt.pos"), z3.IntSort(), z3.IntSort())
    n = z3.Const(fresh_name("flt.len"), z3.IntSort())
    p, q, j = (z3.Const(fresh_name(x), z3.IntSort()) for x in ("fp", "fq", "fj"))
    at = lambda t, idx: z3.substitute(t, (k, idx))
    arrs = [z3.Const(fresh_name("flt.a"), z3.ArraySort(z3.IntSort(), t.sort())) for t in terms]
    ex.assume(z3.And(n >= 0, n <= src.n))
    body = z3.And(sidx(p) >= 0, sidx(p) < src.n, at(cond, sidx(p)), pos(sidx(p)) == p, *[z3.Select(m, p) == at(t, sidx(p)) for m, t in zip(arrs, terms)])
    ex.assume(V.qforall([p], z3.Implies(z3.And(p >= 0, p < n), body), patterns=[z3.Select(arrs[0], p), sidx(p)]))
    ex.assume(V.qforall([p, q], z3.Implies(z3.And(p >= 0, p < q, q < n), sidx(p) < sidx(q)), patterns=[z3.MultiPattern(sidx(p), sidx(q))]))
    src_pats = [z3.Select(a, j) for a in arrs_of(src) if z3.is_const(a)]
    ex.assume(V.qforall([j], z3.Implies(z3.And(j >= 0, j < src.n, at(cond, j)), z3.And(pos(j) >= 0, pos(j) < n, sidx(pos(j)) == j)), patterns=[pos(j)] + src_pats))
    r = mk_seq(shape, arrs, n)
    r.filter_of = (src, sidx, pos, lambda idx: at(cond, idx))
    return r


def quantified_over_set(ex, gen, name):
    """any(...) / all(body(x) for x in S) where S is a set: a quantifier over the members of S
    (no enumeration order is involved).  Returns None when the source is not a set."""
    from .engine import Env

    node = gen.node
    if len(node.generators) != 1 or node.generators[0].ifs or not isinstance(node.generators[0].target, ast.Name):
        return None
    g = node.generators[0]
    saved = ex.env
    ex.env = gen.env
    try:
        src = ex.eval(g.iter)
        if not isinstance(src, SetV):
            return None
        x = z3.Const(fresh_name("qx"), key_sort(src.shape))
        ex.env = Env(parent=gen.env)
        nhyps, ndec = len(ex.hyps), ex.dpos
        ex.in_comprehension += 1
        try:
            ex.assign(g.target, x)
            body = ex.truth(ex.eval(node.elt))
        finally:
            ex.in_comprehension -= 1
        if ex.dpos != ndec:
            raise Unsupported("quantified body branches on symbolic data")
        facts = [f for f in ex.hyps[nhyps:] if f.get_id() not in ex.fresh_facts]
        if any(x.get_id() in {t.get_id() for t in _consts_of(f)} for f in facts):
            raise Unsupported("facts about the bound variable assumed inside any()/all() over a set")
    finally:
        ex.env = saved
    inside = z3.Select(src.arr, x)
    return z3.Exists([x], z3.And(inside, body)) if name == "any" else V.qforall([x], z3.Implies(inside, body))


def _mentions(f, c):
    return c.get_id() in {t.get_id() for t in _consts_of(f)}


def _consts_of(f):
    out, seen, stack = [], set(), [f]
    while stack:
        t = stack.pop()
        if t.get_id() in seen:
            continue
        seen.add(t.get_id())
        if z3.is_const(t) and t.decl().kind() == z3.Z3_OP_UNINTERPRETED:
            out.append(t)
        if z3.is_app(t):
            stack.extend(t.children())
        elif z3.is_quantifier(t):
            stack.append(t.body())
    return out


def dict_comprehension(ex, node):
    """{K: V for target in S}: domain = the keys produced; for duplicate keys the last
    value wins.  The result keeps S's order when S is the key sequence of a dict and K is
    the loop variable (keys are then distinct)."""
    from .engine import Env

    if len(node.generators) != 1 or node.generators[0].ifs:
        raise Unsupported("dict comprehension with several generators or a filter")
    g = node.generators[0]
    src_val = ex.eval(g.iter)
    src = ex.materialize(to_seq(ex, src_val, node))
    k = z3.Const(fresh_name("dk"), z3.IntSort())
    saved = ex.env
    ex.env = Env(parent=saved)
    nhyps, ndec = len(ex.hyps), ex.dpos
    done0, mat0 = set(ex.seq_mem_done), dict(ex.materialized)
    ex.in_comprehension += 1
    try:
        ex.assume(z3.And(k >= 0, k < src.n))
        ex.assign(g.target, src.get(k))
        key = ex.eval(node.key)
        val = ex.eval(node.value)
        if ex.dpos != ndec:
            raise Unsupported("dict comprehension body branches on symbolic data")
        et = getattr(ex, "expected_type", None)
        from . import types as T_
        from .engine import EmptySeq as _ES
        if isinstance(val, EmptySet) and isinstance(et, T_.MAP) and isinstance(et.val, T_.SET):
            val = empty_set(et.val.elem.shape())
        elif isinstance(val, _ES) and isinstance(et, T_.MAP) and isinstance(et.val, T_.SEQ):
            val = empty_seq(et.val.elem.shape())
        body_facts = ex.hyps[nhyps + 1:]
        range_fact = ex.hyps[nhyps]
        del ex.hyps[nhyps:]
        for f in [f for f in body_facts if f.get_id() in ex.fresh_facts]:
            ex.assume(f, fresh=True)
        body_facts = [f for f in body_facts if f.get_id() not in ex.fresh_facts]
        for f in [f for f in body_facts if not _mentions(f, k)]:
            ex.assume(z3.Implies(src.n > 0, f))
        ex.seq_mem_done, ex.materialized = set(done0), dict(mat0)
        body_facts = [f for f in body_facts if _mentions(f, k)]
        if body_facts:
            ex.assume(V.qforall([k], z3.Implies(range_fact, z3.And(*body_facts))))
    finally:
        ex.in_comprehension -= 1
        ex.env = saved
    kshape, vshape = ex.shape_of(key), ex.shape_of(val)
    (kt,) = flatten(kshape, key)
    vts = flatten(vshape, val)
    src_pats = [z3.Select(a, k) for a in arrs_of(src) if z3.is_const(a)]
    KA = z3.Const(fresh_name("dc.keys"), z3.ArraySort(z3.IntSort(), kt.sort()))
    ex.assume(V.qforall([k], z3.Select(KA, k) == kt, patterns=[z3.Select(KA, k)] + src_pats))
    keyseq = SeqV(kshape, KA, src.n)
    dom = define_set(ex, kshape, lambda x: ex.seq_mem(keyseq, x), name="dc.dom")
    x = z3.Const(fresh_name("x"), kt.sort())
    ex.assume(V.qforall([x], ex.seq_mem(keyseq, x) == z3.Select(dom.arr, x), patterns=[ex.seq_mem(keyseq, x)]))
    # value of a key: the value produced at (the last) one of its occurrences.  Stated with an
    # occurrence index function; "some occurrence" is weaker than Python's "last" (hence sound).
    occ = z3.Function(fresh_name("dc.occ"), kt.sort(), z3.IntSort())
    vals = []
    for i, vt in enumerate(vts):
        VA = z3.Const(fresh_name(f"dc.val{i}"), z3.ArraySort(kt.sort(), vt.sort()))
        VT = z3.Const(fresh_name(f"dc.src{i}"), z3.ArraySort(z3.IntSort(), vt.sort()))
        ex.assume(V.qforall([k], z3.Select(VT, k) == vt, patterns=[z3.Select(VT, k)] + src_pats))
        ex.assume(V.qforall([x], z3.Implies(z3.Select(dom.arr, x), z3.And(occ(x) >= 0, occ(x) < src.n, z3.Select(KA, occ(x)) == x, z3.Select(VA, x) == z3.Select(VT, occ(x)))), patterns=[z3.Select(dom.arr, x), z3.Select(VA, x)]))
        vals.append(VA)
    ordered = None
    if isinstance(src_val, MapV) and src_val.keys is not None and z3.simplify(kt == z3.Select(arrs_of(src)[0], k)).eq(z3.BoolVal(True)):
        ordered = src_val.keys
    return MapV(kshape, vshape, dom.arr, vals if len(vals) > 1 else vals[0], ordered)


def mk_range(ex, args):
    a = [to_num(x) for x in args]
    if len(a) == 1:
        lo, hi, step = I(0), a[0], I(1)
    elif len(a) == 2:
        lo, hi, step = a[0], a[1], I(1)
    else:
        lo, hi, step = a
    if not (isinstance(step, z3.IntNumRef) and step.as_long() == 1):
        raise Unsupported("range with a step other than 1")
    for t in (lo, hi):
        if not t.is_int():
            raise Unsupported("range over non-integers")
    i = z3.Const(fresh_name("ri"), z3.IntSort())
    r = SeqV(z3.IntSort(), z3.Lambda([i], lo + i), z3.If(hi > lo, hi - lo, I(0)))
    r.strictly_increasing = True
    r.range = (lo, hi)
    return r


def call_builtin(ex, name, args, kw, node):
    from .engine import EmptySeq, EmptyDict, GenExp, KwDict, RaiseEx

    short = name.split(".")[-1]
    if name in ("print", "logging.info", "logging.debug", "logging.warning"):
        return NONE
    if name == "len":
        (x,) = args
        if isinstance(x, SeqV):
            return x.n
        if isinstance(x, EmptySeq) or isinstance(x, EmptyDict):
            return I(0)
        if isinstance(x, Tup):
            return I(len(x.items))
        if isinstance(x, MapV) and x.keys is not None:
            return x.keys.n
        if isinstance(x, ObjV):
            return ex.call_method(x, "__len__", [], {}, node)
        raise Unsupported(f"len of {type(x).__name__}")
    if name == "range":
        return mk_range(ex, args)
    if name in ("math.ceil", "ceil", "np.ceil"):
        (x,) = args
        if isinstance(x, QuotV):
            return cdiv(ex, x.num, x.den, node)
        if isinstance(x, SqrtV):
            n = to_num(x.arg)
            b = z3.Const(fresh_name("csqrt"), z3.IntSort())
            # A-FLOATDIV: ceil(n ** 0.5) is the least B >= 0 with B*B >= n
            mul = lambda p, q: ex.prop.theory.mul(p, q, ex.prop.abstract_nl)
            ex.assume(z3.And(b >= 0, mul(b, b) >= n, z3.Or(b == 0, mul(b - 1, b - 1) < n)))
            return b
        x = to_num(x)
        if x.is_int():
            return x
        return -z3.ToInt(-x)
    if name in ("math.floor", "floor"):
        (x,) = args
        if isinstance(x, QuotV):
            a, b = to_num(x.num), to_num(x.den)
            if a.is_int() and b.is_int():
                ex.assume(b > 0) if False else None
                ex.oblige(f"{ex.qualname}/floor_divisor_positive@{ex.cur_line - ex.fnode.lineno}", b > 0, "safety")
                ex.assume(b > 0)
                return ex.prop.theory.div(a, b, ex.prop.abstract_nl)
        x = to_num(x)
        return x if x.is_int() else z3.ToInt(x)
    if name == "round":
        x = args[0]
        if len(args) > 1:
            raise Unsupported("round with ndigits")
        if isinstance(x, QuotV):
            a, b = to_num(x.num), to_num(x.den)
            if a.is_int() and b.is_int():
                ex.oblige(f"{ex.qualname}/round_divisor_positive@{ex.cur_line - ex.fnode.lineno}", b > 0, "safety")
                ex.assume(b > 0)
                r = z3.Const(fresh_name("round"), z3.IntSort())
                # exact rounding of the exact quotient: |a/b - r| <= 1/2, and r == a/b when b | a
                th, ab = ex.prop.theory, ex.prop.abstract_nl
                ex.assume(z3.And(2 * (a - th.mul(r, b, ab)) <= b, 2 * (th.mul(r, b, ab) - a) <= b))
                ex.assume(z3.Implies(th.mod(a, b, ab) == 0, r == th.div(a, b, ab)))
                return r
        x = to_num(x)
        if x.is_int():
            return x
        raise Unsupported("round of a real")
    if name == "float" and len(args) == 1 and isinstance(args[0], StrV) and args[0].s in ("inf", "-inf"):
        # an unconstrained real (the code under contract only compares it after it was replaced)
        return z3.Const(fresh_name("float_inf"), z3.RealSort())
    if name in ("int", "float", "bool"):
        if not args:
            return lift({"int": 0, "float": 0.0, "bool": False}[name])
        (x,) = args
        if name == "bool":
            return ex.truth(x)
        x = to_num(x)
        if name == "int":
            return x if x.is_int() else z3.ToInt(x)  # (truncation == floor for the non-negative uses)
        return to_real(x)
    if name == "abs":
        x = to_num(args[0])
        return z3.If(x >= 0, x, -x)
    if name in ("min", "max"):
        if len(args) == 1:
            raise Unsupported("min/max over an iterable")
        xs = [to_num(a) for a in args]
        if any(not t.is_int() for t in xs):
            xs = [to_real(t) for t in xs]
        r = xs[0]
        for t in xs[1:]:
            r = z3.If(t < r, t, r) if name == "min" else z3.If(t > r, t, r)
        return r
    if name == "isinstance":
        x, c = args
        classes = list(c.items) if isinstance(c, Tup) else [c]
        names = [k.name[8:] if isinstance(k, FnV) and k.name.startswith("builtin:") else k.name for k in classes]
        return ex.prop.isinstance_formula(ex, x, names)
    if name in ("sorted",):
        (x,) = args
        if kw:
            raise Unsupported("sorted with key/reverse")
        if isinstance(x, SetV):
            r = set_enumeration(ex, x, sorted_=True)
            r.strictly_increasing = True
            return r
        if isinstance(x, EmptySeq):
            return x
        if isinstance(x, SeqV):
            return sorted_seq(ex, x)
        raise Unsupported(f"sorted of {type(x).__name__}")
    if name in ("set", "oset", "frozenset", "fzs"):
        if not args:
            return EmptySet()
        (x,) = args
        if isinstance(x, SetV):
            return x
        if isinstance(x, EmptySeq):
            return EmptySet()
        return seq_to_set(ex, to_seq(ex, x, node))
    if name in ("list", "tuple"):
        if not args:
            return EmptySeq() if name == "list" else Tup([])
        (x,) = args
        if isinstance(x, Tup):
            return x if name == "tuple" else to_seq(ex, x)
        r = to_seq(ex, x, node)
        if getattr(r, "owner", None) is not None:
            # list(param) / tuple(param) is a NEW container with the same items
            r2 = SeqV(r.shape, r.arr, r.n)
            for a_ in ("is_ndarray", "strictly_increasing", "range", "enum_of"):
                if hasattr(r, a_):
                    setattr(r2, a_, getattr(r, a_))
            return r2
        return r
    if name == "np.array":
        (x,) = args
        r = to_seq(ex, x, node)
        r2 = SeqV(r.shape, r.arr, r.n)
        r2.is_ndarray = True
        for a in ("strictly_increasing", "enum_of"):
            if hasattr(r, a):
                setattr(r2, a, getattr(r, a))
        return r2
    if name == "sum":
        x = args[0]
        start = to_num(args[1]) if len(args) > 1 else I(0)
        return start + seq_sum(ex, to_seq(ex, x, node))
    if name == "enumerate":
        q = to_seq(ex, args[0], node)
        start = to_num(args[1]) if len(args) > 1 else to_num(kw.get("start", 0))
        i = z3.Const(fresh_name("ei"), z3.IntSort())
        arrs = [z3.Lambda([i], start + i)] + arrs_of(q)
        return SeqV(TupShape(z3.IntSort(), q.shape), arrs, q.n)
    if name == "itertools.combinations":
        # all index pairs i < j of the sequence, each exactly once (documented behaviour; the
        # order in which the pairs come is not used)
        q = ex.materialize(to_seq(ex, args[0], node))
        r = to_num(args[1])
        if not (isinstance(r, z3.IntNumRef) and r.as_long() == 2):
            raise Unsupported("itertools.combinations with r != 2")
        fi = z3.Function(fresh_name("comb.i"), z3.IntSort(), z3.IntSort())
        fj = z3.Function(fresh_name("comb.j"), z3.IntSort(), z3.IntSort())
        tt = z3.Function(fresh_name("comb.t"), z3.IntSort(), z3.IntSort(), z3.IntSort())
        n = z3.Const(fresh_name("comb.len"), z3.IntSort())
        t, i, j = z3.Ints(f"{fresh_name('ct')} {fresh_name('ci')} {fresh_name('cj')}")
        arrs1 = [z3.Const(fresh_name("comb.a"), a.sort()) for a in arrs_of(q)]
        arrs2 = [z3.Const(fresh_name("comb.b"), a.sort()) for a in arrs_of(q)]
        ex.assume(n >= 0)
        pointwise = z3.And(*([z3.Select(m, t) == z3.Select(a, fi(t)) for m, a in zip(arrs1, arrs_of(q))] + [z3.Select(m, t) == z3.Select(a, fj(t)) for m, a in zip(arrs2, arrs_of(q))]))
        ex.assume(V.qforall([t], z3.Implies(z3.And(t >= 0, t < n), z3.And(fi(t) >= 0, fi(t) < fj(t), fj(t) < q.n, pointwise)), patterns=[z3.Select(arrs1[0], t)]))
        ex.assume(V.qforall([i, j], z3.Implies(z3.And(i >= 0, i < j, j < q.n), z3.And(tt(i, j) >= 0, tt(i, j) < n, fi(tt(i, j)) == i, fj(tt(i, j)) == j)), patterns=[tt(i, j)] + _multipatterns([(z3.Select(a, i), z3.Select(a, j)) for a in arrs_of(q)])))
        r = SeqV(TupShape(q.shape, q.shape), arrs1 + arrs2, n)
        r.comb = (fi, fj, tt, q)
        return r
    if name == "zip":
        qs = [to_seq(ex, a, node) for a in args]
        n = qs[0].n
        for q in qs[1:]:
            n = z3.If(q.n < n, q.n, n)
        arrs = []
        for q in qs:
            arrs += arrs_of(q)
        return SeqV(TupShape(*[q.shape for q in qs]), arrs, n)
    if name == "reversed":
        q = to_seq(ex, args[0], node)
        i = z3.Const(fresh_name("rv"), z3.IntSort())
        r = mk_seq(q.shape, [z3.Lambda([i], z3.Select(a, q.n - 1 - i)) for a in arrs_of(q)], q.n)
        r.is_iterator = True  # (a variable bound to it can be consumed with next(); see Exec.assign)
        r.reversed_of = q
        return r
    if name == "iter":
        q = to_seq(ex, args[0], node)
        r = SeqV(q.shape, q.arr, q.n)
        r.is_iterator = True
        return r
    if name == "next" and len(args) == 1 and isinstance(node.args[0], ast.Name):
        # next(it) for a variable bound to reversed(...) / iter(...): the position is a hidden variable
        # __pos_<name> (havocked by loops that call next on it)
        it = args[0]
        pname = "__pos_" + node.args[0].id
        if not isinstance(it, SeqV):
            raise Unsupported("next() of a non-sequence iterator")
        pos = ex.env.get(pname)
        if not ex.decide(pos < it.n):
            raise RaiseEx("StopIteration", ex.cur_line)
        v = it.get(pos)
        ex.env.mutate(pname, pos + 1)
        return v
    if name == "float" and len(args) == 1 and isinstance(args[0], StrV) and args[0].s in ("inf", "-inf"):
        # an unconstrained real (the code under contract only compares it after it was replaced)
        return z3.Const(fresh_name("float_inf"), z3.RealSort())
    if name in ("any", "all") and isinstance(args[0], GenExp):
        r = quantified_over_set(ex, args[0], name)
        if r is not None:
            return r
    if name in ("any", "all"):
        q = to_seq(ex, args[0], node)
        (a,) = arrs_of(q)
        i = z3.Const(fresh_name("qa"), z3.IntSort())
        el = z3.Select(a, i)
        t = el if is_bool(el) else (el != 0)
        rng = z3.And(i >= 0, i < q.n)
        return z3.Exists([i], z3.And(rng, t)) if name == "any" else V.qforall([i], z3.Implies(rng, t))
    if name == "defaultdict":
        from .engine import DefaultDictEmpty

        (f,) = args
        fname = getattr(f, "name", "")
        if fname in ("builtin:float", "builtin:int"):
            return DefaultDictEmpty(z3.RealVal(0) if fname.endswith("float") else z3.IntVal(0))
        raise Unsupported("defaultdict with a factory other than float / int")
    if name in ("np.zeros", "np.empty") and len(args) == 1 and not isinstance(args[0], Tup):
        # 1-D integer / float arrays of a given length: zeros, or arbitrary content (np.empty)
        n = to_num(args[0])
        ex.oblige(f"{ex.qualname}/array_length_nonneg@{ex.cur_line - ex.fnode.lineno}", n >= 0, "safety")
        ex.assume(n >= 0)
        dt = kw.get("dtype")
        dname = getattr(dt, "name", "") or ""
        sort = z3.IntSort() if "int" in dname else z3.RealSort()
        if name == "np.zeros":
            arr = z3.K(z3.IntSort(), z3.IntVal(0) if sort == z3.IntSort() else z3.RealVal(0))
        else:
            arr = z3.Const(fresh_name("np.empty"), z3.ArraySort(z3.IntSort(), sort))
        r = SeqV(sort, arr, n)
        r.is_ndarray = True
        return r
    if name == "math.prod" and len(args) == 1:
        # product of a list of integers: the uninterpreted prod_int(a, 0, n), defined by the contracts' hints
        q = ex.materialize(to_seq(ex, args[0], node))
        (a,) = arrs_of(q)
        if a.sort().range() != z3.IntSort():
            raise Unsupported("math.prod over non-integers")
        return ex.prop.theory.prod_int(a, I(0), q.n)
    if name in ("np.maximum", "np.minimum") and len(args) == 2:
        xs = [to_num(a) for a in args]
        if any(not t.is_int() for t in xs):
            xs = [to_real(t) for t in xs]
        return z3.If(xs[0] >= xs[1], xs[0], xs[1]) if name == "np.maximum" else z3.If(xs[0] <= xs[1], xs[0], xs[1])
    if name == "dict":
        if not args and not kw:
            return EmptyDict()
        if len(args) == 1 and not kw and isinstance(args[0], KwDict):
            return KwDict(dict(args[0].items))  # a copy of the keyword-argument dict
        if len(args) == 1 and not kw and isinstance(args[0], MapV):
            m = args[0]
            return MapV(m.kshape, m.vshape, m.dom, m.val, m.keys)
        raise Unsupported("dict(...) with arguments")
    if name == "str":
        return StrV("<str()>")
    if name in ("copy.deepcopy", "copy.copy", "deepcopy"):
        (x,) = args
        if isinstance(x, (SeqV, SetV, MapV, Tup)) and not isinstance(getattr(x, "shape", None), V.ObjShape) or is_z3(x):
            return x  # immutable value model
        if isinstance(x, OptV):
            x = x.val
        if isinstance(x, ObjV):
            c = ex.prop.lookup_method(x.cls, "__deepcopy__", ex.relfile)
            if c is not None:
                return ex.call_contract(c, [x], {}, node)
        raise Unsupported("deepcopy of an object needs a contract (__deepcopy__ of its class)")
    if name == "hasattr":
        x, a = args
        if isinstance(x, ObjV) and isinstance(a, StrV):
            if a.s in ex.prop.fields and x.cls in (None, "?") and a.s in ex.prop.field_owners:
                # the class is only known dynamically: the classes that declare the field
                subs = set()
                for o in ex.prop.field_owners[a.s]:
                    subs |= ex.prop.subclasses(o)
                return z3.Or(*[ex.prop.class_tag(x.ref) == ex.prop.class_id(s_) for s_ in sorted(subs)])
            if a.s in ex.prop.fields:
                return z3.BoolVal(ex.prop.class_has_field(x.cls, a.s))
            return z3.BoolVal(False)
        if isinstance(a, StrV) and not isinstance(x, ObjV):
            return z3.BoolVal(False)
        raise Unsupported("hasattr with a computed name")
    if name == "getattr" and isinstance(args[0], MapV) and len(args) == 2:
        # an object's attribute namespace modelled as a finite map name -> value
        return ex.load_index(args[0], args[1], node)
    if name == "setattr" and isinstance(args[0], MapV):
        x, a, v = args
        ex.assign(node.args[0], ex.store_index(x, a, v), mutate=True)
        return NONE
    if name == "getattr" and len(args) == 3 and args[2] is NONE and isinstance(args[0], ObjV) and isinstance(args[1], StrV) \
            and args[1].s in ex.prop.fields and args[1].s in ex.prop.field_owners and args[0].cls in (None, "?"):
        # getattr(obj, "field", None) on an object whose class is only known dynamically: the value if
        # its class declares the field, else None
        x, a = args[0], args[1]
        subs = set()
        for o in ex.prop.field_owners[a.s]:
            subs |= ex.prop.subclasses(o)
        has = z3.Or(*[ex.prop.class_tag(x.ref) == ex.prop.class_id(s_) for s_ in sorted(subs)])
        return OptV(z3.Not(has), ex.read_field(x, a.s))
    if name == "getattr":
        x, a = args[0], args[1]
        if isinstance(x, ObjV) and isinstance(a, StrV) and a.s in ex.prop.fields:
            # a declared field; for "optional" attributes (getattr with a default) the field's
            # declared model already encodes "absent" (e.g. the empty set / False): see the
            # property's assumptions
            return ex.read_field(x, a.s)
        raise Unsupported("getattr of an undeclared field")
    if name == "super":
        return SuperV(ex.env.get("self"))
    raise Unsupported(f"builtin {name}")


class EmptySet:
    pass


class SuperV:
    """`super()`: method calls on it go to the contract named `super.<method>`."""

    def __init__(self, obj):
        self.obj = obj


def sorted_seq(ex, q):
    """sorted(list): same length, non-decreasing, same members (multiplicities are
    not tracked: a weaker, hence sound, assumption)."""
    (a,) = arrs_of(q)
    sort = a.sort().range()
    arr = z3.Const(fresh_name("sorted"), a.sort())
    i, j = z3.Ints(f"{fresh_name('i')} {fresh_name('j')}")
    perm = z3.Function(fresh_name("perm"), z3.IntSort(), z3.IntSort())
    inv = z3.Function(fresh_name("perm.inv"), z3.IntSort(), z3.IntSort())
    rng = lambda t: z3.And(t >= 0, t < q.n)
    ex.assume(V.qforall([i], z3.Implies(rng(i), z3.And(rng(perm(i)), inv(perm(i)) == i, z3.Select(arr, i) == z3.Select(a, perm(i)))), patterns=[z3.Select(arr, i)]))
    ex.assume(V.qforall([i], z3.Implies(rng(i), z3.And(rng(inv(i)), perm(inv(i)) == i)), patterns=[z3.Select(a, i)]))
    ex.assume(V.qforall([i, j], z3.Implies(z3.And(i >= 0, i < j, j < q.n), z3.Select(arr, i) <= z3.Select(arr, j)), patterns=[z3.MultiPattern(z3.Select(arr, i), z3.Select(arr, j))]))
    return SeqV(q.shape, arr, q.n)


def seq_sum(ex, q):
    """sum over a sequence: the uninterpreted, axiomatised SumRange (see hints SUM)."""
    (a,) = arrs_of(q)
    if a.sort().range() == z3.BoolSort():
        # sum of truth values: True counts 1
        q = ex.materialize(q)
        (a,) = arrs_of(q)
        m = z3.Const(fresh_name("b2i"), z3.ArraySort(z3.IntSort(), z3.IntSort()))
        k = z3.Const(fresh_name("bk"), z3.IntSort())
        ex.assume(V.qforall([k], z3.Select(m, k) == z3.If(z3.Select(a, k), 1, 0), patterns=[z3.Select(m, k)]))
        a = m
    if a.sort().range() == z3.IntSort():
        return ex.prop.theory.sum_int(a, I(0), q.n)
    return ex.prop.theory.sum_real(a, I(0), q.n)


def call_builtin_method(ex, recv, name, args, kw, node):
    from .engine import EmptySeq, EmptyDict, RaiseEx, coerce_key

    # --- methods that mutate the receiver: evaluate to the new container and rebind
    def rebind(newval):
        tgt = node.func.value
        ex.assign(tgt, newval, mutate=True)
        return NONE

    if isinstance(recv, (EmptySeq, EmptySet, EmptyDict)):
        if name in ("append", "add"):
            (x,) = args
            shape = ex.shape_of(x)
            recv = empty_seq(shape) if isinstance(recv, EmptySeq) else empty_set(shape)
        elif name in ("get", "items", "keys", "values", "extend", "update", "copy"):
            raise Unsupported(f".{name} on an untyped empty container; declare the local's type in the contract")
        else:
            raise Unsupported(f".{name} on an untyped empty container")
    if isinstance(recv, SeqV):
        if name in ("all", "any") and not args and getattr(recv, "is_ndarray", False):
            # numpy boolean array .all() / .any()
            q = ex.materialize(recv)
            (a,) = arrs_of(q)
            if a.sort().range() != z3.BoolSort():
                raise Unsupported(f".{name}() on a non-boolean array")
            k = z3.Const(fresh_name("ak"), z3.IntSort())
            rng = z3.And(k >= 0, k < q.n)
            return V.qforall([k], z3.Implies(rng, z3.Select(a, k))) if name == "all" else z3.Exists([k], z3.And(rng, z3.Select(a, k)))
        if name == "append":
            (x,) = args
            terms = flatten(recv.shape, x)
            arrs = [z3.Store(a, recv.n, t) for a, t in zip(arrs_of(recv), terms)]
            new = mk_seq(recv.shape, arrs, recv.n + 1)
            # bridge for E-matching: whenever old[j] is mentioned, new[j] becomes a term too (and
            # vice versa); vf_trigger is a predicate without content (see Exec.trigger)
            bj = z3.Const(fresh_name("bj"), z3.IntSort())
            for a_old, a_new in zip(arrs_of(recv), arrs):
                if z3.is_const(a_old) or z3.is_app(a_old):
                    tr = z3.Function("vf_trigger." + str(a_old.sort().range()), a_old.sort().range(), z3.BoolSort())
                    ex.assume(V.qforall([bj], tr(z3.Select(a_new, bj)), patterns=[z3.Select(a_old, bj)]))
                    ex.assume(V.qforall([bj], tr(z3.Select(a_old, bj)), patterns=[z3.Select(a_new, bj)]))
            if len(arrs) == 1:
                # membership after append (a consequence of the definition of seq_mem, stated
                # with a pattern so that it is used):  y in xs+[v]  <->  y in xs or y == v
                y = z3.Const(fresh_name("ay"), terms[0].sort())
                ex.assume(V.qforall([y], ex.seq_mem(new, y) == z3.Or(ex.seq_mem(recv, y), y == terms[0]), patterns=[ex.seq_mem(new, y)]))
                if isinstance(recv.shape, V.ObjShape) and "name" in ex.prop.fields and (getattr(recv, "by_name", False) or recv.shape.cls in ex.prop.by_name_lists):
                    # by-name lookup after append (consequence of the definition, stated with a pattern)
                    ky = z3.Const(fresh_name("ak"), V.Elem)
                    nm = z3.Select(ex.heap_arrays("name")[0], terms[0])
                    ex.assume(V.qforall([ky], ex.by_name_exists(new, ky) == z3.Or(ex.by_name_exists(recv, ky), nm == ky), patterns=[ex.by_name_exists(new, ky)]))
            return rebind(new)
        if name == "copy":
            return recv
        if name == "clear":
            return rebind(SeqV(recv.shape, recv.arr, I(0)))
        if name == "extend":
            other = to_seq(ex, args[0], node)
            return rebind(ex.seq_binop(ast.Add(), recv, other))  # xs.extend(ys) == xs + ys, in place
        if name == "remove":
            # list.remove(x): deletes the FIRST item equal to x; ValueError if there is none
            (x,) = args
            recv = ex.materialize(recv)
            if not ex.decide(ex.contains(recv, x, node)):
                raise RaiseEx("ValueError", ex.cur_line)
            p = z3.Const(fresh_name("rm.at"), z3.IntSort())
            i = z3.Const(fresh_name("rm.i"), z3.IntSort())
            ex.assume(z3.And(p >= 0, p < recv.n, ex.equal(recv.get(p), x)))
            ex.assume(V.qforall([i], z3.Implies(z3.And(i >= 0, i < p), z3.Not(ex.equal(recv.get(i), x)))))
            arrs = []
            for a in arrs_of(recv):
                m = z3.Const(fresh_name("rm.a"), a.sort())
                ex.assume(V.qforall([i], z3.Select(m, i) == z3.If(i < p, z3.Select(a, i), z3.Select(a, i + 1)), patterns=[z3.Select(m, i)]))
                arrs.append(m)
                # bridge for E-matching (content-free, see Exec.trigger): an item old[j] is new[j] or
                # new[j - 1]; an item new[j] is old[j] or old[j + 1]
                tr = z3.Function("vf_trigger." + str(a.sort().range()), a.sort().range(), z3.BoolSort())
                if z3.is_const(a) or z3.is_app(a):
                    ex.assume(V.qforall([i], z3.And(tr(z3.Select(m, i)), tr(z3.Select(m, i - 1))), patterns=[z3.Select(a, i)]))
                    ex.assume(V.qforall([i], z3.And(tr(z3.Select(a, i)), tr(z3.Select(a, i + 1))), patterns=[z3.Select(m, i)]))
            new = mk_seq(recv.shape, arrs, recv.n - 1)
            new.removed_at = (recv, p)
            return rebind(new)
        if name == "index" and len(args) == 1:
            # list.index(x): the FIRST position holding x; ValueError if there is none
            (x,) = args
            recv = ex.materialize(recv)
            if not ex.decide(ex.contains(recv, x, node)):
                raise RaiseEx("ValueError", ex.cur_line)
            p = z3.Const(fresh_name("ix.at"), z3.IntSort())
            i = z3.Const(fresh_name("ix.i"), z3.IntSort())
            ex.assume(z3.And(p >= 0, p < recv.n, ex.equal(recv.get(p), x)))
            ex.assume(V.qforall([i], z3.Implies(z3.And(i >= 0, i < p), z3.Not(ex.equal(recv.get(i), x)))))
            return p
        if name == "pop" and not args:
            if not ex.decide(recv.n > 0):
                raise RaiseEx("IndexError", ex.cur_line)
            last = recv.get(recv.n - 1)
            rebind(SeqV(recv.shape, recv.arr, recv.n - 1))
            return last
    if isinstance(recv, SetV):
        sort = key_sort(recv.shape)
        if name == "add":
            (x,) = args
            return rebind(SetV(recv.shape, z3.Store(recv.arr, coerce_key(ex, x, sort), z3.BoolVal(True))))
        if name == "discard":
            (x,) = args
            return rebind(SetV(recv.shape, z3.Store(recv.arr, coerce_key(ex, x, sort), z3.BoolVal(False))))
        if name == "remove":
            (x,) = args
            k = coerce_key(ex, x, sort)
            if not ex.decide(z3.Select(recv.arr, k)):
                raise RaiseEx("KeyError", ex.cur_line)
            return rebind(SetV(recv.shape, z3.Store(recv.arr, k, z3.BoolVal(False))))
        if name == "copy":
            return recv
        if name == "update":
            other = args[0]
            if not isinstance(other, SetV):
                other = seq_to_set(ex, to_seq(ex, other, node))
            return rebind(ex.set_binop(ast.BitOr(), recv, other))
    if isinstance(recv, MapV):
        ks = key_sort(recv.kshape)
        if name == "get":
            k = coerce_key(ex, args[0], ks)
            dflt = args[1] if len(args) > 1 else NONE
            if ex.decide(z3.Select(recv.dom, k)):
                return ex.map_get(recv, k)
            return dflt
        if name == "copy":
            return MapV(recv.kshape, recv.vshape, recv.dom, recv.val, recv.keys)  # a new dict with the same content
        if name == "items":
            keys = recv.keys
            if keys is None:
                raise Unsupported("items() of an unordered map")
            i = z3.Const(fresh_name("it"), z3.IntSort())
            (ka,) = arrs_of(keys)
            vals = recv.val if isinstance(recv.val, (list, tuple)) else [recv.val]
            arrs = [ka] + [z3.Lambda([i], z3.Select(va, z3.Select(ka, i))) for va in vals]
            return SeqV(TupShape(recv.kshape, recv.vshape), arrs, keys.n)
        if name == "keys":
            return recv.keys
        if name == "values":
            keys = recv.keys
            i = z3.Const(fresh_name("it"), z3.IntSort())
            (ka,) = arrs_of(keys)
            vals = recv.val if isinstance(recv.val, (list, tuple)) else [recv.val]
            return mk_seq(recv.vshape, [z3.Lambda([i], z3.Select(va, z3.Select(ka, i))) for va in vals], keys.n)
    c = ex.prop.lookup_method(None, name, ex.relfile)
    if c is not None and c.external:
        return ex.call_contract(c, [recv] + list(args), kw, node)
    raise Unsupported(f"method .{name} on {type(recv).__name__}")
