"""Type descriptors used by contracts to declare parameters / results / fields."""
from __future__ import annotations
import z3
from .values import (
    Ref, Elem, Val, SeqV, SetV, MapV, ObjV, OptV, Tup, TupShape, ObjShape, OptShape,
    shape_sorts, unflatten, fresh_name, Unsupported, NONE, StrV,
)


class T:
    def fresh(self, name):
        raise NotImplementedError

    def shape(self):
        raise NotImplementedError


class _Scalar(T):
    def __init__(self, sort):
        self.sort = sort

    def fresh(self, name):
        return z3.Const(fresh_name(name), self.sort)

    def shape(self):
        return self.sort


INT = _Scalar(z3.IntSort())
REAL = _Scalar(z3.RealSort())
BOOL = _Scalar(z3.BoolSort())
ELEM = _Scalar(Elem)
VAL = _Scalar(Val)
STRING = _Scalar(z3.StringSort())


class OBJ(T):
    def __init__(self, cls=None):
        self.cls = cls

    def fresh(self, name):
        return ObjV(z3.Const(fresh_name(name), Ref), self.cls)

    def shape(self):
        return ObjShape(self.cls)


class TUP(T):
    def __init__(self, *items):
        self.items = items

    def fresh(self, name):
        return Tup([t.fresh(f"{name}.{i}") for i, t in enumerate(self.items)])

    def shape(self):
        return TupShape(*[t.shape() for t in self.items])


class OPT(T):
    def __init__(self, inner):
        self.inner = inner

    def fresh(self, name):
        return OptV(z3.Const(fresh_name(name + ".isnone"), z3.BoolSort()), self.inner.fresh(name))

    def shape(self):
        return OptShape(self.inner.shape())


def fresh_arrays(name, dom_sort, shape):
    return [
        z3.Const(fresh_name(f"{name}.a{i}"), z3.ArraySort(dom_sort, s))
        for i, s in enumerate(shape_sorts(shape))
    ]


class SEQ(T):
    def __init__(self, elem):
        self.elem = elem

    def fresh(self, name):
        sh = self.elem.shape()
        arrs = fresh_arrays(name, z3.IntSort(), sh)
        return SeqV(sh, arrs if len(arrs) > 1 else arrs[0], z3.Const(fresh_name(name + ".len"), z3.IntSort()))

    def shape(self):
        from .values import SeqShape

        return SeqShape(self.elem.shape())


class SET(T):
    def __init__(self, elem):
        self.elem = elem

    def fresh(self, name):
        sh = self.elem.shape()
        (s,) = shape_sorts(sh)
        return SetV(sh, z3.Const(fresh_name(name), z3.ArraySort(s, z3.BoolSort())))

    def shape(self):
        from .values import SetShape

        return SetShape(self.elem.shape())


class MAP(T):
    def __init__(self, key, val, ordered=True):
        self.key, self.val, self.ordered = key, val, ordered

    def fresh(self, name):
        ks, vs = self.key.shape(), self.val.shape()
        (k,) = shape_sorts(ks)
        dom = z3.Const(fresh_name(name + ".dom"), z3.ArraySort(k, z3.BoolSort()))
        vals = fresh_arrays(name + ".val", k, vs)
        keys = SEQ(self.key).fresh(name + ".keys") if self.ordered else None
        return MapV(ks, vs, dom, vals if len(vals) > 1 else vals[0], keys)

    def shape(self):
        from .values import MapShape

        return MapShape(self.key.shape(), self.val.shape(), ordered=self.ordered)


class CONST(T):
    """A parameter that is fixed to a Python constant (e.g. a mode flag) for the
    contract instance being verified."""

    def __init__(self, value):
        self.value = value

    def fresh(self, name):
        from .values import lift

        return lift(self.value)


class NDARRAY(SEQ):
    """1-D numpy array, modelled as a sequence (elementwise arithmetic with scalars allowed)."""

    def fresh(self, name):
        r = super().fresh(name)
        r.is_ndarray = True
        return r
