"""setup_cmd: offline; verifies the tool chain the checks need and runs the engine self-test."""
import os, shutil, subprocess, sys


def setup():
    ok = True
    try:
        import z3

        print("z3 python wheel", z3.get_version_string())
    except Exception as e:
        print("z3 wheel missing:", e)
        ok = False
    for tool in ("/usr/bin/cvc5", "/usr/bin/z3", "/venv/bin/python"):
        print(tool, "present" if os.path.exists(tool) else "MISSING")
        ok &= os.path.exists(tool)
    print("lean", shutil.which("lean"))
    from vf.selftest import selftest

    ok &= selftest()
    os.makedirs(os.path.join(os.path.dirname(os.path.dirname(os.path.abspath(__file__))), "build"), exist_ok=True)
    return 0 if ok else 1
