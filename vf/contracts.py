"""Contract DSL: sidecar contracts on real functions of /repo.

A contract is a Python function `def contract(c: FnCtx)` that declares, in order,
arguments (`c.arg`), preconditions (`c.pre`), the frame (`c.modifies`), the result
(`c.result`), postconditions (`c.post`), allowed exceptions (`c.raises`) and loop
invariants (`c.invariant`).  The same contract function is run in two modes:

  verify : arguments are fresh symbols, preconditions are assumed, the real body is
           executed symbolically and each postcondition becomes an obligation at
           every return;
  call   : arguments are the actuals of a call site, preconditions become
           obligations of the caller, the frame is havocked, the result is a fresh
           symbol and postconditions are assumed.
"""
from __future__ import annotations
import ast
import z3
from . import values as V
from .values import (
    Unsupported, NONE, StrV, Tup, OptV, SeqV, SetV, MapV, ObjV, FnV, is_z3, lift, to_num, to_real,
    fresh_name, Ref, coerce,
)
from . import types as T

_MISSING = object()


class NotThisSpec(Exception):
    pass

DEFAULT_DROPS = ["logging", "print", "pbar.update", "pbar.close", "messages.append", "warnings.warn"]


class Theory:
    """Uninterpreted functions shared by all VCs of a property (sum over ranges ...)."""

    def __init__(self):
        IA = z3.ArraySort(z3.IntSort(), z3.IntSort())
        RA = z3.ArraySort(z3.IntSort(), z3.RealSort())
        self.sum_int = z3.Function("sum_int", IA, z3.IntSort(), z3.IntSort(), z3.IntSort())
        self.sum_real = z3.Function("sum_real", RA, z3.IntSort(), z3.IntSort(), z3.RealSort())
        self.prod_int = z3.Function("prod_int", IA, z3.IntSort(), z3.IntSort(), z3.IntSort())
        # Nonlinear integer operations as uninterpreted symbols (used when a property sets
        # abstract_nl): function VCs then need only linear arithmetic + E-matching, and every
        # arithmetic fact comes from a lemma that is proved separately with the symbols
        # interpreted (see interp_axioms).
        I2 = (z3.IntSort(), z3.IntSort(), z3.IntSort())
        self.umul = z3.Function("umul", *I2)
        self.udiv = z3.Function("udiv", *I2)
        self.umod = z3.Function("umod", *I2)
        self.ucdiv = z3.Function("ucdiv", *I2)

        # Opaque ("dynamic") Python values: items of a tuple-like value, pairs, boxed ints and
        # application of an opaque callable to opaque argument packs.
        Vl = V.Val
        self.item = z3.Function("val_item", Vl, z3.IntSort(), Vl)
        self.pack2 = z3.Function("val_pack2", Vl, Vl, Vl)
        self.pack3 = z3.Function("val_pack3", Vl, Vl, Vl, Vl)
        self.box_int = z3.Function("val_box_int", z3.IntSort(), Vl)
        self.unbox_int = z3.Function("val_unbox_int", Vl, z3.IntSort())
        self.apply = z3.Function("val_apply", Vl, Vl, Vl, Vl)
        self.nokw = z3.Const("val_no_kwargs", Vl)
        # opaque strings: concatenation of opaque values; string constants as opaque values
        self.str_concat = z3.Function("val_str_concat", Vl, Vl, Vl)
        self._str_consts = {}
        self._isinst = {}
        # a tuple of opaque values as an opaque value: a function of its items (equal items, equal tuple)
        VA = z3.ArraySort(z3.IntSort(), Vl)
        self.val_tuple = z3.Function("val_tuple", VA, z3.IntSort(), Vl)
        self._tuple_diff = z3.Function("val_tuple_diff", VA, VA, z3.IntSort(), z3.IntSort())

    def str_const(self, s):
        """The opaque value standing for the string constant `s`."""
        if s not in self._str_consts:
            self._str_consts[s] = z3.Const(f"strval:{s}", V.Val)
        return self._str_consts[s]

    def val_isinstance(self, clsname):
        """isinstance(<opaque value>, cls): an uninterpreted predicate per class name."""
        if clsname not in self._isinst:
            self._isinst[clsname] = z3.Function(f"val_isinstance.{clsname}", V.Val, z3.BoolSort())
        return self._isinst[clsname]

    def dyn_axioms(self):
        a, b, c = z3.Consts("da db dc", V.Val)
        n = z3.Int("dn")
        return [
            z3.ForAll([a, b], z3.And(self.item(self.pack2(a, b), 0) == a, self.item(self.pack2(a, b), 1) == b), patterns=[self.pack2(a, b)]),
            z3.ForAll([a, b, c], z3.And(self.item(self.pack3(a, b, c), 0) == a, self.item(self.pack3(a, b, c), 1) == b, self.item(self.pack3(a, b, c), 2) == c), patterns=[self.pack3(a, b, c)]),
            z3.ForAll([n], self.unbox_int(self.box_int(n)) == n, patterns=[self.box_int(n)]),
            self._tuple_ext(),
        ]

    def _tuple_ext(self):
        VA = z3.ArraySort(z3.IntSort(), V.Val)
        a, b = z3.Consts("ta tb", VA)
        n = z3.Int("tn")
        d = self._tuple_diff(a, b, n)
        return z3.ForAll([a, b, n], z3.Or(self.val_tuple(a, n) == self.val_tuple(b, n), z3.And(d >= 0, d < n, z3.Select(a, d) != z3.Select(b, d))),
                         patterns=[z3.MultiPattern(self.val_tuple(a, n), self.val_tuple(b, n))])

    @staticmethod
    def _num(t):
        return isinstance(t, z3.IntNumRef)

    def mul(self, x, y, abstract):
        if abstract and x.is_int() and y.is_int() and not self._num(x) and not self._num(y):
            return self.umul(x, y)
        return x * y

    def div(self, x, y, abstract):
        return self.udiv(x, y) if abstract and not self._num(y) else x / y

    def mod(self, x, y, abstract):
        return self.umod(x, y) if abstract and not self._num(y) else x % y

    def cdiv(self, x, y, abstract):
        return self.ucdiv(x, y) if abstract and not self._num(y) else -((-x) / y)

    def interp_axioms(self):
        """Definitions of the abstracted operations (given to lemma VCs only)."""
        a, b = z3.Ints("ia ib")
        return [
            z3.ForAll([a, b], self.umul(a, b) == a * b, patterns=[self.umul(a, b)]),
            z3.ForAll([a, b], self.udiv(a, b) == a / b, patterns=[self.udiv(a, b)]),
            z3.ForAll([a, b], self.umod(a, b) == a % b, patterns=[self.umod(a, b)]),
            z3.ForAll([a, b], self.ucdiv(a, b) == -((-a) / b), patterns=[self.ucdiv(a, b)]),
        ]


class FnSpec:
    def __init__(self, relfile, qualname, fn, label=None, trusted=False, external=False, cls=None, name=None, why_trusted=None, hints=None, modifies=None, inout=None):
        self.static_inout = inout  # names of the parameters the function mutates in place for its caller (see FnCtx.inout)
        self.static_modifies = modifies  # heap fields the function may modify, declared statically (None: unknown)
        self.relfile, self.qualname, self.fn, self.label = relfile, qualname, fn, label
        self.hints = hints  # names of the lemmas whose closed forms this function's VCs may use (None: all)
        self.slice = None  # (start anchor, end anchor): verify only that statement range
        self.slice_allows_return = False
        self.allow_varargs = False
        self.trusted, self.external, self.why_trusted = trusted, external, why_trusted
        self.name = name or qualname.split(".")[-1]
        parts = qualname.split(".")
        self.cls = cls if cls is not None else (parts[-2] if len(parts) > 1 and parts[-2][:1].isupper() else None)

    def is_static(self):
        """@staticmethod on the real definition (read from the source)."""
        if self.external:
            return False
        if not hasattr(self, "_static"):
            from .engine import load_module, find_def, decorator_names

            tree, _ = load_module(self.relfile)
            self._static = "staticmethod" in decorator_names(find_def(tree, self.qualname))
        return self._static

    @property
    def ident(self):
        return f"{self.relfile}:{self.qualname}" + (f"[{self.label}]" if self.label else "")


class Lemma:
    def __init__(self, name, build, lean=None, uses=()):
        self.name, self.build, self.lean, self.uses = name, build, lean, uses


class Property:
    def __init__(self, pid, title=""):
        self.id, self.title = pid, title
        self.specs: list[FnSpec] = []
        self.fields = {}  # attribute name -> type descriptor
        self.records = {}  # class name -> list of field names (dataclass-like constructors)
        self.class_consts = {}  # (class, attr) -> python constant
        self.class_parents = {}  # class -> list of parents
        self.globals = {}
        self.inline = set()
        self.classes = set()
        self.drop_calls = list(DEFAULT_DROPS)
        self.assert_mode = "raise"
        self.truthy_objects = True
        self.abstract_nl = False
        self.hints = []  # (name, formula, lean_name)
        self.lemmas: list[Lemma] = []
        self.theory = Theory()
        for i, ax in enumerate(self.theory.dyn_axioms()):
            self.hints.append((f"def.dyn.{i}", ax, None))
        self._str_elems = {}
        self.assumptions = []
        self.eq_override = set()
        self.ndarray_fields = set()  # heap fields holding 1-D numpy arrays (elementwise == with a scalar)
        self.alloc0 = z3.Function("allocated0", Ref, z3.BoolSort())
        self.class_tag = z3.Function("class_of", Ref, z3.IntSort())
        self._class_ids = {}
        self.closed_named = {}  # "<lemma>.<step>" -> closed formula proven by that lemma VC
        self.record_defaults = {}
        self.field_owners = {}  # field -> classes that have it (for hasattr); absent: every class
        self.exc_parents = {}  # exception class -> base classes (for except clauses)
        self.by_name_lists = set()  # element classes whose lists are EvalableLists (lookup by .name)
        self.oracle = None  # module name under /verif/oracles
        self.mutants = []

    # --- registration -------------------------------------------------------------
    def fn(self, relfile, qualname, allow_varargs=False, **kw):
        def deco(f):
            s = FnSpec(relfile, qualname, f, **kw)
            s.allow_varargs = allow_varargs  # *args / **kwargs parameters: verified for empty extras
            self.specs.append(s)
            return f

        return deco

    def slice(self, relfile, qualname, label, start, end, allows_return=False, **kw):
        """Contract on a statement range of a (large) function.  The range is located on every
        run by source anchors; the contract's c.var(...) declarations are the variables live
        at its entry (their assumed properties are the slice's precondition), postconditions
        receive the variables at its end (res["name"]).  A slice is never called."""

        def deco(f):
            s = FnSpec(relfile, qualname, f, label=label, **kw)
            s.slice = (start, end)
            s.slice_allows_return = allows_return
            s.name = f"{qualname}#{label}"  # not callable by name
            self.specs.append(s)
            return f

        return deco

    def external(self, name, why, cls=None, modifies=None):
        """Assumed contract of a function outside the verified code (numpy, joblib ...)."""

        def deco(f):
            self.specs.append(FnSpec("<external>", name, f, trusted=True, external=True, cls=cls, why_trusted=why, name=name, modifies=modifies))
            return f

        return deco

    def field(self, name, typ):
        self.fields[name] = typ

    def record(self, cls, fields, defaults=None):
        """A class whose constructor just stores its keyword arguments (pydantic model /
        dataclass); `defaults`: field -> value (or callable(ex) -> value) for omitted ones."""
        self.records[cls] = list(fields)
        self.record_defaults[cls] = dict(defaults or {})
        self.classes.add(cls)

    def hint(self, name, formula, lean=None):
        self.hints.append((name, formula, lean))

    def lemma(self, name, lean=None, uses=()):
        def deco(f):
            self.lemmas.append(Lemma(name, f, lean, uses))
            return f

        return deco

    def class_has_field(self, cls, field):
        owners = self.field_owners.get(field)
        if owners is None or cls is None:
            return True
        return any(cls in self.subclasses(o) for o in owners)

    def lemma_instance(self, key, *terms):
        """Instance of the closed lemma proven under `key` ("<lemma>.<step name>")."""
        from .lemma import LemmaCtx

        if key not in self.closed_named:
            raise KeyError(f"no proven lemma step named {key}; have {sorted(self.closed_named)}")
        return LemmaCtx.instance(self.closed_named[key], *terms)

    def generic_seq_mem(self, sort):
        """The definition of `x in seq` (engine atom seq_mem(arr, n, x), witness function) for EVERY array
        and length of this element sort, as quantified hints.  (The engine otherwise states it per concrete
        sequence; contracts that quantify over sequences -- e.g. `the tensors of the q-th node` -- need it
        in general form.)  It is a definition: seq_mem occurs nowhere else with another meaning."""
        A = z3.ArraySort(z3.IntSort(), sort)
        f = z3.Function(f"seq_mem.{sort}", A, z3.IntSort(), sort, z3.BoolSort())
        w = z3.Function(f"seq_mem.witness.{sort}", A, z3.IntSort(), sort, z3.IntSort())
        a = z3.Const("gm_a", A)
        n, j = z3.Ints("gm_n gm_j")
        y = z3.Const("gm_y", sort)
        self.hint(f"def.seq_mem.{sort}.witness", z3.ForAll([a, n, y], z3.Implies(f(a, n, y), z3.And(w(a, n, y) >= 0, w(a, n, y) < n, z3.Select(a, w(a, n, y)) == y)), patterns=[f(a, n, y)]))
        self.hint(f"def.seq_mem.{sort}.member", z3.ForAll([a, n, j, y], z3.Implies(z3.And(j >= 0, j < n), f(a, n, z3.Select(a, j))), patterns=[z3.MultiPattern(z3.Select(a, j), f(a, n, y))]))

    def assume_note(self, text):
        if text not in self.assumptions:
            self.assumptions.append(text)

    # --- lookup -------------------------------------------------------------------
    def lookup_callee(self, name, relfile):
        callable_ = [s for s in self.specs if s.slice is None]  # a slice (statement range) is never called
        cands = [s for s in callable_ if (s.qualname == name or s.name == name) and s.cls is None]
        if not cands:
            cands = [s for s in callable_ if s.qualname == name]
        same = [s for s in cands if s.relfile == relfile]
        cands = same or cands
        return cands[0] if cands else None

    def lookup_method(self, cls, name, relfile):
        seen = set()
        order = [cls]
        while order:
            k = order.pop(0)
            if k in seen:
                continue
            seen.add(k)
            for s in self.specs:
                if s.name == name and s.cls == k:
                    return s
            order += self.class_parents.get(k, [])
        cands = [s for s in self.specs if s.name == name and (cls is None or s.cls is None)]
        return cands[0] if cands else None

    def elem_of_str(self, s):
        return V.str_elem(s)

    def distinct_axioms(self):
        out = []
        es = list(V.STR_ELEMS.values())
        if len(es) > 1:
            out.append(z3.Distinct(*es))
        return out

    def pre_allocated(self, r):
        return self.alloc0(r)

    def has_eq_override(self, cls):
        return cls in self.eq_override

    def class_id(self, name):
        if name not in self._class_ids:
            self._class_ids[name] = len(self._class_ids) + 1
        return self._class_ids[name]

    def subclasses(self, name):
        out = {name}
        changed = True
        while changed:
            changed = False
            for c, ps in self.class_parents.items():
                if c not in out and any(p in out for p in ps):
                    out.add(c)
                    changed = True
        return out

    def isinstance_formula(self, ex, x, names):
        x = lift(x)
        if isinstance(x, OptV):
            return z3.And(z3.Not(x.isnone), self.isinstance_formula(ex, x.val, names))
        if isinstance(x, ObjV):
            subs = set()
            for n in names:
                subs |= self.subclasses(n)
            if x.cls is not None and x.cls != "?":
                # statically known class
                return z3.BoolVal(x.cls in subs)
            return z3.Or(*[self.class_tag(x.ref) == self.class_id(s) for s in sorted(subs)])
        pyname = {"dict": MapV, "list": SeqV, "tuple": Tup, "set": SetV, "str": StrV}
        for n in names:
            if n in pyname and isinstance(x, pyname[n]):
                return z3.BoolVal(True)
        if is_z3(x) and x.sort() == V.Val:
            # an opaque value: its class is not known statically
            return z3.Or(*[self.theory.val_isinstance(n)(x) for n in names])
        if is_z3(x):
            if "int" in names and V.is_int(x):
                return z3.BoolVal(True)
            if "float" in names and V.is_real(x):
                return z3.BoolVal(True)
            if "bool" in names and V.is_bool(x):
                return z3.BoolVal(True)
        return z3.BoolVal(False)


class FnCtx:
    def __init__(self, prop, spec, mode, ex=None, actuals=None, node=None):
        self.prop, self.spec, self.mode, self.ex, self.node = prop, spec, mode, ex, node
        self.actuals = actuals
        self.reset()

    def reset(self):
        self.args = {}
        self.arg_order = []
        self.posts = []
        self.exc_rules = {}
        self.invariants = {}
        self.variants = {}
        self.locals = {}
        self.globals = {}
        self.modifies_fields = set()
        self.result_type = None
        self.res = None
        self.pre_names = []
        self.decreases_term = None
        self._bound = None
        self.frame_rules = []
        self.free_vars = {}
        self.yield_type = None
        self.mutated_params = set()
        self.call_exceptions = []
        self._inout_targets = []

    # ---------------------------------------------------------------- signature
    def _signature(self):
        """(param names, defaults as AST) from the real source when available."""
        if self.spec.external:
            return None
        from .engine import load_module, find_def

        tree, _ = load_module(self.spec.relfile)
        f = find_def(tree, self.spec.qualname)
        a = f.args
        params = [p.arg for p in a.posonlyargs + a.args]
        defaults = dict(zip(params[len(params) - len(a.defaults):], a.defaults))
        for p, d in zip(a.kwonlyargs, a.kw_defaults):
            params.append(p.arg)
            if d is not None:
                defaults[p.arg] = d
        npos = len(a.posonlyargs + a.args)
        return params, defaults, npos

    def _bind_actuals(self):
        args, kwargs = self.actuals
        sig = self._signature()
        bound = {}
        if sig is None:
            self._positional = list(args)
            bound.update(kwargs)
            return bound
        params, defaults, npos = sig
        if len(args) > npos:
            raise Unsupported(f"too many positional args for {self.spec.qualname}")
        for p, v in zip(params, args):
            bound[p] = v
        for k, v in kwargs.items():
            if k not in params:
                raise Unsupported(f"unexpected keyword {k} for {self.spec.qualname}")
            bound[k] = v
        for p in params:
            if p not in bound and p in defaults:
                try:
                    bound[p] = lift(ast.literal_eval(defaults[p]))
                except Exception:
                    pass
        self._positional = None
        return bound

    # ---------------------------------------------------------------- declarations
    def arg(self, name, typ, default=_MISSING):
        if self.mode == "verify":
            v = typ.fresh(name)
            for ax in wf_axioms(v):
                self.ex.assume(ax)
            if isinstance(v, ObjV):
                self.ex.assume(self.prop.alloc0(v.ref))
                self.ex.assume(v.ref != V.NULL)
            if self.spec.slice is not None:
                pass  # live-in variables of a statement range: locals of the enclosing function
            elif isinstance(v, (MapV, SeqV, SetV)):
                v.owner = name  # the caller's container (see Exec.note_mutation / mutates)
                self.ex.owned_values[name] = v
            elif isinstance(v, OptV) and isinstance(v.val, (MapV, SeqV, SetV)):
                v.val.owner = name
                self.ex.owned_values[name] = v.val
        else:
            if self._bound is None:
                self._bound = self._bind_actuals()
            if self._positional is not None and len(self.arg_order) < len(self._positional):
                v = self._positional[len(self.arg_order)]
            elif name in self._bound:
                v = self._bound[name]
            elif default is not _MISSING:
                v = lift(default)
            else:
                raise Unsupported(f"call of {self.spec.qualname}: no value for parameter {name}")
            v = self._conform(v, typ, name)
        self.args[name] = v
        self.arg_order.append(name)
        return v

    def var(self, name, typ):
        """A variable live at the entry of a slice (fresh symbol)."""
        assert self.mode == "verify"
        return self.arg(name, typ)

    def _conform(self, v, typ, name):
        v = lift(v)
        if isinstance(typ, T._Scalar):
            if isinstance(v, V.QuotV):
                v = to_num(v)
            if isinstance(v, OptV):
                # a maybe-None value where the callee needs a plain one: must not be None here
                self.ex.oblige(f"{self.ex.qualname}/call.{self.spec.name}.arg.{name}.not_none@{self._line()}", z3.Not(v.isnone), "call-precondition")
                self.ex.assume(z3.Not(v.isnone))
                v = v.val
            if is_z3(v):
                return coerce(v, typ.sort)
            if isinstance(v, StrV) and typ.sort == V.Elem:
                return self.prop.elem_of_str(v.s)
            raise Unsupported(f"argument {name} of {self.spec.qualname}: expected scalar, got {type(v).__name__}")
        if isinstance(typ, T.CONST):
            return v
        if isinstance(typ, T.OPT):
            if v is NONE:
                return OptV(z3.BoolVal(True), typ.inner.fresh(name + ".none"))
            if isinstance(v, OptV):
                return v
            return OptV(z3.BoolVal(False), self._conform(v, typ.inner, name))
        if isinstance(typ, (T.SEQ, T.MAP, T.SET)) and isinstance(v, OptV):
            # a maybe-None value where the callee needs a container: must not be None here
            self.ex.oblige(f"{self.ex.qualname}/call.{self.spec.name}.arg.{name}.not_none@{self._line()}", z3.Not(v.isnone), "call-precondition")
            self.ex.assume(z3.Not(v.isnone))
            v = v.val
        if isinstance(typ, T.SEQ):
            from .engine import EmptySeq
            from .builtins import empty_seq

            from .engine import GenExp
            from .builtins import to_seq

            if isinstance(v, (GenExp, Tup)):
                v = to_seq(self.ex, v, self.node)  # a generator expression / tuple handed over as the iterable
            if isinstance(v, EmptySeq):
                return empty_seq(typ.elem.shape())
            if isinstance(v, SeqV):
                return self.ex.materialize(v)  # arrays given by lambdas get a name (usable in patterns)
        if isinstance(typ, T.MAP):
            from .engine import EmptyDict
            from .builtins import empty_map

            if isinstance(v, EmptyDict):
                return empty_map(typ.key.shape(), typ.val.shape(), typ.ordered)
        return v

    def ghost(self, name, sort, definition):
        """A ghost constant *defined* by `definition(g)` -- a formula that some value of g
        satisfies in every state (e.g. "g is the index of the element named E, or -1 if there
        is none").  It is assumed in both modes (it is a definition, not a requirement)."""
        g = z3.Const(fresh_name("ghost." + name), sort)
        self.ex.assume(definition(g))
        return g

    def applies(self, cond: bool):
        """In call mode: this contract covers the call only if `cond` (a Python bool computed
        from the actual arguments' shapes / constants); otherwise the next one is tried."""
        if self.mode == "call" and not cond:
            raise NotThisSpec()

    def free(self, name, typ):
        """A closure variable of a nested function under contract: a fresh symbol when the
        nested function is verified, the enclosing function's current value at a call."""
        if self.mode == "verify":
            v = typ.fresh(name)
            for ax in wf_axioms(v):
                self.ex.assume(ax)
            self.free_vars[name] = v
        else:
            try:
                v = self._conform(self.ex.env.get(name), typ, name)
            except KeyError:
                raise Unsupported(f"closure variable {name} of {self.spec.qualname} is not bound at the call")
        return v

    def yields(self, typ):
        """The function is a generator; its result (for postconditions and callers) is the
        sequence of yielded values, of this SEQ type."""
        self.yield_type = typ.elem
        return self.result(typ)

    def result_is(self, value):
        """The result is this term of the arguments (for pure, assumed externals: gives the
        result functional dependence on the arguments, needed inside comprehensions)."""
        self.result_type = None
        if self.mode == "call":
            self.res = value
        return value

    def local(self, name, typ):
        """Declared type of a local container so that `[]`, `set()`, `{}` get a sort."""
        self.locals[name] = typ

    def glob(self, name, value):
        self.globals[name] = value

    def pre(self, name, formula):
        if self.mode == "verify":
            self.ex.assume(formula)
            self.pre_names.append(name)
        else:
            ex = self.ex
            ex.oblige(f"{ex.qualname}/call.{self.spec.name}.pre.{name}@{self._line()}", formula, "call-precondition", getattr(self.node, "lineno", None))
            ex.assume(formula)

    def _line(self):
        ln = getattr(self.node, "lineno", None)
        return (ln - self.ex.fnode.lineno) if ln is not None else "?"

    def modifies(self, *fields):
        self.modifies_fields.update(fields)
        if self.mode == "call":
            self._old_heap = dict(self.ex.heap)
            for f in fields:
                self.ex.havoc_field(f, "call." + self.spec.name)

    def mutates(self, *names):
        """The function mutates these (container) parameters in place.  At a call the caller must
        own what it passes: handing over a container that is itself a parameter of the calling
        function is allowed only if that function declares the mutation too."""
        self.mutated_params.update(names)
        if self.mode == "call":
            for nm in names:
                v = self.args.get(nm)
                owner = getattr(v, "owner", None)
                if owner is not None and owner not in self.ex.fctx.mutated_params:
                    self.ex.oblige(f"{self.ex.qualname}/frame.parameter_{owner}_is_not_mutated@{self._line()}", z3.BoolVal(False), "frame", getattr(self.node, "lineno", None))

    def inout(self, name, typ):
        """The (container) parameter `name` is mutated in place and the caller keeps using it: at a call
        the variable the caller passed is re-bound to a fresh final value (returned here, to be described
        by postconditions); when verifying, the final value is the parameter variable at the return
        (`c.final(name)` inside postconditions)."""
        self.mutated_params.add(name)
        if self.mode != "call":
            return None
        new = typ.fresh(self.spec.name + "." + name + ".final")
        for ax in wf_axioms(new):
            self.ex.assume(ax)
        self._inout_targets.append((name, new))
        return new

    def final(self, name):
        """The caller's container handed in as parameter `name`, as it is at the return (verify mode): the
        last value that still IS the caller's object -- not whatever the parameter NAME is bound to then
        (`p = list(p)` re-binds the name to a private copy; later mutations of that copy are not seen by
        the caller)."""
        return self.ex.owned_values[name]

    def result(self, typ):
        self.result_type = typ
        if self.mode == "call":
            self.res = typ.fresh(self.spec.name + ".ret")
            for ax in wf_axioms(self.res):
                self.ex.assume(ax)
            return self.res
        return None

    def post(self, name, fn):
        if self.mode == "verify":
            self.posts.append((name, fn))
        else:
            self.ex.assume(fn(self.res))

    def raises(self, exc, when=None, name=None, at_call=False):
        """Exception `exc` may propagate; if `when` is given it must hold where raised.
        at_call=True: callers see this outcome too -- at a call site the path splits into the normal
        return (postconditions assumed) and `raise exc` (with `when` assumed); without it a call is
        modelled by its normal return only."""
        self.exc_rules[exc] = (when, name or exc)
        if at_call and self.mode == "call":
            self.call_exceptions.append((exc, when))

    def invariant(self, lid, fn):
        self.invariants[lid] = fn

    def variant(self, lid, fn):
        self.variants[lid] = fn

    def decreases(self, term):
        """Recursion variant (a non-negative integer term of the arguments)."""
        self.decreases_term = term
        if self.mode == "call" and self.ex.fctx.spec is self.spec:
            outer = self.ex.fctx.decreases_term
            if outer is not None:
                self.ex.oblige(f"{self.ex.qualname}/recursion.variant@{self._line()}", z3.And(term >= 0, term < outer), "variant")

    def use(self, lemma_key, *terms):
        """Lemma call: the instance at `terms` (terms over the arguments) of the closed
        lemma step proven under `lemma_key` is available while verifying this function."""
        if self.mode == "verify":
            self.ex.assume(self.prop.lemma_instance(lemma_key, *terms))

    def mark(self, atom):
        """Assume an instantiation guard `mark...(terms)`.  Guard predicates are uninterpreted,
        occur in lemmas only as hypotheses and nowhere in contracts, so every model can
        interpret them as `true`: assuming the atom adds no logical content; it only gives
        the guarded lemmas a term to match."""
        assert z3.is_app(atom) and atom.decl().kind() == z3.Z3_OP_UNINTERPRETED and atom.decl().name().startswith("mark") and z3.is_bool(atom)
        if self.mode == "verify":
            self.ex.assume(atom)

    def known_class(self, class_id, formula):
        """Input class of a recorded known finding (see /verif/known_findings.json): the
        obligations that the entry names are checked with `not formula` as an extra
        hypothesis while the entry is open."""
        if self.mode == "verify":
            if not hasattr(self.ex, "finding_classes"):
                self.ex.finding_classes = {}
            self.ex.finding_classes[class_id] = formula

    # ---------------------------------------------------------------- heap helpers
    def field(self, obj, name):
        return self.ex.read_field(obj, name)

    def old(self, obj, name):
        heap = self._old_heap if self.mode == "call" else self.ex.heap0_view()
        return self.ex.read_field(obj, name, heap=heap)

    def only_changes(self, field, objs, name=None):
        """Frame: `field` changes at most on the listed objects."""
        refs = [o.ref for o in objs]

        def rule(_res=None):
            r = z3.Const(fresh_name("fr"), Ref)
            cur = self.ex.heap_arrays(field)
            old = self.ex.heap_arrays(field, heap=(self._old_heap if self.mode == "call" else self.ex.heap0_view()))
            same = z3.And(*[z3.Select(a, r) == z3.Select(b, r) for a, b in zip(cur, old)])
            return z3.ForAll([r], z3.Implies(z3.And(*[r != x for x in refs]) if refs else z3.BoolVal(True), same))

        self.post(name or f"frame.{field}", rule)

    # ---------------------------------------------------------------- running
    def run_call(self):
        from .engine import RaiseEx

        nh = len(self.ex.hyps)
        self.spec.fn(self)
        if self.call_exceptions:
            # outcomes of the call: 0 = normal return, k = the k-th declared exception.  The facts
            # assumed for the normal return (postconditions) do not hold on an exceptional path.
            k = self.ex.choose(1 + len(self.call_exceptions))
            if k > 0:
                exc, when = self.call_exceptions[k - 1]
                del self.ex.hyps[nh:]
                if when is not None:
                    self.ex.assume(when())
                self.ex.prune_if_infeasible()
                raise RaiseEx(exc, getattr(self.node, "lineno", 0))
        # in-out parameters: re-bind the caller's variable to the final value
        for name, new in self._inout_targets:
            node = self.node
            argn = None
            sig = self._signature()
            if sig is not None and node is not None:
                params = sig[0]
                recv_off = 1 if (isinstance(node.func, ast.Attribute) and params and params[0] == "self") else 0
                if name in params:
                    pos = params.index(name) - recv_off
                    if 0 <= pos < len(node.args):
                        argn = node.args[pos]
                for kw in node.keywords:
                    if kw.arg == name:
                        argn = kw.value
            if isinstance(argn, ast.Name):
                cur = self.ex.env.get(argn.id)
                self.ex.note_mutation(cur.val if isinstance(cur, OptV) else cur, new)
                self.ex.env.mutate(argn.id, new)
            elif argn is not None and not isinstance(argn, ast.Call):
                raise Unsupported(f"in-out argument {name} of {self.spec.qualname} is not a plain variable or a fresh value")
        return self.res if self.res is not None else NONE


def wf_axioms(v):
    out = []
    if isinstance(v, SeqV):
        out.append(v.n >= 0)
    elif isinstance(v, MapV):
        if v.keys is not None:
            out += map_wf(v)
    elif isinstance(v, Tup):
        for x in v.items:
            out += wf_axioms(x)
    elif isinstance(v, OptV):
        out += wf_axioms(v.val)
    return out


def map_wf(m):
    """keys sequence is duplicate-free and enumerates exactly the domain."""
    keys = m.keys
    (ka,) = V.arrs_of(keys)
    ks = ka.sort().range()
    i, j = z3.Ints(f"{fresh_name('i')} {fresh_name('j')}")
    x = z3.Const(fresh_name("x"), ks)
    idx = z3.Function(fresh_name("keyidx"), ks, z3.IntSort())
    return [
        keys.n >= 0,
        z3.ForAll([i], z3.Implies(z3.And(i >= 0, i < keys.n), z3.And(z3.Select(m.dom, z3.Select(ka, i)), idx(z3.Select(ka, i)) == i)), patterns=[z3.Select(ka, i)]),
        z3.ForAll([x], z3.Implies(z3.Select(m.dom, x), z3.And(idx(x) >= 0, idx(x) < keys.n, z3.Select(ka, idx(x)) == x)), patterns=[z3.Select(m.dom, x)]),
    ]
