"""Re-run a recorded violation against the real code: `python3-vt -m vf replay <file>`."""
import json, sys
from .check import run_oracle


def replay(path):
    rec = json.load(open(path))
    pid = rec["property"]
    print(f"property {pid}, obligation {rec.get('obligation')}, solver verdict {rec.get('solver_result')} ({rec.get('why')})")
    if rec.get("oracle", {}).get("input") is not None:
        print("recorded failing input:", json.dumps(rec["oracle"]["input"], default=str)[:2000])
    res = run_oracle(pid, "replay", {"obligation": rec.get("obligation", ""), "model": rec.get("model") or rec.get("candidate_model"), "seed": 0, "known": []})
    print("replay on the current tree:", json.dumps(res, default=str)[:3000])
    return 1 if res.get("failed") else 0
