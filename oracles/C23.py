"""Bounded run-time contract check for C23: concise Einsum notation == verbose form.

Real code exercised: accelforge.frontend.workload._parse_einsum_string / _parse_projection /
_parse_einsum_entry / _projection_factory through `Workload(einsums=[...])`, `Workload.from_yaml`
and `_parse_einsum_string` directly.  Nothing of the parser is re-implemented to produce the
*observed* side; the *required* side comes from the generated structure (and from the real verbose
API), and a small independent recogniser of the documented grammar classifies mutants.
"""
import copy, itertools, json, os, random, re, shutil, tempfile

# ----------------------------------------------------------------------------- family
VARS = ["m", "n", "k", "p", "b", "h0", "mc"]
TENSORS = ["A", "B", "W", "I_in", "T1", "QK_softmax", "x", "_t", "WV", "Z", "Out2"]
RANKNAMES = ["X", "Row", "P2", "H", "M", "N_out", "Kk", "E"]
EXPRS = [  # token templates; a, b, c are replaced by rank variables
    ["a", "+", "b"],
    ["2", "*", "a", "+", "b"],
    ["a", "*", "16", "+", "b"],
    ["a", "+", "b", "+", "c"],
    ["a", "-", "b"],
    ["3", "*", "a"],
    ["a", "+", "1"],
]
WS_PATTERNS = ["none", "canon", "wide", "tabs", "random"]


def _entry_bare(v):
    return {"kind": "bare", "rank": v.upper(), "toks": [v]}


def _entry_explicit(rank, toks):
    return {"kind": "explicit", "rank": rank, "toks": list(toks)}


def _expr_toks(tmpl, vs):
    sub = dict(zip("abc", vs))
    return [sub.get(t, t) for t in tmpl]


def _random_entry(rnd, used):
    """one projection entry whose rank name is not in `used` (duplicated ranks are excluded)"""
    for _ in range(50):
        r = rnd.random()
        v = rnd.choice(VARS)
        if r < 0.45:
            e = _entry_bare(v)
        elif r < 0.6:
            e = _entry_explicit(v.upper(), [v])
        elif r < 0.75:
            e = _entry_explicit(rnd.choice(RANKNAMES), [v])
        else:
            vs = rnd.sample(VARS, 3)
            e = _entry_explicit(rnd.choice(RANKNAMES + [v.upper()]), _expr_toks(rnd.choice(EXPRS), vs))
        if e["rank"] not in used:
            return e
    for v in VARS:
        if v.upper() not in used:
            return _entry_bare(v)
    raise AssertionError("rank pool exhausted")


def _random_einsum(rnd, max_in, max_ranks):
    n_in = rnd.randint(1, max_in)
    names = rnd.sample(TENSORS, n_in + 1)
    tensors = []
    for nm in names:
        used, ents = set(), []
        for _ in range(rnd.randint(1, max_ranks)):
            e = _random_entry(rnd, used)
            used.add(e["rank"])
            ents.append(e)
        tensors.append({"name": nm, "entries": ents})
    # tensors[0] is the output, the rest are the inputs in order
    return {"out": tensors[0], "ins": tensors[1:]}


CORE_ENTRIES = [
    _entry_bare("m"),
    _entry_bare("n"),
    _entry_explicit("M", ["m"]),
    _entry_explicit("N", ["m"]),
    _entry_explicit("X", ["m", "+", "n"]),
    _entry_explicit("Y", ["2", "*", "m", "+", "n"]),
]


def _core_projections():
    out = [[e] for e in CORE_ENTRIES]
    for a, b in itertools.permutations(CORE_ENTRIES, 2):
        if a["rank"] != b["rank"]:
            out.append([a, b])
    return out


def _core_einsums():
    """exhaustive: one input; output and input each carry 1-2 entries of the 6-entry catalogue"""
    projs = _core_projections()
    for po in projs:
        for pi in projs:
            yield {"out": {"name": "C", "entries": po}, "ins": [{"name": "A", "entries": pi}]}


# ----------------------------------------------------------------------------- rendering
def _tokens(e):
    """[(text, tag)]; tensor index 0 = output, 1.. = inputs"""
    toks = []

    def tensor(t, ti):
        toks.append((t["name"], ("name", ti)))
        toks.append(("[", ("lbr", ti)))
        for j, en in enumerate(t["entries"]):
            if j:
                toks.append((",", ("comma", ti, j)))
            if en["kind"] == "bare":
                toks.append((en["toks"][0], ("bare", ti, j)))
            else:
                toks.append((en["rank"], ("rank", ti, j)))
                toks.append((":", ("colon", ti, j)))
                for x in en["toks"]:
                    toks.append((x, ("expr", ti, j)))
        toks.append(("]", ("rbr", ti)))

    tensor(e["out"], 0)
    toks.append(("=", ("eq",)))
    for i, t in enumerate(e["ins"]):
        if i:
            toks.append(("*", ("star", i)))
        tensor(t, i + 1)
    return toks


def _join(texts, pattern, rnd=None):
    if pattern == "none":
        return "".join(texts)
    if pattern == "wide":
        return "  " + "  ".join(texts) + "  "
    if pattern == "tabs":
        return "\t" + "\t".join(texts) + "\t"
    if pattern == "random":
        gaps = ["", "", " ", "  ", "\t", " \t", "\n "]
        s = rnd.choice(gaps)
        for t in texts:
            s += t + rnd.choice(gaps)
        return s
    # canon: the style of the docs: "C[m, N: n] = A[m] * B[n]"
    s, depth = "", 0
    for i, t in enumerate(texts):
        if t == "[":
            depth += 1
        if t == "]":
            depth -= 1
        s += t
        nxt = texts[i + 1] if i + 1 < len(texts) else None
        if nxt is None:
            break
        if t in (",", ":"):
            s += " "
        elif t == "=" or nxt == "=":
            s += " "
        elif depth == 0 and (t == "*" or nxt == "*"):
            s += " "
    return s


def _render(e, pattern, rnd=None):
    return _join([t for t, _ in _tokens(e)], pattern, rnd)


def _nows(s):
    return re.sub(r"\s+", "", str(s))


def _expected(e):
    """[[name, [[rank, expr]...], output]...] inputs in order, then the output (docs order)"""
    def proj(t):
        return [[en["rank"], "".join(en["toks"])] for en in t["entries"]]

    return [[t["name"], proj(t), False] for t in e["ins"]] + [[e["out"]["name"], proj(e["out"]), True]]


def _verbose_dict(e, spaced):
    """the verbose form the docs show: list projection when all entries are bare, dict otherwise;
    in the dict form a bare entry x is written X: x (x.upper() by the documented convention)."""
    def proj(t):
        if all(en["kind"] == "bare" for en in t["entries"]):
            return [en["toks"][0] for en in t["entries"]]
        sep = " " if spaced else ""
        return {en["rank"]: sep.join(en["toks"]) for en in t["entries"]}

    tas = [{"name": t["name"], "projection": proj(t)} for t in e["ins"]]
    tas.append({"name": e["out"]["name"], "projection": proj(e["out"]), "output": True})
    return {"name": e["out"]["name"], "tensor_accesses": tas}


# ----------------------------------------------------------------------------- views of real objects
def _view_obj(ein):
    return [[str(t.name), [[str(k), _nows(v)] for k, v in t.projection.items()], bool(t.output)] for t in ein.tensor_accesses]


def _view_parsed(d):
    return [[str(t["name"]), [[str(k), _nows(v)] for k, v in dict(t["projection"]).items()], bool(t["output"])] for t in d["tensor_accesses"]]


def _dump(ein):
    d = ein.model_dump()
    for t in d.get("tensor_accesses", []):
        t["projection"] = [[k, _nows(v)] for k, v in dict(t["projection"]).items()]
    return json.loads(json.dumps(d, default=str))


class _Fail(Exception):
    def __init__(self, case, observed, required, what):
        self.info = {"input": case, "observed": observed, "required": required, "what": what}


# ----------------------------------------------------------------------------- extras
def _extras(e):
    out, in0 = e["out"]["name"], e["ins"][0]["name"]
    rank0 = e["out"]["entries"][0]["rank"]
    var0 = [t for t in e["out"]["entries"][0]["toks"] if re.fullmatch(r"[a-z]\w*", t)][0]
    return [
        ("n_instances", {"n_instances": 3}, lambda c: c.n_instances == 3),
        ("is_copy_operation", {"is_copy_operation": True}, lambda c: c.is_copy_operation is True),
        ("renames", {"renames": {"input": in0, "output": out}},
         lambda c: [(str(r.name), str(r.source)) for r in c.renames] == [("input", in0), ("output", out)]),
        ("rank_sizes", {"rank_sizes": {rank0: 4}}, lambda c: dict(c.rank_sizes) == {rank0: 4}),
        ("iteration_space_shape", {"iteration_space_shape": [f"0 <= {var0} < 4"]},
         lambda c: list(c.iteration_space_shape) == [f"0 <= {var0} < 4"]),
        ("tensor_accesses", {"tensor_accesses": [{"name": in0, "bits_per_value": 16, "persistent": True}]},
         lambda c: [(t.bits_per_value, t.persistent) for t in c.tensor_accesses]
         == [(16, True)] + [(None, False)] * (len(c.tensor_accesses) - 1)),
    ]


def _verbose_with(vd, extra):
    vd = copy.deepcopy(vd)
    for k, v in copy.deepcopy(extra).items():
        if k == "tensor_accesses":
            for add in v:
                for t in vd["tensor_accesses"]:
                    if t["name"] == add["name"]:
                        t.update({a: b for a, b in add.items() if a != "name"})
        else:
            vd[k] = v
    return vd


# ----------------------------------------------------------------------------- strengthened family (histories, whitespace, multi-char variables)
VARS_MC = ["pq", "n_h", "kvLen", "p1q", "qK", "h_0", "mC2", "x_", "nH_kv", "aB", "m", "k"]  # shorthand variables with > 1 character, mixed case
WS_KINDS = [" ", "   ", "\t", "\n", "\r", "\r\n", "\n      ", " \t\r\n "]  # inserted at one / at every token boundary
TA_DEFAULTS = {"persistent": False, "bits_per_value": None, "backing_storage_size_scale": 1.0}  # documented field defaults of TensorAccess
EIN_DEFAULTS = {"n_instances": 1, "is_copy_operation": False, "rank_sizes": {}, "iteration_space_shape": [], "renames": []}
MIX_NAME = "Zz9"  # output / Einsum name of the second Einsum of two-Einsum workloads (not in TENSORS)


def _random_entry_mc(rnd, used, implied):
    """like _random_entry, over VARS_MC; the rank of a bare entry is `implied[v]`, read off the REAL verbose
    list-projection form (TensorAccess(projection=[v])), not computed by a rule of this file"""
    for _ in range(60):
        r = rnd.random()
        v = rnd.choice(VARS_MC)
        if r < 0.55:
            e = {"kind": "bare", "rank": implied[v], "toks": [v]}
        elif r < 0.7:
            e = _entry_explicit(implied[v], [v])
        elif r < 0.8:
            e = _entry_explicit(rnd.choice(RANKNAMES), [v])
        else:
            e = _entry_explicit(rnd.choice(RANKNAMES + [implied[v]]), _expr_toks(rnd.choice(EXPRS), rnd.sample(VARS_MC, 3)))
        if e["rank"] not in used:
            return e
    raise AssertionError("rank pool exhausted")


def _random_einsum_mc(rnd, max_in, max_ranks, implied):
    names = rnd.sample(TENSORS, rnd.randint(1, max_in) + 1)
    tensors = []
    for nm in names:
        used, ents = set(), []
        for _ in range(rnd.randint(1, max_ranks)):
            en = _random_entry_mc(rnd, used, implied)
            used.add(en["rank"])
            ents.append(en)
        tensors.append({"name": nm, "entries": ents})
    return {"out": tensors[0], "ins": tensors[1:]}


def _second_einsum(e):
    """an Einsum reading the same input tensors with the same projections, writing a new tensor MIX_NAME"""
    return {"out": {"name": MIX_NAME, "entries": copy.deepcopy(e["out"]["entries"])}, "ins": copy.deepcopy(e["ins"])}


def _random_ta_extras(rnd, e, avoid=None):
    """non-empty list of tensor_accesses extras ({name, persistent / bits_per_value / backing_storage_size_scale})"""
    names = [t["name"] for t in e["ins"]] + [e["out"]["name"]]
    for _ in range(50):
        out = []
        for nm in rnd.sample(names, rnd.randint(1, len(names))):
            d = {"name": nm}
            if rnd.random() < 0.5:
                d["persistent"] = True
            if rnd.random() < 0.6:
                d["bits_per_value"] = rnd.choice([4, 8, 16, 32])
            if rnd.random() < 0.4:
                d["backing_storage_size_scale"] = rnd.choice([0.5, 2.0, 4.0])
            if len(d) > 1:
                out.append(d)
        if out and out != avoid:
            return out
    return [{"name": names[0], "bits_per_value": 64}]


def _random_top_extras(rnd, e):
    rank0 = e["out"]["entries"][0]["rank"]
    pool = [{}, {}, {"n_instances": rnd.choice([2, 3, 5])}, {"is_copy_operation": True}, {"rank_sizes": {rank0: rnd.choice([3, 4, 7])}},
            {"renames": {"input": e["ins"][0]["name"]}}, {"n_instances": 4, "rank_sizes": {rank0: 2}}]
    return copy.deepcopy(rnd.choice(pool))


def _full_required(e, extra):
    """everything an Einsum parsed from (e, extra) must show: tensors/projections/flags of e, the extras of THIS parse, documented defaults elsewhere"""
    ta_extra = {a["name"]: {k: v for k, v in a.items() if k != "name"} for a in extra.get("tensor_accesses", [])}
    tens = []
    for name, proj, out in _expected(e):
        a = {**TA_DEFAULTS, **ta_extra.get(name, {})}
        tens.append([name, proj, out, a["persistent"], a["bits_per_value"], a["backing_storage_size_scale"]])
    top = {**copy.deepcopy(EIN_DEFAULTS), **{k: copy.deepcopy(v) for k, v in extra.items() if k != "tensor_accesses"}}
    top["renames"] = [[k, v] for k, v in top["renames"].items()] if isinstance(top["renames"], dict) else top["renames"]
    return {"name": e["out"]["name"], "tensors": tens, **top}


def _full_view(c):
    """the same view of a real Einsum object"""
    return {"name": str(c.name),
            "tensors": [[str(t.name), [[str(k), _nows(v)] for k, v in t.projection.items()], bool(t.output), t.persistent, t.bits_per_value,
                         t.backing_storage_size_scale] for t in c.tensor_accesses],
            "n_instances": c.n_instances, "is_copy_operation": c.is_copy_operation, "rank_sizes": {str(k): v for k, v in dict(c.rank_sizes).items()},
            "iteration_space_shape": [str(x) for x in c.iteration_space_shape], "renames": [[str(r.name), str(r.source)] for r in c.renames]}


def _full_view_dict(d, raw):
    """the same view of a dict returned by _parse_einsum_string (raw=True: tensor entries must carry exactly name/projection/output)
    or by _parse_einsum_entry (raw=False)"""
    tens = []
    for t in d["tensor_accesses"]:
        row = [str(t["name"]), [[str(k), _nows(v)] for k, v in dict(t["projection"]).items()], bool(t["output"]),
               t.get("persistent", False), t.get("bits_per_value", None), t.get("backing_storage_size_scale", 1.0)]
        other = sorted(set(t) - {"name", "projection", "output"} - (set() if raw else set(TA_DEFAULTS)))
        if other:
            row.append({"unexpected_keys": other})
        tens.append(row)
    out = {"name": str(d.get("name")), "tensors": tens}
    for k, dflt in EIN_DEFAULTS.items():
        v = d.get(k, dflt)
        if k == "renames":
            v = [[str(r.name), str(r.source)] for r in v]
        elif k == "rank_sizes":
            v = {str(a): b for a, b in dict(v).items()}
        elif k == "iteration_space_shape":
            v = [str(x) for x in v]
        out[k] = v
    other = sorted(set(d) - {"name", "tensor_accesses"} - (set() if raw else set(EIN_DEFAULTS)))
    if other:
        out["unexpected_keys"] = other
    return out


def _block_scalar(texts, rnd, indent):
    """the tokens laid out as the body of a YAML block scalar: several lines, the first at `indent`, the others at
    indent + 0..4, tokens inside a line separated by nothing / blanks / a tab; sometimes an empty line"""
    lines, cur = [], []
    for t in texts:
        cur.append(t)
        if rnd.random() < 0.3:
            lines.append(cur)
            cur = []
    if cur:
        lines.append(cur)
    out = []
    for i, ln in enumerate(lines):
        body = ln[0]
        for t in ln[1:]:
            body += rnd.choice(["", " ", "  ", "\t", " \t "]) + t
        out.append(" " * (indent + (0 if i == 0 else rnd.randint(0, 4))) + body + rnd.choice(["", "", " ", "\t"]))
        if rnd.random() < 0.1:
            out.append("")
    return out


# ----------------------------------------------------------------------------- independent recogniser
_NAME = r"[A-Za-z_]\w*"
_TERM = r"(?:[a-z]\w*|[0-9]+)"
_EXPR = rf"{_TERM}(?:[+*-]{_TERM})*"
_ENTRY = rf"(?:[a-z]\w*|[A-Z]\w*:{_EXPR})"
_TENSOR = rf"{_NAME}\[{_ENTRY}(?:,{_ENTRY})*\]"
_EINSUM = re.compile(rf"{_TENSOR}={_TENSOR}(?:\*{_TENSOR})*")


def in_language(s):
    """documented grammar: Out[entries] = In[entries] (* In[entries])*, entry = var | Rank: expr,
    var lower-case, Rank upper-case, entries non-empty, ranks unique within a tensor."""
    s = _nows(s)
    if not _EINSUM.fullmatch(s):
        return False
    for body in re.findall(r"\[([^\]]*)\]", s):
        ranks = [p.split(":")[0] if ":" in p else p.upper() for p in body.split(",")]
        if len(set(ranks)) != len(ranks):
            return False
    return True


# ----------------------------------------------------------------------------- mutations
def _mutants(e, rnd):
    """yield (class, kept, string). kept=False: the unchanged real parser is known (by reading
    the code) to accept this sub-class; it is only counted, never required to raise."""
    toks = _tokens(e)
    texts = [t for t, _ in toks]
    tags = [g for _, g in toks]
    n_in = len(e["ins"])
    pat = rnd.choice(["none", "canon"])

    def idx(tag):
        return tags.index(tag)

    def out(cls, kept, new):
        return (cls, kept, _join(new, pat))

    def without(i):
        return texts[:i] + texts[i + 1:]

    def dup(i):
        return texts[:i + 1] + [texts[i]] + texts[i + 1:]

    def repl(i, new):
        return texts[:i] + list(new) + texts[i + 1:]

    eq = idx(("eq",))
    yield out("del_eq", True, without(eq))
    yield out("dup_eq", True, dup(eq))
    for pos in sorted({0, len(texts), idx(("lbr", 1)) + 1, idx(("rbr", 0)), rnd.randrange(len(texts) + 1)}):
        yield out("second_eq", True, texts[:pos] + ["="] + texts[pos:])
    yield out("no_output", True, texts[eq:])
    yield out("no_output", True, texts[eq + 1:])
    yield out("no_input", True, texts[:eq + 1])
    yield out("no_input", True, texts[:eq])
    yield out("empty_out_name", True, without(idx(("name", 0))))
    yield out("digit_out_name", True, repl(idx(("name", 0)), ["2" + texts[idx(("name", 0))]]))
    yield out("braces", True, [{"[": "{", "]": "}"}.get(t, t) for t in texts])
    yield out("parens", True, [{"[": "(", "]": ")"}.get(t, t) for t in texts])
    for cls, f, tg in (("del_lbr_out", without, "lbr"), ("del_rbr_out", without, "rbr"), ("dup_lbr_out", dup, "lbr"), ("dup_rbr_out", dup, "rbr")):
        yield out(cls, True, f(idx((tg, 0))))
    for i in range(1, n_in + 1):
        t = e["ins"][i - 1]
        sole, last = n_in == 1, i == n_in
        yield out("empty_in_name" if sole else "empty_in_name[one of several inputs]", sole, without(idx(("name", i))))
        yield out("del_lbr_in" if sole else "del_lbr_in[one of several inputs]", sole, without(idx(("lbr", i))))
        if sole:
            yield out("del_rbr_in", True, without(idx(("rbr", i))))
        elif last:
            yield out("del_rbr_in[last of several inputs]", False, without(idx(("rbr", i))))
        elif t["entries"][-1]["kind"] == "bare":
            yield out("del_rbr_in", True, without(idx(("rbr", i))))
        else:
            yield out("del_rbr_in[last entry is 'Rank: expr']", False, without(idx(("rbr", i))))
        yield out("dup_lbr_in", True, dup(idx(("lbr", i))))
        yield out("dup_rbr_in", False, dup(idx(("rbr", i))))
        if i > 1:
            yield out("del_star", False, without(idx(("star", i - 1))))
    yield out("trailing_junk", False, texts + ["*"])
    # entry-level mutations on one random tensor (and always on the output)
    for ti in sorted({0, rnd.randint(0, n_in)}):
        t = e["out"] if ti == 0 else e["ins"][ti - 1]
        lbr, rbr = idx(("lbr", ti)), idx(("rbr", ti))
        yield out("empty_projection", True, texts[:lbr + 1] + texts[rbr:])
        yield out("empty_entry", True, texts[:rbr] + [","] + texts[rbr:])
        yield out("empty_entry", True, texts[:lbr + 1] + [","] + texts[lbr + 1:])
        if len(t["entries"]) > 1:
            yield out("empty_entry", True, dup(idx(("comma", ti, 1))))
        for j, en in enumerate(t["entries"]):
            if en["kind"] == "bare":
                b = idx(("bare", ti, j))
                yield out("upper_bare", True, repl(b, [texts[b].upper()]))
                yield out("bare_expression", True, repl(b, [texts[b], "+", "z"]))
                yield out("dup_rank_explicit_after", True, texts[:rbr] + [",", en["rank"], ":", "z"] + texts[rbr:])
                yield out("dup_rank[bare entry after same rank]", False, texts[:rbr] + [",", texts[b]] + texts[rbr:])
            else:
                r, c = idx(("rank", ti, j)), idx(("colon", ti, j))
                yield out("lower_rank", True, repl(r, [texts[r][0].lower() + texts[r][1:]]))
                yield out("dup_colon", True, dup(c))
                yield out("del_colon", True, without(c))
                yield out("empty_rank_name", True, without(r))
                yield out("bare_expression", True, texts[:r] + texts[c + 1:]) if len(en["toks"]) > 1 else None
                yield out("dup_rank_explicit_after", True, texts[:rbr] + [",", en["rank"], ":", "z"] + texts[rbr:])
                if re.fullmatch(r"[A-Z][A-Z0-9_]*", en["rank"]):
                    yield out("dup_rank[bare entry after same rank]", False, texts[:rbr] + [",", en["rank"].lower()] + texts[rbr:])
                last_expr = max(k for k, g in enumerate(tags) if g == ("expr", ti, j))
                yield out("empty_expression", False, texts[:c + 1] + texts[last_expr + 1:])


def _entry_mutants(e):
    """malformed `einsum:` dict entries (docs: 'an error will be raised if these are specified
    again in the same entry')."""
    s = _render(e, "canon")
    in0, outn = e["ins"][0]["name"], e["out"]["name"]
    return [
        ("entry_respecify_projection", {"einsum": s, "tensor_accesses": [{"name": in0, "projection": ["m"]}]}),
        ("entry_respecify_output", {"einsum": s, "tensor_accesses": [{"name": outn, "output": True}]}),
        ("entry_unknown_tensor", {"einsum": s, "tensor_accesses": [{"name": "NoSuchTensor", "bits_per_value": 8}]}),
        ("entry_nameless_access", {"einsum": s, "tensor_accesses": [{"bits_per_value": 8}]}),
        ("entry_unknown_field", {"einsum": s, "no_such_field": 1}),
    ]


# ----------------------------------------------------------------------------- the check
RULE = (
    "Well-formed family: (core, exhaustive) every Einsum with one input where output and input each carry 1-2 entries of the "
    "catalogue {m, n, M: m, N: m, X: m+n, Y: 2*m+n} with pairwise distinct rank names (32 x 32 = 1024 Einsums); (random, seeded) "
    "Einsums with 1-3 inputs (thorough 1-4), distinct tensor names from an 11-name pool, 1-3 entries per tensor (thorough 1-4) "
    "over rank variables {m,n,k,p,b,h0,mc}; an entry is a bare variable x (rank X = x.upper()), 'X: x', 'Name: x' or "
    "'Name: <expr>' with <expr> in {a+b, 2*a+b, a*16+b, a+b+c, a-b, 3*a, a+1}. Each Einsum is rendered under whitespace patterns "
    "none / docs style / two spaces between all tokens / tabs between all tokens / random gaps incl. newline (core: none + one "
    "rotating pattern in quick, all in thorough) and parsed by the real _parse_einsum_string and Workload(einsums=[str]); both must "
    "give exactly the expected ordered (tensor name, ordered rank->expression map, output flag) list, which must also equal the "
    "real verbose forms (dict form and Einsum/TensorAccess object form, incl. full model_dump equality). Six extra-attribute "
    "patterns on {'einsum': str, ...} (n_instances, is_copy_operation, renames, rank_sizes, iteration_space_shape, per-tensor "
    "bits_per_value+persistent merge) must leave tensors/projections/flags unchanged, carry the attribute, and equal the verbose "
    "Einsum with the same attribute; a subset also goes through Workload.from_yaml (string item, einsum: item, verbose item). "
    "Malformed family: single-edit mutants of the well-formed strings, each confirmed outside the documented grammar by an "
    "independent recogniser, must raise in both _parse_einsum_string and Workload(einsums=[s]); kept classes: del_eq, dup_eq, "
    "second_eq, no_output, no_input, empty_out_name, digit_out_name, braces, parens, del/dup '[' and ']' of the output, "
    "dup_lbr_in, empty_in_name/del_lbr_in/del_rbr_in (sole input; del_rbr_in also for a non-final input whose last entry is bare), "
    "empty_projection (0-rank tensor 'T[]'), empty_entry, upper_bare, lower_rank, dup_colon, del_colon, empty_rank_name, "
    "bare_expression, dup_rank_explicit_after; plus malformed einsum: dicts (projection/output given again, unknown tensor, "
    "nameless access, unknown field). Accepted by the real parser, not treated as malformed (only counted, see dropped_classes): "
    "dup_rbr_in ('A[m]]'), del_star / trailing_junk (RHS separators are not validated), empty_in_name and del_lbr_in for one of "
    "several inputs (that tensor is silently dropped), del_rbr_in for the last of several inputs (dropped) or after a "
    "'Rank: expr' entry (expression swallows the next tensor), dup_rank by a bare entry after the same rank (silently "
    "overwrites), empty_expression ('M:'). Not a mutation class: deleting ',' (stays in the language). "
    "excluded from the well-formed family: duplicated rank name within one tensor ('M: n, m' parses as {M: m}); the same tensor "
    "name twice in one Einsum or output name == an input name (Workload(einsums=[str]) keeps one access per name, the verbose "
    "form keeps all); 0-rank tensors (verbose 'projection: []' is accepted, concise 'T[]' is rejected: checked as malformed "
    "class empty_projection). "
    "Strengthened part (own seeded generator): (a) CALL HISTORIES in one process: for each Einsum a sequence of 8-10 parses of the same concise "
    "string (70 % the identical string, 30 % another whitespace rendering) - bare, with extras X1, bare, with other extras X2, then 4-6 random "
    "repeats of {bare, X1, X2}, half of the histories rotated to start with extras - through the entry points Workload(einsums=[str]), "
    "Workload(einsums=[{einsum: ...}]), Workload.from_yaml (string item / einsum: item), _parse_einsum_string and _parse_einsum_entry in random "
    "order; X = tensor_accesses entries with persistent / bits_per_value / backing_storage_size_scale on a random subset of the tensors plus "
    "sometimes n_instances / is_copy_operation / rank_sizes / renames; the caller's nested extras objects are reused, not copied. After EVERY step "
    "the result must show the tensors/projections/flags of the Einsum, exactly the extras of that step and the documented field defaults everywhere "
    "else (persistent False, bits_per_value None, backing_storage_size_scale 1.0, n_instances 1, ...; the dict of _parse_einsum_string must carry "
    "only name/projection/output); after the last step every earlier result is viewed again and must be unchanged, and the caller's extras objects "
    "must be unchanged; then three Workloads of two Einsums sharing all input tensor names, each entry with its own (or no) extras. (b) WHITESPACE: for "
    "3 fixed + n sampled Einsums every one of ' ', '   ', TAB, LF, CR, CRLF, LF+indent, ' TAB CR LF ' inserted at each single token boundary "
    "(incl. before the first and after the last token) and at all boundaries at once must give the compact string's result in "
    "_parse_einsum_string and Workload(einsums=[str]) (full model_dump equality with the verbose form); the token stream laid out over several "
    "indented lines as YAML block scalars (styles | > |- >- |+, LF and CRLF files, string item and einsum: item) must load to the same Einsums. "
    "(c) MULTI-CHARACTER shorthand variables {pq, n_h, kvLen, p1q, qK, h_0, mC2, x_, nH_kv, aB}: the rank a bare variable stands for is read off "
    "the REAL verbose list form TensorAccess(projection=[v]) (not computed here); Einsums over these variables go through the whole well-formed "
    "check above (5 whitespace patterns, verbose dict/object equality, extras, YAML) and the single-edit mutants; for every such Einsum (and for "
    "a sample of the single-letter ones) a second Einsum reading the same input tensors with the same projections is added and the Workloads "
    "[concise, verbose], [verbose, concise], both in swapped Einsum order, and [concise, concise] must be accepted and equal Einsum by Einsum "
    "(model_dump) the all-verbose Workload, with tensor_ranks / accesses_for_tensor of every shared tensor the same from both forms. "
    "Not required (only counted as entry_dict_lost_einsum_key): Workload(einsums=[d]) removes the key 'einsum' from the caller's dict d, so the same "
    "dict OBJECT cannot be parsed twice; histories therefore build a fresh outer dict per parse."
)


def bounded(p):
    from accelforge.frontend.workload import Workload, Einsum, TensorAccess, _parse_einsum_string, _parse_einsum_entry

    seed = int(p.get("seed", 0))
    known_ids = {e.get("class_id") for e in (p.get("known") or [])}
    thorough = p.get("tier", "quick") == "thorough"
    rnd = random.Random(seed)
    max_in, max_ranks = (4, 4) if thorough else (3, 3)
    n_random = 1500 if thorough else 200
    n_mut_sources = 400 if thorough else 80
    yaml_every = 5 if thorough else 4

    st = {"evaluations": 0, "distinct": set(), "samples": [], "kept": {}, "dropped": {}, "not_mutants": 0,
          "well_formed_einsums": 0, "malformed_strings": 0, "ws_position_strings": 0, "history_steps": 0, "mixed_workloads": 0,
          "multichar_einsums": 0, "entry_dict_lost_einsum_key": 0}
    n_ws, n_hist, n_mc, n_mc_mut = (60, 500, 400, 40) if thorough else (8, 60, 60, 8)
    tmpdir = tempfile.mkdtemp(prefix="c23_")

    def counters():
        return {
            "evaluations": st["evaluations"], "distinct": len(st["distinct"]), "rule": RULE,
            "bound": f"core: 1024 one-input Einsums (exhaustive); random: {n_random} Einsums, <= {max_in} inputs, <= {max_ranks} entries per tensor, "
                     f"7 rank variables, 5 whitespace patterns, 6 extra-attribute patterns; single-edit mutants of {n_mut_sources} strings; "
                     f"whitespace sweep: {3 + n_ws} Einsums x {len(WS_KINDS)} whitespace kinds x every token boundary (one at a time and all at once) + 5 YAML block-scalar styles; "
                     f"call histories: {n_hist} Einsums x 8-10 parses through 6 entry points + 3 two-Einsum workloads each; "
                     f"multi-character shorthand variables: {n_mc} Einsums over {len(VARS_MC)} variables (5 whitespace patterns, extras, mixed concise/verbose workloads in 5 arrangements), mutants of {n_mc_mut}",
            "exhaustive": False, "samples": st["samples"][:10],
            "well_formed_einsums": st["well_formed_einsums"], "malformed_strings": st["malformed_strings"],
            "ws_position_strings": st["ws_position_strings"], "history_steps": st["history_steps"], "mixed_workloads": st["mixed_workloads"],
            "multichar_einsums": st["multichar_einsums"], "implied_ranks_from_verbose_form": st.get("implied"),
            "entry_dict_lost_einsum_key(informational)": st["entry_dict_lost_einsum_key"],
            "kept_classes": st["kept"], "dropped_classes": st["dropped"], "mutants_still_in_language_skipped": st["not_mutants"],
            "assumptions": ["exhaustive only for the 1024-Einsum core; the random part is a seeded sample",
                            "any exception type counts as 'rejected'"],
        }

    def real(case, what, fn):
        st["evaluations"] += 1
        try:
            return fn()
        except Exception as ex:  # the real code must accept a well-formed input
            raise _Fail(case, f"{type(ex).__name__}: {str(ex)[:300]}", "accepted, equal to the verbose form", what)

    def need(cond, case, observed, required, what):
        if not cond:
            raise _Fail(case, observed, required, what)

    def yaml_load(items):
        path = os.path.join(tmpdir, "w.yaml")
        with open(path, "w") as f:
            f.write("workload:\n  einsums:\n")
            for it in items:
                f.write("  - " + json.dumps(it) + "\n")  # JSON is YAML (flow style, escaped \t \n)
        return Workload.from_yaml(path, top_key="workload")

    def check_well_formed(e, patterns, with_extras, with_yaml):
        want = _expected(e)
        st["well_formed_einsums"] += 1
        vd = _verbose_dict(e, spaced=False)
        v1 = real(vd, "verbose dict form", lambda: Workload(einsums=[copy.deepcopy(vd)]).einsums[0])
        need(_view_obj(v1) == want, vd, _view_obj(v1), want, "verbose dict form vs generated structure")
        vref = _dump(v1)
        if with_extras:
            vs = _verbose_dict(e, spaced=True)
            v2 = real(vs, "verbose object form", lambda: Workload(einsums=[Einsum(
                name=vs["name"], tensor_accesses=[TensorAccess(**t) for t in vs["tensor_accesses"]])]).einsums[0])
            need(_dump(v2) == vref, vs, _dump(v2), vref, "verbose object form vs verbose dict form")
        for pat in patterns:
            s = _render(e, pat, rnd)
            st["distinct"].add(s)
            if len(st["samples"]) < 6 and st["well_formed_einsums"] % 97 in (1, 50):
                st["samples"].append(s)
            need(in_language(s), s, "recogniser rejects", "recogniser accepts a generated string", "checker self-consistency")
            r = real(s, "_parse_einsum_string", lambda: _parse_einsum_string(s))
            need(r.get("name") == e["out"]["name"] and _view_parsed(r) == want, s, {"name": r.get("name"), "tensors": _view_parsed(r)},
                 {"name": e["out"]["name"], "tensors": want}, f"_parse_einsum_string, whitespace pattern {pat}")
            c = real(s, "Workload(einsums=[str])", lambda: Workload(einsums=[s]).einsums[0])
            need(isinstance(c, Einsum) and str(c.name) == e["out"]["name"] and _view_obj(c) == want, s,
                 {"name": str(c.name), "tensors": _view_obj(c)}, {"name": e["out"]["name"], "tensors": want},
                 f"Workload(einsums=[str]), whitespace pattern {pat}")
            need(_dump(c) == vref, s, _dump(c), vref, f"concise vs verbose model_dump, whitespace pattern {pat}")
            need(sorted(map(str, c.input_tensor_names)) == sorted(t["name"] for t in e["ins"])
                 and list(map(str, c.output_tensor_names)) == [e["out"]["name"]], s,
                 {"inputs": list(map(str, c.input_tensor_names)), "outputs": list(map(str, c.output_tensor_names))},
                 {"inputs": [t["name"] for t in e["ins"]], "outputs": [e["out"]["name"]]}, "input/output tensor names")
        if with_extras:
            s = _render(e, rnd.choice(WS_PATTERNS), rnd)
            st["distinct"].add(s)
            for label, extra, has in _extras(e):
                entry = {"einsum": s, **copy.deepcopy(extra)}
                shown = {"einsum": s, **extra}
                c = real(shown, f"einsum: dict + {label}", lambda: Workload(einsums=[entry]).einsums[0])
                need(_view_obj(c) == want, shown, _view_obj(c), want, f"extra attribute {label} changed tensors/projections/flags")
                need(bool(has(c)), shown, _dump(c), f"{label} present on the result as given", f"extra attribute {label} lost")
                vx = _verbose_with(vd, extra)
                v = real(vx, f"verbose + {label}", lambda: Workload(einsums=[vx]).einsums[0])
                need(_dump(c) == _dump(v), shown, _dump(c), _dump(v), f"concise+{label} vs verbose+{label}")
        if with_yaml:
            s = _render(e, rnd.choice(WS_PATTERNS), rnd)
            st["distinct"].add(s)
            for label, item in (("string item", s), ("einsum: item", {"einsum": s, "n_instances": 2}), ("verbose item", {**vd, "n_instances": 2})):
                y = real(item, f"Workload.from_yaml {label}", lambda: yaml_load([item]).einsums[0])
                need(_view_obj(y) == want and y.n_instances == (1 if label == "string item" else 2), item,
                     {"tensors": _view_obj(y), "n_instances": y.n_instances}, want, f"YAML route, {label}")

    # ------------------------------------------------------------------ (b) whitespace of every kind at every token boundary
    def check_ws_positions(e):
        want = _expected(e)
        vd = _verbose_dict(e, spaced=False)
        vref = _dump(real(vd, "verbose dict form", lambda: Workload(einsums=[copy.deepcopy(vd)]).einsums[0]))
        texts = [t for t, _ in _tokens(e)]
        cases = []
        for kind in WS_KINDS:
            for pos in range(len(texts) + 1):
                cases.append((f"{kind!r} at token boundary {pos}", "".join(texts[:pos]) + kind + "".join(texts[pos:])))
            cases.append((f"{kind!r} at every token boundary", kind + kind.join(texts) + kind))
        for what, s in cases:
            st["distinct"].add(s)
            st["ws_position_strings"] += 1
            r = real(s, "_parse_einsum_string", lambda: _parse_einsum_string(s))
            need(r.get("name") == e["out"]["name"] and _view_parsed(r) == want, s, {"name": r.get("name"), "tensors": _view_parsed(r)},
                 {"name": e["out"]["name"], "tensors": want}, f"_parse_einsum_string, whitespace {what}")
            c = real(s, "Workload(einsums=[str])", lambda: Workload(einsums=[s]).einsums[0])
            need(_dump(c) == vref, s, _dump(c), vref, f"Workload(einsums=[str]) vs verbose form, whitespace {what}")
        # the same tokens as YAML block scalars (literal / folded, keep / strip, LF / CRLF file), string item and einsum: item
        for style in ("|", ">", "|-", ">-", "|+"):
            lines = ["workload:", "  einsums:", "  - " + style] + _block_scalar(texts, rnd, 4)
            lines += ["  - einsum: " + style] + _block_scalar([t for t, _ in _tokens(_second_einsum(e))], rnd, 6) + ["    n_instances: 2"]
            eol = "\r\n" if style in (">", "|-") else "\n"
            path = os.path.join(tmpdir, "b.yaml")
            with open(path, "wb") as f:
                f.write((eol.join(lines) + eol).encode())
            shown = {"yaml": eol.join(lines)}
            st["ws_position_strings"] += 2
            w = real(shown, "Workload.from_yaml block scalar", lambda: Workload.from_yaml(path, top_key="workload"))
            got = [_full_view(x) for x in w.einsums]
            req = [_full_required(e, {}), _full_required(_second_einsum(e), {"n_instances": 2})]
            need(got == req, shown, got, req, f"YAML block scalar style {style}")

    # ------------------------------------------------------------------ (a) call histories in one process
    def parse_via(route, s, extra, share):
        """one parse of string s (+ extras) through one entry point -> (kind, result)"""
        ex = extra if share else copy.deepcopy(extra)  # share: the nested extras objects are the caller's, reused across steps
        if route == "str":
            return "obj", Workload(einsums=[s]).einsums[0]
        if route == "dict":
            entry = {"einsum": s, **ex}
            c = Workload(einsums=[entry]).einsums[0]
            if "einsum" not in entry:
                st["entry_dict_lost_einsum_key"] += 1  # informational only (the caller's dict is consumed), see report
            return "obj", c
        if route == "yaml":
            return "obj", yaml_load([{"einsum": s, **ex} if ex else s]).einsums[0]
        if route == "yaml_dict":
            return "obj", yaml_load([{"einsum": s, **ex}]).einsums[0]
        if route == "parse_string":
            return "raw", _parse_einsum_string(s)
        if route == "parse_entry":
            return "entry", _parse_einsum_entry({"einsum": s, **ex})
        raise AssertionError(route)

    def view_of(kind, res):
        return _full_view(res) if kind == "obj" else _full_view_dict(res, raw=(kind == "raw"))

    def check_history(e, n_extra_steps):
        s0 = _render(e, rnd.choice(["none", "canon"]), rnd)
        st["distinct"].add(s0)
        x1 = {"tensor_accesses": _random_ta_extras(rnd, e), **_random_top_extras(rnd, e)}
        x2 = {"tensor_accesses": _random_ta_extras(rnd, e, avoid=x1["tensor_accesses"]), **_random_top_extras(rnd, e)}
        pristine = {id(x1): copy.deepcopy(x1), id(x2): copy.deepcopy(x2)}
        bare_routes = ["str", "parse_string", "yaml", "dict", "parse_entry"]
        extra_routes = ["dict", "yaml_dict", "parse_entry"]
        steps = [(rnd.choice(bare_routes), {}), (rnd.choice(extra_routes), x1), (rnd.choice(bare_routes), {}), (rnd.choice(extra_routes), x2)]
        for _ in range(n_extra_steps):
            x = rnd.choice([{}, {}, x1, x2])
            steps.append((rnd.choice(extra_routes if x else bare_routes), x))
        if rnd.random() < 0.5:  # also histories that START with extras
            steps = steps[1:] + steps[:1]
        kept, log = [], []
        for i, (route, x) in enumerate(steps):
            s = s0 if rnd.random() < 0.7 else _render(e, rnd.choice(WS_PATTERNS), rnd)
            if route == "parse_string":
                x = {}
            log.append({"step": i, "route": route, "string": s, "extras": copy.deepcopy(pristine[id(x)]) if x else {}})
            case = {"history": list(log)}
            st["history_steps"] += 1
            kind, res = real(case, f"history step {i} via {route}", lambda: parse_via(route, s, x, share=True))
            req = _full_required(e, pristine[id(x)] if x else {})
            got = view_of(kind, res)
            need(got == req, case, got, req, f"call history: step {i} ({route}) must show exactly its own extras (defaults elsewhere), independent of earlier parses")
            kept.append((i, kind, res, req))
        for i, kind, res, req in kept:  # results of earlier parses are not changed by later ones
            got = view_of(kind, res)
            need(got == req, {"history": log}, got, req, f"call history: the result of step {i} changed after later parses")
        for x in (x1, x2):  # the caller's extras objects are not written to
            need(x == pristine[id(x)], {"history": log}, x, pristine[id(x)], "call history: the caller's extras object was modified")
        # two Einsums in ONE Workload sharing tensor names, each with its own extras
        e2 = _second_einsum(e)
        s2 = _render(e2, rnd.choice(["none", "canon"]), rnd)
        y2 = {"tensor_accesses": _random_ta_extras(rnd, e2, avoid=x1["tensor_accesses"])}
        for items, reqs in (
            ([{"einsum": s0, **pristine[id(x1)]}, {"einsum": s2, **y2}], [_full_required(e, pristine[id(x1)]), _full_required(e2, y2)]),
            ([{"einsum": s2, **y2}, s0], [_full_required(e2, y2), _full_required(e, {})]),
            ([s2, {"einsum": s0, **pristine[id(x2)]}], [_full_required(e2, {}), _full_required(e, pristine[id(x2)])]),
        ):
            shown = copy.deepcopy(items)
            st["history_steps"] += 1
            w = real(shown, "two Einsums sharing tensors in one Workload", lambda: Workload(einsums=copy.deepcopy(items)))
            got = [_full_view(c) for c in w.einsums]
            need(got == reqs, shown, got, reqs, "two Einsums of one Workload sharing tensor names: each must carry exactly its own extras")

    # ------------------------------------------------------------------ (c) concise and verbose forms of the same tensor in one Workload
    def check_mixed(e):
        e2 = _second_einsum(e)
        s1, s2 = _render(e, rnd.choice(WS_PATTERNS), rnd), _render(e2, rnd.choice(WS_PATTERNS), rnd)
        v1, v2 = _verbose_dict(e, spaced=False), _verbose_dict(e2, spaced=True)
        st["distinct"].update((s1, s2))
        ref = real([v1, v2], "all-verbose two-Einsum Workload", lambda: Workload(einsums=copy.deepcopy([v1, v2])))
        ref_dump = [_dump(c) for c in ref.einsums]
        want = [_expected(e), _expected(e2)]
        need([_view_obj(c) for c in ref.einsums] == want, [v1, v2], [_view_obj(c) for c in ref.einsums], want, "all-verbose workload vs generated structure")
        for label, items, order in (("concise+verbose", [s1, v2], (0, 1)), ("verbose+concise", [v1, s2], (0, 1)),
                                    ("verbose(2nd)+concise(1st)", [v2, s1], (1, 0)), ("concise(2nd)+verbose(1st)", [s2, v1], (1, 0)),
                                    ("concise+concise", [s1, s2], (0, 1))):
            shown = copy.deepcopy(items)
            st["mixed_workloads"] += 1
            w = real(shown, f"mixed Workload {label}", lambda: Workload(einsums=copy.deepcopy(items)))
            got = [_dump(c) for c in w.einsums]
            req = [ref_dump[k] for k in order]
            need(got == req, shown, got, req, f"mixed Workload {label}: Einsums must equal those of the all-verbose Workload")
            for t in e["ins"]:
                ranks = [en["rank"] for en in t["entries"]]
                got_r = sorted(map(str, w.tensor_ranks(t["name"])))
                accs = [[[str(k), _nows(v)] for k, v in a.projection.items()] for a in w.accesses_for_tensor(t["name"])]
                need(got_r == sorted(ranks) and accs == [[[en["rank"], "".join(en["toks"])] for en in t["entries"]]] * 2, shown,
                     {"tensor": t["name"], "ranks": got_r, "accesses": accs}, {"tensor": t["name"], "ranks": sorted(ranks), "accesses": "the same projection twice"},
                     f"mixed Workload {label}: shared tensor seen consistently from both forms")

    def must_reject(cls, case, fns):
        for what, fn in fns:
            st["evaluations"] += 1
            try:
                got = fn()
            except Exception:
                continue
            try:
                shown = _view_parsed(got) if isinstance(got, dict) else _view_obj(got.einsums[0])
            except Exception:
                shown = str(got)[:300]
            raise _Fail(case, {"accepted_by": what, "result": shown}, "an exception (string is outside the documented grammar)", f"malformed class {cls}")

    def check_malformed(e):
        for cls, kept, s in filter(None, _mutants(e, rnd)):
            if in_language(s):
                st["not_mutants"] += 1
                continue
            if s in st["distinct"]:
                continue
            st["distinct"].add(s)
            if kept:
                st["kept"][cls] = st["kept"].get(cls, 0) + 1
                st["malformed_strings"] += 1
                if len(st["samples"]) < 10 and st["malformed_strings"] % 401 == 7:
                    st["samples"].append({"malformed": s, "class": cls})
                must_reject(cls, s, [("_parse_einsum_string", lambda: _parse_einsum_string(s)),
                                     ("Workload(einsums=[str])", lambda: Workload(einsums=[s]))])
            else:  # classes that the unchanged parser accepts: known finding C23-malformed-accepted (see known_findings.json)
                d = st["dropped"].setdefault(cls, {"accepted": 0, "rejected": 0, "example": s})
                try:
                    Workload(einsums=[s])
                    d["accepted"] += 1
                    accepted = True
                except Exception:
                    d["rejected"] += 1
                    accepted = False
                if accepted:
                    if "C23-malformed-accepted" in known_ids:
                        st["known_finding_hits"] = st.get("known_finding_hits", 0) + 1
                    else:
                        raise _Fail({"malformed": s, "class": cls}, {"accepted_by": "Workload(einsums=[str])"}, "an exception (string is outside the documented grammar)", f"malformed class {cls} (finding C23-malformed-accepted is not listed as known)")
        for cls, entry in _entry_mutants(e):
            key = json.dumps(entry, sort_keys=True)
            if key in st["distinct"]:
                continue
            st["distinct"].add(key)
            st["kept"][cls] = st["kept"].get(cls, 0) + 1
            st["malformed_strings"] += 1
            must_reject(cls, entry, [("Workload(einsums=[dict])", lambda: Workload(einsums=[copy.deepcopy(entry)]))])

    try:
        try:
            sources = []
            for i, e in enumerate(_core_einsums()):
                pats = WS_PATTERNS if thorough else ["none", WS_PATTERNS[1 + i % 4]]
                check_well_formed(e, pats, with_extras=(i % 8 == seed % 8) or thorough, with_yaml=(i % 64 == seed % 64))
                if i % 37 == seed % 37:
                    sources.append(e)
            for i in range(n_random):
                e = _random_einsum(rnd, max_in, max_ranks)
                check_well_formed(e, WS_PATTERNS, with_extras=True, with_yaml=(i % yaml_every == 0))
                sources.append(e)
            for e in sources[:n_mut_sources]:
                check_malformed(e)
            # --- strengthened part: own generator so that the draws above stay what they were
            rnd.seed(seed * 7919 + 23)
            implied = {}
            for v in VARS_MC:  # the rank a bare shorthand variable stands for = what the REAL verbose list form gives
                ta = real({"projection": [v]}, "verbose list projection", lambda: TensorAccess(name="T", projection=[v]))
                need(len(ta.ranks) == 1 and dict(ta.projection) == {ta.ranks[0]: v}, [v], dict(ta.projection), "one rank projecting v", "verbose list projection")
                implied[v] = str(ta.ranks[0])
            st["implied"] = implied
            mc = []
            for i in range(n_mc):
                e = _random_einsum_mc(rnd, max_in, max_ranks, implied)
                st["multichar_einsums"] += 1
                check_well_formed(e, WS_PATTERNS, with_extras=(i % 3 == 0), with_yaml=(i % 6 == 0))
                check_mixed(e)
                mc.append(e)
            for e in sources[:n_hist // 2]:
                check_mixed(e)
            fixed = [
                {"out": {"name": "C", "entries": [_entry_bare("m"), _entry_explicit("N", ["n"]), _entry_explicit("X", ["2", "*", "m", "+", "n"])]},
                 "ins": [{"name": "A", "entries": [_entry_bare("m"), _entry_explicit("K", ["k"])]}, {"name": "B", "entries": [_entry_bare("k"), _entry_bare("n")]}]},
                {"out": {"name": "O", "entries": [_entry_bare("m")]}, "ins": [{"name": "I", "entries": [_entry_bare("m")]}]},
                {"out": {"name": "QK_softmax", "entries": [{"kind": "bare", "rank": implied["kvLen"], "toks": ["kvLen"]}, {"kind": "bare", "rank": implied["n_h"], "toks": ["n_h"]}]},
                 "ins": [{"name": "_t", "entries": [_entry_explicit("H", ["kvLen", "*", "16", "+", "p1q"]), {"kind": "bare", "rank": implied["n_h"], "toks": ["n_h"]}]}]},
            ]
            for e in fixed + mc[:n_ws // 2] + sources[-(n_ws - n_ws // 2):]:
                check_ws_positions(e)
            hist = fixed + mc[:n_hist // 3] + sources[-(n_hist - n_hist // 3):]
            for e in hist[:n_hist]:
                check_history(e, rnd.randint(4, 6))
            for e in mc[:n_mc_mut]:
                check_malformed(e)
        except _Fail as f:
            return {"failed": True, **f.info, **counters()}
        return {"failed": False, **counters()}
    finally:
        shutil.rmtree(tmpdir, ignore_errors=True)


def replay(p):
    return bounded(p)


def crosscheck(p):
    return bounded({**p, "tier": "quick"})


F10_WITNESSES = ["C[m]=A[n]]", "C[m,n]=A[m,k]B[k,n]", "C[m,n] = [m,k] * B[k,n]", "C[m]=A[M:]", "C[m]=A[M:n,m]"]


def witness(p):
    """known finding C23-malformed-accepted: malformed concise strings that the real parser accepts"""
    from accelforge.frontend.workload import Workload

    accepted = []
    for s in F10_WITNESSES:
        try:
            Workload(einsums=[s])
            accepted.append(s)
        except Exception:
            pass
    return {"failed": bool(accepted), "observed": f"accepted without error: {accepted}"}
