"""Bounded run-time contract check for C23: concise Einsum notation == verbose form.

Real code exercised: accelforge.frontend.workload._parse_einsum_string / _parse_projection /
_parse_einsum_entry / _projection_factory through `Workload(einsums=[...])`, `Workload.from_yaml`
and `_parse_einsum_string` directly.  Nothing of the parser is re-implemented to produce the
*observed* side; the *required* side comes from the generated structure (and from the real verbose
API), and a small independent recogniser of the documented grammar classifies mutants.
"""
import copy, itertools, json, os, random, re, shutil, tempfile

# ----------------------------------------------------------------------------- family
VARS = ["m", "n", "k", "p", "b", "h0", "mc"]
TENSORS = ["A", "B", "W", "I_in", "T1", "QK_softmax", "x", "_t", "WV", "Z", "Out2"]
RANKNAMES = ["X", "Row", "P2", "H", "M", "N_out", "Kk", "E"]
EXPRS = [  # token templates; a, b, c are replaced by rank variables
    ["a", "+", "b"],
    ["2", "*", "a", "+", "b"],
    ["a", "*", "16", "+", "b"],
    ["a", "+", "b", "+", "c"],
    ["a", "-", "b"],
    ["3", "*", "a"],
    ["a", "+", "1"],
]
WS_PATTERNS = ["none", "canon", "wide", "tabs", "random"]


def _entry_bare(v):
    return {"kind": "bare", "rank": v.upper(), "toks": [v]}


def _entry_explicit(rank, toks):
    return {"kind": "explicit", "rank": rank, "toks": list(toks)}


def _expr_toks(tmpl, vs):
    sub = dict(zip("abc", vs))
    return [sub.get(t, t) for t in tmpl]


def _random_entry(rnd, used):
    """one projection entry whose rank name is not in `used` (duplicated ranks are excluded)"""
    for _ in range(50):
        r = rnd.random()
        v = rnd.choice(VARS)
        if r < 0.45:
            e = _entry_bare(v)
        elif r < 0.6:
            e = _entry_explicit(v.upper(), [v])
        elif r < 0.75:
            e = _entry_explicit(rnd.choice(RANKNAMES), [v])
        else:
            vs = rnd.sample(VARS, 3)
            e = _entry_explicit(rnd.choice(RANKNAMES + [v.upper()]), _expr_toks(rnd.choice(EXPRS), vs))
        if e["rank"] not in used:
            return e
    for v in VARS:
        if v.upper() not in used:
            return _entry_bare(v)
    raise AssertionError("rank pool exhausted")


def _random_einsum(rnd, max_in, max_ranks):
    n_in = rnd.randint(1, max_in)
    names = rnd.sample(TENSORS, n_in + 1)
    tensors = []
    for nm in names:
        used, ents = set(), []
        for _ in range(rnd.randint(1, max_ranks)):
            e = _random_entry(rnd, used)
            used.add(e["rank"])
            ents.append(e)
        tensors.append({"name": nm, "entries": ents})
    # tensors[0] is the output, the rest are the inputs in order
    return {"out": tensors[0], "ins": tensors[1:]}


CORE_ENTRIES = [
    _entry_bare("m"),
    _entry_bare("n"),
    _entry_explicit("M", ["m"]),
    _entry_explicit("N", ["m"]),
    _entry_explicit("X", ["m", "+", "n"]),
    _entry_explicit("Y", ["2", "*", "m", "+", "n"]),
]


def _core_projections():
    out = [[e] for e in CORE_ENTRIES]
    for a, b in itertools.permutations(CORE_ENTRIES, 2):
        if a["rank"] != b["rank"]:
            out.append([a, b])
    return out


def _core_einsums():
    """exhaustive: one input; output and input each carry 1-2 entries of the 6-entry catalogue"""
    projs = _core_projections()
    for po in projs:
        for pi in projs:
            yield {"out": {"name": "C", "entries": po}, "ins": [{"name": "A", "entries": pi}]}


# ----------------------------------------------------------------------------- rendering
def _tokens(e):
    """[(text, tag)]; tensor index 0 = output, 1.. = inputs"""
    toks = []

    def tensor(t, ti):
        toks.append((t["name"], ("name", ti)))
        toks.append(("[", ("lbr", ti)))
        for j, en in enumerate(t["entries"]):
            if j:
                toks.append((",", ("comma", ti, j)))
            if en["kind"] == "bare":
                toks.append((en["toks"][0], ("bare", ti, j)))
            else:
                toks.append((en["rank"], ("rank", ti, j)))
                toks.append((":", ("colon", ti, j)))
                for x in en["toks"]:
                    toks.append((x, ("expr", ti, j)))
        toks.append(("]", ("rbr", ti)))

    tensor(e["out"], 0)
    toks.append(("=", ("eq",)))
    for i, t in enumerate(e["ins"]):
        if i:
            toks.append(("*", ("star", i)))
        tensor(t, i + 1)
    return toks


def _join(texts, pattern, rnd=None):
    if pattern == "none":
        return "".join(texts)
    if pattern == "wide":
        return "  " + "  ".join(texts) + "  "
    if pattern == "tabs":
        return "\t" + "\t".join(texts) + "\t"
    if pattern == "random":
        gaps = ["", "", " ", "  ", "\t", " \t", "\n "]
        s = rnd.choice(gaps)
        for t in texts:
            s += t + rnd.choice(gaps)
        return s
    # canon: the style of the docs: "C[m, N: n] = A[m] * B[n]"
    s, depth = "", 0
    for i, t in enumerate(texts):
        if t == "[":
            depth += 1
        if t == "]":
            depth -= 1
        s += t
        nxt = texts[i + 1] if i + 1 < len(texts) else None
        if nxt is None:
            break
        if t in (",", ":"):
            s += " "
        elif t == "=" or nxt == "=":
            s += " "
        elif depth == 0 and (t == "*" or nxt == "*"):
            s += " "
    return s


def _render(e, pattern, rnd=None):
    return _join([t for t, _ in _tokens(e)], pattern, rnd)


def _nows(s):
    return re.sub(r"\s+", "", str(s))


def _expected(e):
    """[[name, [[rank, expr]...], output]...] inputs in order, then the output (docs order)"""
    def proj(t):
        return [[en["rank"], "".join(en["toks"])] for en in t["entries"]]

    return [[t["name"], proj(t), False] for t in e["ins"]] + [[e["out"]["name"], proj(e["out"]), True]]


def _verbose_dict(e, spaced):
    """the verbose form the docs show: list projection when all entries are bare, dict otherwise;
    in the dict form a bare entry x is written X: x (x.upper() by the documented convention)."""
    def proj(t):
        if all(en["kind"] == "bare" for en in t["entries"]):
            return [en["toks"][0] for en in t["entries"]]
        sep = " " if spaced else ""
        return {en["rank"]: sep.join(en["toks"]) for en in t["entries"]}

    tas = [{"name": t["name"], "projection": proj(t)} for t in e["ins"]]
    tas.append({"name": e["out"]["name"], "projection": proj(e["out"]), "output": True})
    return {"name": e["out"]["name"], "tensor_accesses": tas}


# ----------------------------------------------------------------------------- views of real objects
def _view_obj(ein):
    return [[str(t.name), [[str(k), _nows(v)] for k, v in t.projection.items()], bool(t.output)] for t in ein.tensor_accesses]


def _view_parsed(d):
    return [[str(t["name"]), [[str(k), _nows(v)] for k, v in dict(t["projection"]).items()], bool(t["output"])] for t in d["tensor_accesses"]]


def _dump(ein):
    d = ein.model_dump()
    for t in d.get("tensor_accesses", []):
        t["projection"] = [[k, _nows(v)] for k, v in dict(t["projection"]).items()]
    return json.loads(json.dumps(d, default=str))


class _Fail(Exception):
    def __init__(self, case, observed, required, what):
        self.info = {"input": case, "observed": observed, "required": required, "what": what}


# ----------------------------------------------------------------------------- extras
def _extras(e):
    out, in0 = e["out"]["name"], e["ins"][0]["name"]
    rank0 = e["out"]["entries"][0]["rank"]
    var0 = [t for t in e["out"]["entries"][0]["toks"] if re.fullmatch(r"[a-z]\w*", t)][0]
    return [
        ("n_instances", {"n_instances": 3}, lambda c: c.n_instances == 3),
        ("is_copy_operation", {"is_copy_operation": True}, lambda c: c.is_copy_operation is True),
        ("renames", {"renames": {"input": in0, "output": out}},
         lambda c: [(str(r.name), str(r.source)) for r in c.renames] == [("input", in0), ("output", out)]),
        ("rank_sizes", {"rank_sizes": {rank0: 4}}, lambda c: dict(c.rank_sizes) == {rank0: 4}),
        ("iteration_space_shape", {"iteration_space_shape": [f"0 <= {var0} < 4"]},
         lambda c: list(c.iteration_space_shape) == [f"0 <= {var0} < 4"]),
        ("tensor_accesses", {"tensor_accesses": [{"name": in0, "bits_per_value": 16, "persistent": True}]},
         lambda c: [(t.bits_per_value, t.persistent) for t in c.tensor_accesses]
         == [(16, True)] + [(None, False)] * (len(c.tensor_accesses) - 1)),
    ]


def _verbose_with(vd, extra):
    vd = copy.deepcopy(vd)
    for k, v in copy.deepcopy(extra).items():
        if k == "tensor_accesses":
            for add in v:
                for t in vd["tensor_accesses"]:
                    if t["name"] == add["name"]:
                        t.update({a: b for a, b in add.items() if a != "name"})
        else:
            vd[k] = v
    return vd


# ----------------------------------------------------------------------------- independent recogniser
_NAME = r"[A-Za-z_]\w*"
_TERM = r"(?:[a-z]\w*|[0-9]+)"
_EXPR = rf"{_TERM}(?:[+*-]{_TERM})*"
_ENTRY = rf"(?:[a-z]\w*|[A-Z]\w*:{_EXPR})"
_TENSOR = rf"{_NAME}\[{_ENTRY}(?:,{_ENTRY})*\]"
_EINSUM = re.compile(rf"{_TENSOR}={_TENSOR}(?:\*{_TENSOR})*")


def in_language(s):
    """documented grammar: Out[entries] = In[entries] (* In[entries])*, entry = var | Rank: expr,
    var lower-case, Rank upper-case, entries non-empty, ranks unique within a tensor."""
    s = _nows(s)
    if not _EINSUM.fullmatch(s):
        return False
    for body in re.findall(r"\[([^\]]*)\]", s):
        ranks = [p.split(":")[0] if ":" in p else p.upper() for p in body.split(",")]
        if len(set(ranks)) != len(ranks):
            return False
    return True


# ----------------------------------------------------------------------------- mutations
def _mutants(e, rnd):
    """yield (class, kept, string). kept=False: the unchanged real parser is known (by reading
    the code) to accept this sub-class; it is only counted, never required to raise."""
    toks = _tokens(e)
    texts = [t for t, _ in toks]
    tags = [g for _, g in toks]
    n_in = len(e["ins"])
    pat = rnd.choice(["none", "canon"])

    def idx(tag):
        return tags.index(tag)

    def out(cls, kept, new):
        return (cls, kept, _join(new, pat))

    def without(i):
        return texts[:i] + texts[i + 1:]

    def dup(i):
        return texts[:i + 1] + [texts[i]] + texts[i + 1:]

    def repl(i, new):
        return texts[:i] + list(new) + texts[i + 1:]

    eq = idx(("eq",))
    yield out("del_eq", True, without(eq))
    yield out("dup_eq", True, dup(eq))
    for pos in sorted({0, len(texts), idx(("lbr", 1)) + 1, idx(("rbr", 0)), rnd.randrange(len(texts) + 1)}):
        yield out("second_eq", True, texts[:pos] + ["="] + texts[pos:])
    yield out("no_output", True, texts[eq:])
    yield out("no_output", True, texts[eq + 1:])
    yield out("no_input", True, texts[:eq + 1])
    yield out("no_input", True, texts[:eq])
    yield out("empty_out_name", True, without(idx(("name", 0))))
    yield out("digit_out_name", True, repl(idx(("name", 0)), ["2" + texts[idx(("name", 0))]]))
    yield out("braces", True, [{"[": "{", "]": "}"}.get(t, t) for t in texts])
    yield out("parens", True, [{"[": "(", "]": ")"}.get(t, t) for t in texts])
    for cls, f, tg in (("del_lbr_out", without, "lbr"), ("del_rbr_out", without, "rbr"), ("dup_lbr_out", dup, "lbr"), ("dup_rbr_out", dup, "rbr")):
        yield out(cls, True, f(idx((tg, 0))))
    for i in range(1, n_in + 1):
        t = e["ins"][i - 1]
        sole, last = n_in == 1, i == n_in
        yield out("empty_in_name" if sole else "empty_in_name[one of several inputs]", sole, without(idx(("name", i))))
        yield out("del_lbr_in" if sole else "del_lbr_in[one of several inputs]", sole, without(idx(("lbr", i))))
        if sole:
            yield out("del_rbr_in", True, without(idx(("rbr", i))))
        elif last:
            yield out("del_rbr_in[last of several inputs]", False, without(idx(("rbr", i))))
        elif t["entries"][-1]["kind"] == "bare":
            yield out("del_rbr_in", True, without(idx(("rbr", i))))
        else:
            yield out("del_rbr_in[last entry is 'Rank: expr']", False, without(idx(("rbr", i))))
        yield out("dup_lbr_in", True, dup(idx(("lbr", i))))
        yield out("dup_rbr_in", False, dup(idx(("rbr", i))))
        if i > 1:
            yield out("del_star", False, without(idx(("star", i - 1))))
    yield out("trailing_junk", False, texts + ["*"])
    # entry-level mutations on one random tensor (and always on the output)
    for ti in sorted({0, rnd.randint(0, n_in)}):
        t = e["out"] if ti == 0 else e["ins"][ti - 1]
        lbr, rbr = idx(("lbr", ti)), idx(("rbr", ti))
        yield out("empty_projection", True, texts[:lbr + 1] + texts[rbr:])
        yield out("empty_entry", True, texts[:rbr] + [","] + texts[rbr:])
        yield out("empty_entry", True, texts[:lbr + 1] + [","] + texts[lbr + 1:])
        if len(t["entries"]) > 1:
            yield out("empty_entry", True, dup(idx(("comma", ti, 1))))
        for j, en in enumerate(t["entries"]):
            if en["kind"] == "bare":
                b = idx(("bare", ti, j))
                yield out("upper_bare", True, repl(b, [texts[b].upper()]))
                yield out("bare_expression", True, repl(b, [texts[b], "+", "z"]))
                yield out("dup_rank_explicit_after", True, texts[:rbr] + [",", en["rank"], ":", "z"] + texts[rbr:])
                yield out("dup_rank[bare entry after same rank]", False, texts[:rbr] + [",", texts[b]] + texts[rbr:])
            else:
                r, c = idx(("rank", ti, j)), idx(("colon", ti, j))
                yield out("lower_rank", True, repl(r, [texts[r][0].lower() + texts[r][1:]]))
                yield out("dup_colon", True, dup(c))
                yield out("del_colon", True, without(c))
                yield out("empty_rank_name", True, without(r))
                yield out("bare_expression", True, texts[:r] + texts[c + 1:]) if len(en["toks"]) > 1 else None
                yield out("dup_rank_explicit_after", True, texts[:rbr] + [",", en["rank"], ":", "z"] + texts[rbr:])
                if re.fullmatch(r"[A-Z][A-Z0-9_]*", en["rank"]):
                    yield out("dup_rank[bare entry after same rank]", False, texts[:rbr] + [",", en["rank"].lower()] + texts[rbr:])
                last_expr = max(k for k, g in enumerate(tags) if g == ("expr", ti, j))
                yield out("empty_expression", False, texts[:c + 1] + texts[last_expr + 1:])


def _entry_mutants(e):
    """malformed `einsum:` dict entries (docs: 'an error will be raised if these are specified
    again in the same entry')."""
    s = _render(e, "canon")
    in0, outn = e["ins"][0]["name"], e["out"]["name"]
    return [
        ("entry_respecify_projection", {"einsum": s, "tensor_accesses": [{"name": in0, "projection": ["m"]}]}),
        ("entry_respecify_output", {"einsum": s, "tensor_accesses": [{"name": outn, "output": True}]}),
        ("entry_unknown_tensor", {"einsum": s, "tensor_accesses": [{"name": "NoSuchTensor", "bits_per_value": 8}]}),
        ("entry_nameless_access", {"einsum": s, "tensor_accesses": [{"bits_per_value": 8}]}),
        ("entry_unknown_field", {"einsum": s, "no_such_field": 1}),
    ]


# ----------------------------------------------------------------------------- the check
RULE = (
    "Well-formed family: (core, exhaustive) every Einsum with one input where output and input each carry 1-2 entries of the "
    "catalogue {m, n, M: m, N: m, X: m+n, Y: 2*m+n} with pairwise distinct rank names (32 x 32 = 1024 Einsums); (random, seeded) "
    "Einsums with 1-3 inputs (thorough 1-4), distinct tensor names from an 11-name pool, 1-3 entries per tensor (thorough 1-4) "
    "over rank variables {m,n,k,p,b,h0,mc}; an entry is a bare variable x (rank X = x.upper()), 'X: x', 'Name: x' or "
    "'Name: <expr>' with <expr> in {a+b, 2*a+b, a*16+b, a+b+c, a-b, 3*a, a+1}. Each Einsum is rendered under whitespace patterns "
    "none / docs style / two spaces between all tokens / tabs between all tokens / random gaps incl. newline (core: none + one "
    "rotating pattern in quick, all in thorough) and parsed by the real _parse_einsum_string and Workload(einsums=[str]); both must "
    "give exactly the expected ordered (tensor name, ordered rank->expression map, output flag) list, which must also equal the "
    "real verbose forms (dict form and Einsum/TensorAccess object form, incl. full model_dump equality). Six extra-attribute "
    "patterns on {'einsum': str, ...} (n_instances, is_copy_operation, renames, rank_sizes, iteration_space_shape, per-tensor "
    "bits_per_value+persistent merge) must leave tensors/projections/flags unchanged, carry the attribute, and equal the verbose "
    "Einsum with the same attribute; a subset also goes through Workload.from_yaml (string item, einsum: item, verbose item). "
    "Malformed family: single-edit mutants of the well-formed strings, each confirmed outside the documented grammar by an "
    "independent recogniser, must raise in both _parse_einsum_string and Workload(einsums=[s]); kept classes: del_eq, dup_eq, "
    "second_eq, no_output, no_input, empty_out_name, digit_out_name, braces, parens, del/dup '[' and ']' of the output, "
    "dup_lbr_in, empty_in_name/del_lbr_in/del_rbr_in (sole input; del_rbr_in also for a non-final input whose last entry is bare), "
    "empty_projection (0-rank tensor 'T[]'), empty_entry, upper_bare, lower_rank, dup_colon, del_colon, empty_rank_name, "
    "bare_expression, dup_rank_explicit_after; plus malformed einsum: dicts (projection/output given again, unknown tensor, "
    "nameless access, unknown field). Accepted by the real parser, not treated as malformed (only counted, see dropped_classes): "
    "dup_rbr_in ('A[m]]'), del_star / trailing_junk (RHS separators are not validated), empty_in_name and del_lbr_in for one of "
    "several inputs (that tensor is silently dropped), del_rbr_in for the last of several inputs (dropped) or after a "
    "'Rank: expr' entry (expression swallows the next tensor), dup_rank by a bare entry after the same rank (silently "
    "overwrites), empty_expression ('M:'). Not a mutation class: deleting ',' (stays in the language). "
    "excluded from the well-formed family: duplicated rank name within one tensor ('M: n, m' parses as {M: m}); the same tensor "
    "name twice in one Einsum or output name == an input name (Workload(einsums=[str]) keeps one access per name, the verbose "
    "form keeps all); 0-rank tensors (verbose 'projection: []' is accepted, concise 'T[]' is rejected: checked as malformed "
    "class empty_projection)."
)


def bounded(p):
    from accelforge.frontend.workload import Workload, Einsum, TensorAccess, _parse_einsum_string

    seed = int(p.get("seed", 0))
    known_ids = {e.get("class_id") for e in (p.get("known") or [])}
    thorough = p.get("tier", "quick") == "thorough"
    rnd = random.Random(seed)
    max_in, max_ranks = (4, 4) if thorough else (3, 3)
    n_random = 1500 if thorough else 200
    n_mut_sources = 400 if thorough else 80
    yaml_every = 5 if thorough else 4

    st = {"evaluations": 0, "distinct": set(), "samples": [], "kept": {}, "dropped": {}, "not_mutants": 0,
          "well_formed_einsums": 0, "malformed_strings": 0}
    tmpdir = tempfile.mkdtemp(prefix="c23_")

    def counters():
        return {
            "evaluations": st["evaluations"], "distinct": len(st["distinct"]), "rule": RULE,
            "bound": f"core: 1024 one-input Einsums (exhaustive); random: {n_random} Einsums, <= {max_in} inputs, <= {max_ranks} entries per tensor, "
                     f"7 rank variables, 5 whitespace patterns, 6 extra-attribute patterns; single-edit mutants of {n_mut_sources} strings",
            "exhaustive": False, "samples": st["samples"][:10],
            "well_formed_einsums": st["well_formed_einsums"], "malformed_strings": st["malformed_strings"],
            "kept_classes": st["kept"], "dropped_classes": st["dropped"], "mutants_still_in_language_skipped": st["not_mutants"],
            "assumptions": ["exhaustive only for the 1024-Einsum core; the random part is a seeded sample",
                            "any exception type counts as 'rejected'"],
        }

    def real(case, what, fn):
        st["evaluations"] += 1
        try:
            return fn()
        except Exception as ex:  # the real code must accept a well-formed input
            raise _Fail(case, f"{type(ex).__name__}: {str(ex)[:300]}", "accepted, equal to the verbose form", what)

    def need(cond, case, observed, required, what):
        if not cond:
            raise _Fail(case, observed, required, what)

    def yaml_load(items):
        path = os.path.join(tmpdir, "w.yaml")
        with open(path, "w") as f:
            f.write("workload:\n  einsums:\n")
            for it in items:
                f.write("  - " + json.dumps(it) + "\n")  # JSON is YAML (flow style, escaped \t \n)
        return Workload.from_yaml(path, top_key="workload")

    def check_well_formed(e, patterns, with_extras, with_yaml):
        want = _expected(e)
        st["well_formed_einsums"] += 1
        vd = _verbose_dict(e, spaced=False)
        v1 = real(vd, "verbose dict form", lambda: Workload(einsums=[copy.deepcopy(vd)]).einsums[0])
        need(_view_obj(v1) == want, vd, _view_obj(v1), want, "verbose dict form vs generated structure")
        vref = _dump(v1)
        if with_extras:
            vs = _verbose_dict(e, spaced=True)
            v2 = real(vs, "verbose object form", lambda: Workload(einsums=[Einsum(
                name=vs["name"], tensor_accesses=[TensorAccess(**t) for t in vs["tensor_accesses"]])]).einsums[0])
            need(_dump(v2) == vref, vs, _dump(v2), vref, "verbose object form vs verbose dict form")
        for pat in patterns:
            s = _render(e, pat, rnd)
            st["distinct"].add(s)
            if len(st["samples"]) < 6 and st["well_formed_einsums"] % 97 in (1, 50):
                st["samples"].append(s)
            need(in_language(s), s, "recogniser rejects", "recogniser accepts a generated string", "checker self-consistency")
            r = real(s, "_parse_einsum_string", lambda: _parse_einsum_string(s))
            need(r.get("name") == e["out"]["name"] and _view_parsed(r) == want, s, {"name": r.get("name"), "tensors": _view_parsed(r)},
                 {"name": e["out"]["name"], "tensors": want}, f"_parse_einsum_string, whitespace pattern {pat}")
            c = real(s, "Workload(einsums=[str])", lambda: Workload(einsums=[s]).einsums[0])
            need(isinstance(c, Einsum) and str(c.name) == e["out"]["name"] and _view_obj(c) == want, s,
                 {"name": str(c.name), "tensors": _view_obj(c)}, {"name": e["out"]["name"], "tensors": want},
                 f"Workload(einsums=[str]), whitespace pattern {pat}")
            need(_dump(c) == vref, s, _dump(c), vref, f"concise vs verbose model_dump, whitespace pattern {pat}")
            need(sorted(map(str, c.input_tensor_names)) == sorted(t["name"] for t in e["ins"])
                 and list(map(str, c.output_tensor_names)) == [e["out"]["name"]], s,
                 {"inputs": list(map(str, c.input_tensor_names)), "outputs": list(map(str, c.output_tensor_names))},
                 {"inputs": [t["name"] for t in e["ins"]], "outputs": [e["out"]["name"]]}, "input/output tensor names")
        if with_extras:
            s = _render(e, rnd.choice(WS_PATTERNS), rnd)
            st["distinct"].add(s)
            for label, extra, has in _extras(e):
                entry = {"einsum": s, **copy.deepcopy(extra)}
                shown = {"einsum": s, **extra}
                c = real(shown, f"einsum: dict + {label}", lambda: Workload(einsums=[entry]).einsums[0])
                need(_view_obj(c) == want, shown, _view_obj(c), want, f"extra attribute {label} changed tensors/projections/flags")
                need(bool(has(c)), shown, _dump(c), f"{label} present on the result as given", f"extra attribute {label} lost")
                vx = _verbose_with(vd, extra)
                v = real(vx, f"verbose + {label}", lambda: Workload(einsums=[vx]).einsums[0])
                need(_dump(c) == _dump(v), shown, _dump(c), _dump(v), f"concise+{label} vs verbose+{label}")
        if with_yaml:
            s = _render(e, rnd.choice(WS_PATTERNS), rnd)
            st["distinct"].add(s)
            for label, item in (("string item", s), ("einsum: item", {"einsum": s, "n_instances": 2}), ("verbose item", {**vd, "n_instances": 2})):
                y = real(item, f"Workload.from_yaml {label}", lambda: yaml_load([item]).einsums[0])
                need(_view_obj(y) == want and y.n_instances == (1 if label == "string item" else 2), item,
                     {"tensors": _view_obj(y), "n_instances": y.n_instances}, want, f"YAML route, {label}")

    def must_reject(cls, case, fns):
        for what, fn in fns:
            st["evaluations"] += 1
            try:
                got = fn()
            except Exception:
                continue
            try:
                shown = _view_parsed(got) if isinstance(got, dict) else _view_obj(got.einsums[0])
            except Exception:
                shown = str(got)[:300]
            raise _Fail(case, {"accepted_by": what, "result": shown}, "an exception (string is outside the documented grammar)", f"malformed class {cls}")

    def check_malformed(e):
        for cls, kept, s in filter(None, _mutants(e, rnd)):
            if in_language(s):
                st["not_mutants"] += 1
                continue
            if s in st["distinct"]:
                continue
            st["distinct"].add(s)
            if kept:
                st["kept"][cls] = st["kept"].get(cls, 0) + 1
                st["malformed_strings"] += 1
                if len(st["samples"]) < 10 and st["malformed_strings"] % 401 == 7:
                    st["samples"].append({"malformed": s, "class": cls})
                must_reject(cls, s, [("_parse_einsum_string", lambda: _parse_einsum_string(s)),
                                     ("Workload(einsums=[str])", lambda: Workload(einsums=[s]))])
            else:  # classes that the unchanged parser accepts: known finding C23-malformed-accepted (see known_findings.json)
                d = st["dropped"].setdefault(cls, {"accepted": 0, "rejected": 0, "example": s})
                try:
                    Workload(einsums=[s])
                    d["accepted"] += 1
                    accepted = True
                except Exception:
                    d["rejected"] += 1
                    accepted = False
                if accepted:
                    if "C23-malformed-accepted" in known_ids:
                        st["known_finding_hits"] = st.get("known_finding_hits", 0) + 1
                    else:
                        raise _Fail({"malformed": s, "class": cls}, {"accepted_by": "Workload(einsums=[str])"}, "an exception (string is outside the documented grammar)", f"malformed class {cls} (finding C23-malformed-accepted is not listed as known)")
        for cls, entry in _entry_mutants(e):
            key = json.dumps(entry, sort_keys=True)
            if key in st["distinct"]:
                continue
            st["distinct"].add(key)
            st["kept"][cls] = st["kept"].get(cls, 0) + 1
            st["malformed_strings"] += 1
            must_reject(cls, entry, [("Workload(einsums=[dict])", lambda: Workload(einsums=[copy.deepcopy(entry)]))])

    try:
        try:
            sources = []
            for i, e in enumerate(_core_einsums()):
                pats = WS_PATTERNS if thorough else ["none", WS_PATTERNS[1 + i % 4]]
                check_well_formed(e, pats, with_extras=(i % 8 == seed % 8) or thorough, with_yaml=(i % 64 == seed % 64))
                if i % 37 == seed % 37:
                    sources.append(e)
            for i in range(n_random):
                e = _random_einsum(rnd, max_in, max_ranks)
                check_well_formed(e, WS_PATTERNS, with_extras=True, with_yaml=(i % yaml_every == 0))
                sources.append(e)
            for e in sources[:n_mut_sources]:
                check_malformed(e)
        except _Fail as f:
            return {"failed": True, **f.info, **counters()}
        return {"failed": False, **counters()}
    finally:
        shutil.rmtree(tmpdir, ignore_errors=True)


def replay(p):
    return bounded(p)


def crosscheck(p):
    return bounded({**p, "tier": "quick"})


F10_WITNESSES = ["C[m]=A[n]]", "C[m,n]=A[m,k]B[k,n]", "C[m,n] = [m,k] * B[k,n]", "C[m]=A[M:]", "C[m]=A[M:n,m]"]


def witness(p):
    """known finding C23-malformed-accepted: malformed concise strings that the real parser accepts"""
    from accelforge.frontend.workload import Workload

    accepted = []
    for s in F10_WITNESSES:
        try:
            Workload(einsums=[s])
            accepted.append(s)
        except Exception:
            pass
    return {"failed": bool(accepted), "observed": f"accepted without error: {accepted}"}
