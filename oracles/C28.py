"""Bounded run-time contract check for C28: result breakdowns aggregate consistently to the reported totals.

The REAL methods Mappings.energy / actions / latency / resource_usage (accelforge/mapper/FFM/mappings.py)
are called on Mappings objects built directly around synthetic pandas DataFrames whose column names follow
the convention of the model / mapper:

    <Einsum><SEP>energy<SEP><component><SEP><tensor | None><SEP><action>     dynamic energy
    <Einsum><SEP>energy<SEP><component><SEP>leak                             leak energy (no tensor)
    <Einsum><SEP>action<SEP><component><SEP><tensor | None><SEP><action>     action counts
    <Einsum><SEP>latency<SEP><component>                                     per-component latency
    reservation<SEP><memory><SEP><n loops><SEP>right|left                    reservations (not per Einsum)
    Total<SEP>energy, Total<SEP>latency                                      totals (present or not)
    + columns the methods must ignore (Total<SEP>mapping, Total<SEP>energy_delay_product, <Einsum><SEP>mapping,
      <Einsum><SEP>usage<SEP>memory<SEP>.., <Einsum><SEP>first_latency<SEP>..)

Every table is generated FROM a ground truth written here: a list of entries (einsum, component, tensor,
action) -> one value per row.  The required results are group-by sums / maxima of that list (no function of
the repository takes part in a required value):

  energy(flags)   == {projection of the entry key on the kept positions: sum of the entries}, for all 16
                     flag combinations; with no flag, the sum of everything, which is also the value written
                     to the Total<SEP>energy column when that column is present.  Leak entries carry the tensor
                     None (documented), tensor-less actions (compute) the string 'None' (column convention).
  actions(flags)  == the same for the action entries, the action name is always kept (8 combinations).
  latency()       == sum over Einsums of the max over components (== Total<SEP>latency when present);
                     per_einsum: {e: max over components}; per_component: {c: sum over Einsums};
                     both: {(e, c): value}.
  resource_usage()== {memory: max over the reservation columns of that memory}.
  literal form    : for every flag combination the per-row sum of the values of the returned breakdown equals
                     the value returned without flags (energy) / is the same for every combination (actions).
  shape           : a one-row table gives scalars, or one-element lists with list_if_one_mapping=True; a table
                     with n > 1 rows gives lists of length n.
  repeated calls  : the combinations are called in a seeded random order, some twice; the DataFrame of the
                     object is unchanged afterwards.
  mappings[i]     : for tables with several rows the real Mappings.__getitem__(i) (an object-dtype one-row
                     table) must give row i of the required values.

All values are dyadic rationals with short mantissas, so every sum is exact in float64 whatever the order.

END-TO-END PART (real result tables).  The same methods are also called on the Mappings objects that the REAL
Spec.evaluate_mapping() (and, in thorough mode, Spec.map_workload_to_arch()) returns for the small example
specs shipped with the tree under test (examples/arches/simple.yaml with examples/workloads/basic/matmuls.yaml /
matvecs.yaml and the mappings of examples/mappings; tests/input_files/toll.arch.yaml for one mapper run), in variants
that drive the scaling paths of the model: Workload.n_instances and Einsum.n_instances > 1, components with
non-zero leak_power, 1-3 Einsums (fused and unfused), finite buffer throughput (different bottleneck components per
Einsum), finite buffer size (non-zero reservations), other energy per action.  The ground truth is read off the
RAW COLUMNS of the returned table by a parser written here (split on <SEP>; nothing of Mappings.access / _get_cols
takes part): entries (Einsum, component, tensor | None for leak, action) for energy and action counts, (Einsum,
component) for latency, (memory, level, side) for reservations.  Required, within 1e-9 relative:
  * sum of ALL raw energy columns == Total<SEP>energy; sum of the raw leak columns == Total<SEP>leak_energy and
    sum of the raw non-leak columns == Total<SEP>dynamic_energy (when the model reports them), and
    Total<SEP>leak_energy + Total<SEP>dynamic_energy == Total<SEP>energy;
  * energy() == Total<SEP>energy; for all 16 flag combinations energy(flags) == group-by sums of the raw entries,
    key by key, and the values of every breakdown sum to Total<SEP>energy; the 'leak' entries and the other
    entries of energy(per_action=True) add up to the two partial totals;
  * actions(flags) == group-by sums of the raw action columns for all 8 combinations, and the sums of the values
    agree across the combinations; every dynamic energy entry == the action count of the same (Einsum, component,
    tensor, action) x the configured energy per action of that component (simple.yaml variants: the number is in
    the variant), so that a scale factor applied to the energy entries but not to the action counts is seen;
  * latency() == Total<SEP>latency == sum over Einsums of the max over the raw component latency columns; the
    per-Einsum / per-component / both variants against their definitions;
  * resource_usage() == max over the raw reservation columns per memory;
  * shape (scalar / one-element list / list of n), repeated calls in seeded random order, table unchanged, and for
    multi-row mapper results the real mappings[i] against row i.
"""
import itertools, os, random
from types import SimpleNamespace as NS

SEP = "<SEP>"

CLASSES = {
    # predicate on a case (see _rand_case): some energy / action entry of a component whose name is also the
    # name of the entry's tensor
    "C28-component-named-as-tensor": lambda case: any(
        ent[0] == ent[1] for e in case["einsums"] for ent in e["energy"] + e["actions"]
    ),
}

WITNESS = {
    "C28-component-named-as-tensor": {
        "rows": 1, "index": "default", "total_energy": True, "total_latency": True, "extras": False, "order": 0,
        "einsums": [{
            "name": "E0", "tensors": ["A", "W"],
            "energy": [["W", "W", "read", [3.0]], ["W", "A", "read", [5.0]], ["MAC", "None", "compute", [7.0]], ["W", None, "leak", [11.0]]],
            "actions": [["W", "W", "read", [3.0]], ["W", "A", "read", [5.0]], ["MAC", "None", "compute", [7.0]]],
            "latency": [["W", [5.0]], ["MAC", [2.0]]],
        }],
        "reservations": [["W", -1, "right", [0.5]]],
        "int_cols": 0,
    },
}

E_FLAGS = list(itertools.product((False, True), repeat=4))
A_FLAGS = list(itertools.product((False, True), repeat=3))
L_FLAGS = list(itertools.product((False, True), repeat=2))

VALS = [0, 0, 1, 1, 2, 3, 5, 7, 0.25, 0.5, 1.5, 16, 100, 1024, 65536, 524288, 3.75, 1048576]
RVALS = [0, 0, 0.125, 0.25, 0.25, 0.5, 0.75, 1.0, 0.0625]


# ------------------------------------------------------------------ case -> real Mappings object

def _columns(case):
    """Ordered list of (column name, values, kind)."""
    cols, n = [], case["rows"]
    tot_e, tot_l = [0.0] * n, [0.0] * n
    for e in case["einsums"]:
        en = e["name"]
        for comp, tensor, action, vals in e["energy"]:
            if tensor is None:
                cols.append((f"{en}{SEP}energy{SEP}{comp}{SEP}{action}", vals))
            else:
                cols.append((f"{en}{SEP}energy{SEP}{comp}{SEP}{tensor}{SEP}{action}", vals))
            tot_e = [a + b for a, b in zip(tot_e, vals)]
        for comp, tensor, action, vals in e["actions"]:
            cols.append((f"{en}{SEP}action{SEP}{comp}{SEP}{tensor}{SEP}{action}", vals))
        if e["latency"]:
            mx = [max(v[r] for _, v in e["latency"]) for r in range(n)]
            tot_l = [a + b for a, b in zip(tot_l, mx)]
        for comp, vals in e["latency"]:
            cols.append((f"{en}{SEP}latency{SEP}{comp}", vals))
    for mem, nloops, side, vals in case["reservations"]:
        cols.append((f"reservation{SEP}{mem}{SEP}{nloops}{SEP}{side}", vals))
    if case["total_energy"]:
        cols.append((f"Total{SEP}energy", tot_e))
    if case["total_latency"]:
        cols.append((f"Total{SEP}latency", tot_l))
    return cols, tot_e, tot_l


def _build(case):
    import pandas as pd
    from accelforge.mapper.FFM.mappings import Mappings

    n = case["rows"]
    cols, tot_e, tot_l = _columns(case)
    rnd = random.Random(case["order"])
    data = {}
    for k, (name, vals) in enumerate(cols):
        if case["int_cols"] and (k * 7 + case["int_cols"]) % 3 == 0 and all(float(v).is_integer() for v in vals):
            data[name] = [int(v) for v in vals]
        else:
            data[name] = [float(v) for v in vals]
    if case["extras"]:
        data[f"Total{SEP}energy_delay_product"] = [a * b for a, b in zip(tot_e, tot_l)]
        data[f"Total{SEP}mapping"] = [f"<mapping {r}>" for r in range(n)]
        for e in case["einsums"]:
            data[f"{e['name']}{SEP}mapping"] = [f"<pmapping {e['name']} {r}>" for r in range(n)]
            if e["tensors"]:
                data[f"{e['name']}{SEP}usage{SEP}memory{SEP}GlobalBuffer{SEP}{e['tensors'][0]}"] = [0.5] * n
            data[f"{e['name']}{SEP}first_latency{SEP}MAC{SEP}0"] = [123.0] * n
            data[f"{e['name']}{SEP}usage{SEP}spatial{SEP}MAC{SEP}X"] = [1.0] * n
    names = list(data)
    if case["order"]:
        rnd.shuffle(names)
    index = {"default": list(range(n)), "dup": [0] * n, "shuffled": [(7 * r + 3) % 11 for r in range(n)]}[case["index"]]
    df = pd.DataFrame({k: data[k] for k in names}, index=index)
    spec = NS(workload=NS(einsums={e["name"]: NS(tensor_names=list(e["tensors"])) for e in case["einsums"]}))
    m = Mappings(spec, [e["name"] for e in case["einsums"]], df, n, n, None, None)
    return m, df.copy(deep=True), tot_e, tot_l


# ------------------------------------------------------------------ required values (ground truth group-bys)

def _group(entries, keep, n):
    """entries: list of (key tuple, vals). keep: positions kept. -> {projected key: per-row sums}"""
    out = {}
    for key, vals in entries:
        k = tuple(key[i] for i in keep)
        if len(keep) == 1:
            k = k[0]
        cur = out.get(k)
        out[k] = list(vals) if cur is None else [a + b for a, b in zip(cur, vals)]
    return out


def _req_energy(case, flags):
    n = case["rows"]
    entries = [((e["name"], c, t, a), v) for e in case["einsums"] for c, t, a, v in e["energy"]]
    keep = [i for i, f in enumerate(flags) if f]
    if not keep:
        tot = [0.0] * n
        for _, v in entries:
            tot = [a + b for a, b in zip(tot, v)]
        return tot
    return _group(entries, keep, n)


def _req_actions(case, flags):
    entries = [((e["name"], c, t, a), v) for e in case["einsums"] for c, t, a, v in e["actions"]]
    keep = [i for i, f in enumerate(tuple(flags) + (True,)) if f]
    return _group(entries, keep, case["rows"])


def _req_latency(case, flags):
    n = case["rows"]
    per_einsum, per_component = flags
    if per_einsum and per_component:
        return {(e["name"], c): list(v) for e in case["einsums"] for c, v in e["latency"]}
    if per_component:
        out = {}
        for e in case["einsums"]:
            for c, v in e["latency"]:
                out[c] = list(v) if c not in out else [a + b for a, b in zip(out[c], v)]
        return out
    mx = {e["name"]: [max(v[r] for _, v in e["latency"]) for r in range(n)] for e in case["einsums"] if e["latency"]}
    if per_einsum:
        return mx
    tot = [0.0] * n
    for v in mx.values():
        tot = [a + b for a, b in zip(tot, v)]
    return tot


def _req_resources(case):
    out = {}
    for mem, _, _, vals in case["reservations"]:
        out[mem] = list(vals) if mem not in out else [max(a, b) for a, b in zip(out[mem], vals)]
    return out


# ------------------------------------------------------------------ comparison

def _num(x):
    try:
        return float(x)
    except Exception:
        return None


def _same_vec(got, want_rows, n_table, list_if_one):
    """want_rows: the required values for the rows of the table.  Shape-strict."""
    if n_table == 1 and not list_if_one:
        if isinstance(got, (list, tuple, dict)) or hasattr(got, "iloc") or getattr(got, "ndim", 0):
            return False
        g = _num(got)
        return g is not None and g == float(want_rows[0])
    if not isinstance(got, list) or len(got) != len(want_rows):
        return False
    return all(_num(g) is not None and _num(g) == float(w) for g, w in zip(got, want_rows))


def _same(got, want, rows, n_table, list_if_one):
    """want: list over all rows of the case, or dict of such lists. rows: the case rows present in the table."""
    if isinstance(want, dict):
        if not isinstance(got, dict) or set(got.keys()) != set(want.keys()):
            return False
        return all(_same_vec(got[k], [want[k][r] for r in rows], n_table, list_if_one) for k in want)
    if isinstance(got, dict):
        return False
    return _same_vec(got, [want[r] for r in rows], n_table, list_if_one)


def _row_sums(got, n_table, list_if_one):
    """per-row sum of the values of a returned breakdown (literal form of the statement)"""
    width = 1 if (n_table == 1 and not list_if_one) else n_table
    tot = [0.0] * width
    vals = got.values() if isinstance(got, dict) else [got]
    for v in vals:
        v = v if isinstance(v, list) else [v]
        if len(v) != width:
            return None
        tot = [a + float(b) for a, b in zip(tot, v)]
    return tot


def _show(x):
    if isinstance(x, dict):
        return {str(k): _show(v) for k, v in x.items()}
    if isinstance(x, list):
        return [_show(v) for v in x]
    f = _num(x)
    return f if f is not None else repr(x)


def _pick(want, rows):
    if isinstance(want, dict):
        return {str(k): [v[r] for r in rows] for k, v in want.items()}
    return [want[r] for r in rows]


class _Fail(Exception):
    def __init__(self, call, observed, required):
        self.call, self.observed, self.required = call, observed, required


def _check_object(m, case, rows, rnd, counters, skip_energy_actions, reduced):
    """All calls on one Mappings object `m` holding the rows `rows` of the case."""
    n_table = len(rows)
    calls = []
    for fl in E_FLAGS:
        calls.append(("energy", fl))
    for fl in A_FLAGS:
        calls.append(("actions", fl))
    for fl in L_FLAGS:
        calls.append(("latency", fl))
    calls.append(("resource_usage", ()))
    if reduced:
        calls = rnd.sample(calls, 9) + [("energy", (False,) * 4), ("latency", (False, False)), ("resource_usage", ())]
    else:
        calls = calls + rnd.sample(calls, 4)  # some combinations twice
    rnd.shuffle(calls)
    lio_default = rnd.random() < 0.5
    energy_totals, action_totals = [], []
    for k, (what, fl) in enumerate(calls):
        if skip_energy_actions and what in ("energy", "actions"):
            continue
        # both values of list_if_one_mapping for every combination on one-row tables, alternating values otherwise
        # (the flag can only matter for one-row tables; on multi-row tables it must merely have no effect)
        lios = (False, True) if (not reduced and (n_table == 1 or k % 5 == 0)) else ((lio_default,) if k % 2 else (not lio_default,))
        for lio in lios:
            try:
                if what == "energy":
                    got = m.energy(per_einsum=fl[0], per_component=fl[1], per_tensor=fl[2], per_action=fl[3], list_if_one_mapping=lio)
                    want = _req_energy(case, fl)
                elif what == "actions":
                    got = m.actions(per_einsum=fl[0], per_component=fl[1], per_tensor=fl[2], list_if_one_mapping=lio)
                    want = _req_actions(case, fl)
                elif what == "latency":
                    got = m.latency(per_einsum=fl[0], per_component=fl[1], list_if_one_mapping=lio)
                    want = _req_latency(case, fl)
                else:
                    got = m.resource_usage(list_if_one_mapping=lio)
                    want = _req_resources(case)
            except Exception as ex:  # an exception on a conventional table is a failure
                raise _Fail(f"{what}{fl} list_if_one_mapping={lio} rows={rows}", f"{type(ex).__name__}: {str(ex)[:300]}", "a value")
            counters["evaluations"] += 1
            if not _same(got, want, rows, n_table, lio):
                raise _Fail(f"{what}{fl} list_if_one_mapping={lio} rows={rows}", _show(got), _pick(want, rows))
            if what in ("energy", "actions"):
                s = _row_sums(got, n_table, lio)
                (energy_totals if what == "energy" else action_totals).append((fl, lio, s))
    # literal form: every breakdown sums to the same total; energy total == Total<SEP>energy column
    for name, tots in (("energy", energy_totals), ("actions", action_totals)):
        ref = None
        for fl, lio, s in tots:
            if s is None:
                raise _Fail(f"{name}{fl} row sums", "values of differing lengths", "one value per row")
            if ref is None:
                ref = s
            elif s != ref:
                raise _Fail(f"{name}{fl} sum of breakdown values vs other combinations", s, ref)
    col = f"Total{SEP}energy"
    if energy_totals and col in m.data.columns:
        colv = [float(x) for x in m.data[col]]
        if energy_totals[0][2] != colv:
            raise _Fail("energy breakdown sums vs Total<SEP>energy column", energy_totals[0][2], colv)
    col = f"Total{SEP}latency"
    if col in m.data.columns:
        got = m.latency(list_if_one_mapping=True)
        counters["evaluations"] += 1
        colv = [float(x) for x in m.data[col]]
        if not isinstance(got, list) or [float(x) for x in got] != colv:
            raise _Fail("latency() vs Total<SEP>latency column", _show(got), colv)


def _check(case, known_ids, counters):
    """None if the case passes, else a failure dict."""
    cid = None
    for c, pred in CLASSES.items():
        if pred(case):
            cid = c
    skip = cid is not None and cid in known_ids
    if skip:
        counters["known_finding_hits"] += 1
    rnd = random.Random(case["order"] * 31 + case["rows"])
    try:
        m, snapshot, _, _ = _build(case)
        n = case["rows"]
        _check_object(m, case, list(range(n)), rnd, counters, skip, reduced=False)
        if not m.data.equals(snapshot) or list(m.data.columns) != list(snapshot.columns):
            raise _Fail("DataFrame of the object after the calls", "changed", "unchanged")
        if n > 1:
            i = rnd.randrange(n)
            mi = m[i]
            _check_object(mi, case, [i], rnd, counters, skip, reduced=True)
            if not m.data.equals(snapshot):
                raise _Fail("DataFrame of the object after mappings[i] calls", "changed", "unchanged")
    except _Fail as f:
        return {"failed": True, "input": case, "call": f.call, "observed": f.observed, "required": f.required,
                "class": cid}
    return None


# ------------------------------------------------------------------ the family

COMPONENTS = ["MainMemory", "GlobalBuffer", "RegFile", "NoC", "MAC"]
TENSORS = ["A", "B", "W", "Z", "T0", "T1"]


def _vals(rnd, n, pool=VALS):
    return [float(rnd.choice(pool)) for _ in range(n)]


def _rand_case(rnd, big=False):
    n = rnd.choice([1, 1, 2, 2, 3, 4])
    n_e = rnd.choice([1, 1, 2, 2, 3])
    comps = rnd.sample(COMPONENTS[:4], rnd.randint(1, 4 if big else 3)) + ["MAC"]
    rnd.shuffle(comps)
    tensors_all = list(TENSORS)
    # sometimes a component carries the name of a tensor (class C28-component-named-as-tensor)
    twin = rnd.random() < 0.06
    if twin:
        comps[rnd.randrange(len(comps))] = rnd.choice(tensors_all)
    names = ["E0", "E1", "Matmul2"]
    einsums = []
    for k in range(n_e):
        tensors = rnd.sample(tensors_all, rnd.randint(1, 3))
        if twin and rnd.random() < 0.8:
            t = [c for c in comps if c in tensors_all]
            if t and t[0] not in tensors:
                tensors[0] = t[0]
        name = names[k]
        if rnd.random() < 0.25:  # an Einsum named after the tensor it produces (common in workloads)
            cand = [t for t in tensors if t not in [e["name"] for e in einsums] and t not in comps]
            if cand:
                name = cand[-1]
        if rnd.random() < 0.08 and "MAC" not in [e["name"] for e in einsums]:
            name = "MAC"  # an Einsum named like a component
        energy, actions, latency = [], [], []
        p_present = rnd.choice([0.3, 0.6, 0.9])
        for c in comps:
            is_compute = c == "MAC"
            if is_compute:
                if rnd.random() < 0.9:
                    energy.append([c, "None", "compute", _vals(rnd, n)])
                if rnd.random() < 0.9:
                    actions.append([c, "None", "compute", _vals(rnd, n)])
            else:
                for t in tensors:
                    for a in ("read", "write"):
                        if rnd.random() < p_present:
                            energy.append([c, t, a, _vals(rnd, n)])
                        if rnd.random() < p_present:
                            actions.append([c, t, a, _vals(rnd, n)])
                if rnd.random() < 0.15:  # tensor-less action of a non-compute component
                    energy.append([c, "None", "transfer", _vals(rnd, n)])
                    actions.append([c, "None", "transfer", _vals(rnd, n)])
            if rnd.random() < 0.7:
                energy.append([c, None, "leak", _vals(rnd, n)])
            if rnd.random() < 0.8:
                latency.append([c, _vals(rnd, n)])
        if latency and rnd.random() < 0.3:  # ties between components
            v = _vals(rnd, n)
            for l in latency[: rnd.randint(2, len(latency)) if len(latency) > 1 else 1]:
                l[1] = list(v)
        if rnd.random() < 0.05:  # an Einsum without any detailed column
            energy, actions, latency = [], [], []
        einsums.append({"name": name, "tensors": tensors, "energy": energy, "actions": actions, "latency": latency})
    # at least one energy entry and one latency entry overall (tables without any breakdown are outside the family)
    if not any(e["energy"] for e in einsums):
        einsums[0]["energy"].append(["MAC", "None", "compute", _vals(rnd, n)])
    if not any(e["latency"] for e in einsums):
        einsums[-1]["latency"].append(["MAC", _vals(rnd, n)])
    reservations = []
    for c in comps:
        if c == "MAC" or rnd.random() < 0.35:
            continue
        seen = set()
        for _ in range(rnd.randint(1, 3)):
            key = (rnd.choice([-1, 0, 1, 2]), rnd.choice(["right", "right", "left"]))
            if key in seen:
                continue
            seen.add(key)
            reservations.append([c, key[0], key[1], _vals(rnd, n, RVALS)])
    return {
        "rows": n, "index": rnd.choice(["default", "default", "dup", "shuffled"]),
        "total_energy": rnd.random() < 0.6, "total_latency": rnd.random() < 0.6, "extras": rnd.random() < 0.6,
        "order": rnd.choice([0, rnd.randrange(1, 10 ** 6)]), "int_cols": rnd.choice([0, 1, 2]),
        "einsums": einsums, "reservations": reservations,
    }


CORE_UNIVERSE = [("Mem", "A", "read"), ("Mem", "A", "write"), ("Buf", "A", "read"), ("MAC", "None", "compute"), ("Mem", None, "leak")]


def _core_cases(tier):
    """Exhaustive core: every non-empty subset of a 5-entry universe (2 components + compute, one tensor, leak)
    as the energy/action/latency content of ONE Einsum, for 1 and 2 rows; (thorough) every PAIR of subsets of the
    first 4 entries over TWO Einsums sharing the tensor, 2 rows."""
    def einsum(name, subset, n, salt):
        energy, actions, lat = [], [], {}
        for j, (c, t, a) in enumerate(subset):
            vals = [float((3 * j + 2 * r + salt) % 7 + (0.5 if (j + r) % 3 == 0 else 0)) for r in range(n)]
            energy.append([c, t, a, vals])
            if t is not None:
                actions.append([c, t, a, [v * 2 + 1 for v in vals]])
            lat.setdefault(c, [float((5 * j + r + salt) % 4) for r in range(n)])
        return {"name": name, "tensors": ["A"], "energy": energy, "actions": actions, "latency": [[c, v] for c, v in lat.items()]}

    def case(einsums, n, k):
        mems = sorted({c for e in einsums for c, _ in e["latency"] if c != "MAC"})
        res = [[c, lv, "right", [float((k + r + lv) % 5) / 4 for r in range(n)]] for c in mems for lv in (-1, 0)]
        return {"rows": n, "index": "default" if k % 2 else "dup", "total_energy": k % 3 != 0, "total_latency": k % 3 != 1,
                "extras": k % 2 == 0, "order": 0 if k % 4 else k + 1, "int_cols": k % 3, "einsums": einsums, "reservations": res}

    subsets = [s for r in range(1, 6) for s in itertools.combinations(CORE_UNIVERSE, r)]
    k = 0
    for s in subsets:
        for n in (1, 2):
            k += 1
            yield case([einsum("E0", s, n, k)], n, k)
    if tier == "thorough":
        sub4 = [s for r in range(1, 5) for s in itertools.combinations(CORE_UNIVERSE[:4], r)]
        for s0 in sub4:
            for s1 in sub4:
                k += 1
                yield case([einsum("E0", s0, 2, k), einsum("A", s1, 2, k + 3)], 2, k)


def _sample_text(case):
    parts = []
    for e in case["einsums"]:
        parts.append(f"{e['name']}[{','.join(e['tensors'])}]: {len(e['energy'])} energy, {len(e['actions'])} action, {len(e['latency'])} latency cols")
    return f"{case['rows']} row(s), index {case['index']}, " + "; ".join(parts) + f"; {len(case['reservations'])} reservation cols" + \
        (", Total energy" if case["total_energy"] else "") + (", Total latency" if case["total_latency"] else "") + (", extra cols" if case["extras"] else "")


# ------------------------------------------------------------------ end-to-end part: real result tables

REL = 1e-9


def _near(a, b):
    a, b = float(a), float(b)
    return a == b or abs(a - b) <= REL * max(abs(a), abs(b)) + 1e-300


def _near_vec(a, b):
    return len(a) == len(b) and all(_near(x, y) for x, y in zip(a, b))


def _tree_root():
    """Directory holding examples/ (and tests/input_files) of the tree under test: the parent of the imported
    accelforge package; $VF_REPO and the working directory as fall-backs.  None if there is none."""
    import accelforge

    cands = [os.path.dirname(os.path.dirname(os.path.abspath(accelforge.__file__))), os.environ.get("VF_REPO") or "", os.getcwd()]
    for c in cands:
        if c and os.path.isfile(os.path.join(c, "examples", "arches", "simple.yaml")):
            return c
    return None


_ONE_PROC = {"done": False}


def _single_process():
    """The harness budgets one core; accelforge otherwise starts one worker per CPU."""
    if not _ONE_PROC["done"]:
        for v in ("OMP_NUM_THREADS", "OPENBLAS_NUM_THREADS", "MKL_NUM_THREADS", "NUMEXPR_NUM_THREADS"):
            os.environ.setdefault(v, "1")
        from accelforge.util.parallel import set_n_parallel_jobs

        set_n_parallel_jobs(1)
        _ONE_PROC["done"] = True


REAL_BASES = [
    # (workload file, mapping file, N_EINSUMS or None)
    ("matmuls.yaml", "unfused_matmuls_to_simple.yaml", 1),
    ("matmuls.yaml", "unfused_matmuls_to_simple.yaml", 2),
    ("matmuls.yaml", "fused_matmuls_to_simple.yaml", 2),
    ("matmuls.yaml", "fused_matmuls_to_simple.yaml", 3),
    ("matvecs.yaml", "fused_matvecs_to_simple_tiled.yaml", None),
    ("matvecs.yaml", "fused_matvecs_to_simple_tiled_reuse_A.yaml", None),
    ("matvecs.yaml", "fused_matvecs_to_simple_untiled.yaml", None),
    ("matvecs.yaml", "unfused_matvecs_to_simple.yaml", None),
    # thorough only
    ("matmuls.yaml", "unfused_matmuls_to_simple.yaml", 3),
    # (fused_matmuls_to_simple.yaml with N_EINSUMS=1 stores T0 / T1 twice in GlobalBuffer and is not a valid mapping)
]


def _base_einsums(base):
    return [f"Matmul{i}" for i in range(base[2])] if base[2] is not None else ["Y", "Z"]


def _real_variant(base, wn, en, leak, k, m=8, kn=4, thr=None, mme=None, size=None):
    """A json-able description of one real spec.  en: Einsum -> n_instances; leak: component -> leak_power;
    thr / mme / size: GlobalBufferThroughput / MainMemoryEnergy / GlobalBufferSize of simple.yaml (None: its default)."""
    jd = {}
    if base[2] is not None:
        jd.update({"N_EINSUMS": base[2], "M": m, "KN": kn})
    if thr is not None:
        jd["GlobalBufferThroughput"] = thr
    if mme is not None:
        jd["MainMemoryEnergy"] = mme
    if size is not None:
        jd["GlobalBufferSize"] = size
    return {"real": "evaluate_mapping", "arch": "simple.yaml", "workload": base[0], "mapping": base[1], "jinja": jd, "workload_n_instances": wn,
            "einsum_n_instances": dict(en), "leak_power": dict(leak), "order": k}


def _real_core(tier):
    """Every base spec x Workload.n_instances {1, 3} x Einsum.n_instances {all 1, last Einsum 2 (quick) / also first Einsum 5}
    x leak {none, GlobalBuffer 0.5 + MAC 2}; throughput / energy per action / buffer size rotate."""
    bases = REAL_BASES[:8] if tier == "quick" else REAL_BASES
    k = 0
    for base in bases:
        es = _base_einsums(base)
        ens = [{}, {es[-1]: 2}] + ([] if tier == "quick" else [{es[0]: 5}, {e: 2 + i for i, e in enumerate(es)}])
        for wn in (1, 3):
            for en in ens:
                for leak in ({}, {"GlobalBuffer": 0.5, "MAC": 2}):
                    k += 1
                    yield _real_variant(base, wn, en, leak, k, thr=[None, 2, 8][k % 3], mme=[None, 3][(k // 2) % 2], size=[None, 1 << 20][(k // 3) % 2])


def _real_random(rnd, tier, k):
    base = rnd.choice(REAL_BASES)
    es = _base_einsums(base)
    en = {e: rnd.choice([2, 3, 5]) for e in es if rnd.random() < 0.5}
    leak = {c: rnd.choice([0.25, 0.5, 2, 3]) for c in ("MainMemory", "GlobalBuffer", "MAC") if rnd.random() < 0.5}
    return _real_variant(base, rnd.choice([1, 2, 3, 7]), en, leak, 1000 + k, m=rnd.choice([2, 4, 8, 16] if tier != "quick" else [2, 4, 8]), kn=rnd.choice([2, 4, 8] if tier != "quick" else [2, 4]),
                         thr=rnd.choice([None, 1, 2, 8, 64]), mme=rnd.choice([None, 2, 3, 0.5]), size=rnd.choice([None, 1 << 20, 1 << 16]))


def _real_spec(v, root):
    from accelforge.frontend.spec import Spec

    ex = os.path.join(root, "examples")
    spec = Spec.from_yaml(os.path.join(ex, "arches", v["arch"]), os.path.join(ex, "workloads", "basic", v["workload"]),
                          *([os.path.join(ex, "mappings", v["mapping"])] if v.get("mapping") else []), jinja_parse_data=dict(v["jinja"]))
    spec.workload.n_instances = v["workload_n_instances"]
    for e, n in v["einsum_n_instances"].items():
        spec.workload.einsums[e].n_instances = n
    for c, lp in v["leak_power"].items():
        spec.arch[c].leak_power = lp
    return spec


def _simple_unit_energy(v):
    mme = v["jinja"].get("MainMemoryEnergy", 1)
    return {("MainMemory", "read"): mme, ("MainMemory", "write"): mme, ("GlobalBuffer", "read"): 1, ("GlobalBuffer", "write"): 1, ("MAC", "compute"): 1}


def _raw_entries(df):
    """Ground truth of a real table: parsed from the raw column names, values as floats (one per row)."""
    out = {"energy": [], "actions": [], "latency": [], "reservations": [], "totals": {}, "unexpected": []}
    for col in df.columns:
        parts = str(col).split(SEP)
        if parts[0] == "Total":
            if len(parts) == 2 and parts[1] in ("energy", "latency", "leak_energy", "dynamic_energy"):
                out["totals"][parts[1]] = [float(x) for x in df[col]]
            continue
        if parts[0] == "reservation":
            if len(parts) == 4:
                out["reservations"].append([parts[1], parts[2], parts[3], [float(x) for x in df[col]]])
            else:
                out["unexpected"].append(col)
            continue
        if len(parts) < 2 or parts[1] not in ("energy", "action", "latency"):
            continue
        vals = [float(x) for x in df[col]]
        if parts[1] == "energy" and len(parts) == 5:
            out["energy"].append(((parts[0], parts[2], parts[3], parts[4]), vals))
        elif parts[1] == "energy" and len(parts) == 4 and parts[3] == "leak":
            out["energy"].append(((parts[0], parts[2], None, "leak"), vals))
        elif parts[1] == "action" and len(parts) == 5:
            out["actions"].append(((parts[0], parts[2], parts[3], parts[4]), vals))
        elif parts[1] == "latency" and len(parts) == 3:
            out["latency"].append(((parts[0], parts[2]), vals))
        else:
            out["unexpected"].append(col)
    return out


def _sum_vecs(vecs, n):
    tot = [0.0] * n
    for v in vecs:
        tot = [a + b for a, b in zip(tot, v)]
    return tot


def _real_required(raw, einsum_order, n):
    """what -> flags -> required value (list per row, or dict of lists), from the raw entries only."""
    req = {"energy": {}, "actions": {}, "latency": {}}
    for fl in E_FLAGS:
        keep = [i for i, f in enumerate(fl) if f]
        req["energy"][fl] = _group(raw["energy"], keep, n) if keep else _sum_vecs([v for _, v in raw["energy"]], n)
    for fl in A_FLAGS:
        keep = [i for i, f in enumerate(tuple(fl) + (True,)) if f]
        req["actions"][fl] = _group(raw["actions"], keep, n)
    per = {}
    for (e, c), v in raw["latency"]:
        per.setdefault(e, []).append(v)
    mx = {e: [max(v[r] for v in vs) for r in range(n)] for e, vs in per.items()}
    req["latency"][(True, True)] = {k: list(v) for k, v in raw["latency"]}
    req["latency"][(False, True)] = _group([((c,), v) for (e, c), v in raw["latency"]], [0], n)
    req["latency"][(True, False)] = mx
    req["latency"][(False, False)] = _sum_vecs(mx.values(), n)
    res = {}
    for mem, _, _, vals in raw["reservations"]:
        res[mem] = list(vals) if mem not in res else [max(a, b) for a, b in zip(res[mem], vals)]
    req["resource_usage"] = {(): res}
    return req


def _same_vec_tol(got, want_rows, n_table, lio):
    if n_table == 1 and not lio:
        if isinstance(got, (list, tuple, dict)) or hasattr(got, "iloc") or getattr(got, "ndim", 0):
            return False
        g = _num(got)
        return g is not None and _near(g, want_rows[0])
    if not isinstance(got, list) or len(got) != len(want_rows):
        return False
    return all(_num(g) is not None and _near(_num(g), w) for g, w in zip(got, want_rows))


def _same_tol(got, want, rows, n_table, lio):
    if isinstance(want, dict):
        if not isinstance(got, dict) or set(got.keys()) != set(want.keys()):
            return False
        return all(_same_vec_tol(got[k], [want[k][r] for r in rows], n_table, lio) for k in want)
    if isinstance(got, dict):
        return False
    return _same_vec_tol(got, [want[r] for r in rows], n_table, lio)


def _numeric_snapshot(df):
    return {str(c): [float(x) for x in df[c]] for c in df.columns if "mapping" not in str(c).split(SEP)}


def _check_real_object(m, req, rows, totals, rnd, counters, both_lio, reduced=False):
    """All calls on one real Mappings object holding the rows `rows` of the table the requirement was read from."""
    n_table = len(rows)
    calls = [("energy", fl) for fl in E_FLAGS] + [("actions", fl) for fl in A_FLAGS] + [("latency", fl) for fl in L_FLAGS] + [("resource_usage", ())]
    if reduced:
        calls = rnd.sample(calls, 8) + [("energy", (False,) * 4), ("latency", (False, False))]
    else:
        calls = calls + rnd.sample(calls, 4)
    rnd.shuffle(calls)
    sums = {"energy": [], "actions": []}
    for k, (what, fl) in enumerate(calls):
        lios = (False, True) if both_lio else ((k + rows[0]) % 2 == 0,)
        for lio in lios:
            try:
                if what == "energy":
                    got = m.energy(per_einsum=fl[0], per_component=fl[1], per_tensor=fl[2], per_action=fl[3], list_if_one_mapping=lio)
                elif what == "actions":
                    got = m.actions(per_einsum=fl[0], per_component=fl[1], per_tensor=fl[2], list_if_one_mapping=lio)
                elif what == "latency":
                    got = m.latency(per_einsum=fl[0], per_component=fl[1], list_if_one_mapping=lio)
                else:
                    got = m.resource_usage(list_if_one_mapping=lio)
            except Exception as ex:
                raise _Fail(f"{what}{fl} list_if_one_mapping={lio} rows={rows}", f"{type(ex).__name__}: {str(ex)[:300]}", "a value")
            counters["evaluations"] += 1
            want = req[what][fl]
            if not _same_tol(got, want, rows, n_table, lio):
                raise _Fail(f"{what}{fl} list_if_one_mapping={lio} rows={rows} vs group-by of the raw columns", _show(got), _pick(want, rows))
            if what in sums:
                s = _row_sums(got, n_table, lio)
                if s is None:
                    raise _Fail(f"{what}{fl} row sums", "values of differing lengths", "one value per row")
                sums[what].append((fl, s))
    # literal form of the statement
    if "energy" in totals:
        te = [totals["energy"][r] for r in rows]
        for fl, s in sums["energy"]:
            if not _near_vec(s, te):
                raise _Fail(f"sum of the values of energy{fl} vs Total<SEP>energy (rows {rows})", s, te)
    for fl, s in sums["actions"]:
        if not _near_vec(s, sums["actions"][0][1]):
            raise _Fail(f"sum of the values of actions{fl} vs actions{sums['actions'][0][0]} (rows {rows})", s, sums["actions"][0][1])
    if "latency" in totals:
        got = m.latency(list_if_one_mapping=True)
        counters["evaluations"] += 1
        tl = [totals["latency"][r] for r in rows]
        if not isinstance(got, list) or not _near_vec([float(x) for x in got], tl):
            raise _Fail(f"latency() vs Total<SEP>latency (rows {rows})", _show(got), tl)
    # leak + dynamic through the real breakdown
    got = m.energy(per_action=True, list_if_one_mapping=True)
    counters["evaluations"] += 1
    leak = [float(x) for x in got.get("leak", [0.0] * n_table)]
    dyn = _sum_vecs([[float(x) for x in v] for a, v in got.items() if a != "leak"], n_table)
    for name, vec in (("leak_energy", leak), ("dynamic_energy", dyn)):
        if name in totals and not _near_vec(vec, [totals[name][r] for r in rows]):
            raise _Fail(f"{'leak' if name == 'leak_energy' else 'non-leak'} entries of energy(per_action=True) vs Total<SEP>{name} (rows {rows})", vec, [totals[name][r] for r in rows])
    if "energy" in totals and not _near_vec([a + b for a, b in zip(leak, dyn)], [totals["energy"][r] for r in rows]):
        raise _Fail(f"leak + non-leak entries of energy(per_action=True) vs Total<SEP>energy (rows {rows})", [a + b for a, b in zip(leak, dyn)], [totals["energy"][r] for r in rows])


def _check_real_table(m, desc, rnd, counters, unit_energy=None, both_lio=False, n_sub=0):
    """None if the real Mappings object `m` passes, else a failure dict."""
    try:
        df = m.data
        n = len(df)
        if n == 0:
            raise _Fail("result table", "no row", "at least one mapping")
        raw = _raw_entries(df)
        tot = raw["totals"]
        if raw["unexpected"]:
            raise _Fail("column convention of the real table", [str(c) for c in raw["unexpected"]][:5], "energy / action / latency / reservation columns of the documented form")
        if not raw["energy"] or not raw["latency"] or "energy" not in tot:
            raise _Fail("real table", f"{len(raw['energy'])} energy, {len(raw['latency'])} latency columns, totals {sorted(tot)}", "detailed energy and latency columns and Total<SEP>energy")
        # the statement itself first: energy() / latency() against the reported totals
        for name, call in (("energy", m.energy), ("latency", m.latency)):
            if name in tot:
                try:
                    got = call(list_if_one_mapping=True)
                except Exception as ex:
                    raise _Fail(f"{name}(list_if_one_mapping=True)", f"{type(ex).__name__}: {str(ex)[:300]}", "a value")
                counters["evaluations"] += 1
                if not isinstance(got, list) or not _near_vec([float(x) for x in got], tot[name]):
                    raise _Fail(f"{name}() vs Total<SEP>{name}", _show(got), tot[name])
        # raw columns against the totals (no method of Mappings involved)
        all_e = _sum_vecs([v for _, v in raw["energy"]], n)
        leak_e = _sum_vecs([v for k, v in raw["energy"] if k[3] == "leak"], n)
        dyn_e = _sum_vecs([v for k, v in raw["energy"] if k[3] != "leak"], n)
        if not _near_vec(all_e, tot["energy"]):
            raise _Fail("sum of all <Einsum><SEP>energy<SEP>... columns vs Total<SEP>energy", all_e, tot["energy"])
        if "leak_energy" in tot and not _near_vec(leak_e, tot["leak_energy"]):
            raise _Fail("sum of the <Einsum><SEP>energy<SEP><component><SEP>leak columns vs Total<SEP>leak_energy", leak_e, tot["leak_energy"])
        if "dynamic_energy" in tot and not _near_vec(dyn_e, tot["dynamic_energy"]):
            raise _Fail("sum of the non-leak energy columns vs Total<SEP>dynamic_energy", dyn_e, tot["dynamic_energy"])
        if "leak_energy" in tot and "dynamic_energy" in tot and not _near_vec([a + b for a, b in zip(tot["leak_energy"], tot["dynamic_energy"])], tot["energy"]):
            raise _Fail("Total<SEP>leak_energy + Total<SEP>dynamic_energy vs Total<SEP>energy", [a + b for a, b in zip(tot["leak_energy"], tot["dynamic_energy"])], tot["energy"])
        if unit_energy is not None:
            acts = {k: v for k, v in raw["actions"]}
            for k, v in raw["energy"]:
                if k[3] == "leak":
                    continue
                u = unit_energy.get((k[1], k[3]))
                if u is None or k not in acts:
                    raise _Fail(f"energy column of {k}", "no action-count column / unknown action", "an action count for every dynamic energy entry")
                want = [a * u for a in acts[k]]
                if not _near_vec(v, want):
                    raise _Fail(f"energy entry {k} vs action count x energy per action ({u})", v, want)
            for k, v in raw["actions"]:  # an action count without an energy entry must be zero or cost nothing
                if not any(k == k2 for k2, _ in raw["energy"]) and unit_energy.get((k[1], k[3]), 0) != 0 and any(x != 0 for x in v):
                    raise _Fail(f"action count {k} without energy entry", v, "an energy column, or a zero count")
        counters["real_leak_nonzero"] += 1 if any(x != 0 for x in leak_e) else 0
        counters["real_reservation_nonzero"] += 1 if any(x != 0 for r in raw["reservations"] for x in r[3]) else 0
        req = _real_required(raw, list(m.einsum_names), n)
        snap = _numeric_snapshot(df)
        _check_real_object(m, req, list(range(n)), tot, rnd, counters, both_lio)
        if _numeric_snapshot(m.data) != snap or [str(c) for c in m.data.columns] != [str(c) for c in df.columns]:
            raise _Fail("table of the real object after the calls", "changed", "unchanged")
        if n > 1:
            for i in rnd.sample(range(n), min(n, n_sub)):
                _check_real_object(m[i], req, [i], tot, rnd, counters, both_lio, reduced=True)
            if _numeric_snapshot(m.data) != snap:
                raise _Fail("table of the real object after mappings[i] calls", "changed", "unchanged")
    except _Fail as f:
        return {"failed": True, "input": desc, "call": f.call, "observed": f.observed, "required": f.required, "class": None}
    return None


def _real_mapper_variants(root):
    out = [{"real": "map_workload_to_arch", "arch": "simple.yaml", "workload": "matmuls.yaml", "mapping": None,
            "jinja": {"N_EINSUMS": 2, "M": 4, "KN": 4, "GlobalBufferSize": 512, "GlobalBufferThroughput": 8, "MainMemoryEnergy": 5},
            "workload_n_instances": 2, "einsum_n_instances": {"Matmul1": 3}, "leak_power": {"GlobalBuffer": 0.5}, "metrics": "ENERGY|LATENCY", "order": 2001}]
    if os.path.isfile(os.path.join(root, "tests", "input_files", "toll.arch.yaml")):
        out.append({"real": "map_workload_to_arch", "arch": "tests/input_files/toll.arch.yaml", "workload": "tests/input_files/matmul_toll.workload.yaml", "mapping": None, "jinja": {},
                    "workload_n_instances": 2, "einsum_n_instances": {"Matmul1": 3}, "leak_power": {"Toll": 0.25}, "metrics": "ENERGY", "order": 2002})
    return out


def _run_real_mapper(v, root):
    from accelforge.frontend.spec import Spec
    from accelforge.frontend.mapper.metrics import Metrics

    if v["arch"] == "simple.yaml":
        spec = _real_spec(v, root)
    else:
        spec = Spec.from_yaml(os.path.join(root, v["arch"]), os.path.join(root, v["workload"]))
        spec.workload.n_instances = v["workload_n_instances"]
        for e, n in v["einsum_n_instances"].items():
            spec.workload.einsums[e].n_instances = n
        for c, lp in v["leak_power"].items():
            spec.arch[c].leak_power = lp
    mt = Metrics.ENERGY
    if "LATENCY" in v["metrics"]:
        mt = mt | Metrics.LATENCY
    spec.mapper.metrics = mt
    return spec.map_workload_to_arch(print_progress=False)


def _real_sweep(seed, tier, n_random, counters, samples):
    """-> (failure dict or None, description of what was run)"""
    _single_process()
    root = _tree_root()
    if root is None:
        return None, "end-to-end part SKIPPED: no examples/arches/simple.yaml next to the accelforge package under test"
    rnd = random.Random(int(seed) * 7919 + (3 if tier == "quick" else 5))
    variants = list(_real_core(tier)) + [_real_random(rnd, tier, k) for k in range(n_random)]
    n_eval = 0
    for v in variants:
        try:
            m = _real_spec(v, root).evaluate_mapping()
        except Exception as ex:
            return {"failed": True, "input": v, "call": "Spec.evaluate_mapping()", "observed": f"{type(ex).__name__}: {str(ex)[:300]}", "required": "a result for a shipped example mapping",
                    "class": None}, ""
        n_eval += 1
        counters["evaluations"] += 1
        counters["real_tables"] += 1
        res = _check_real_table(m, v, random.Random(v["order"] * 131 + int(seed)), counters, unit_energy=_simple_unit_energy(v), both_lio=(tier != "quick"))
        if res is not None:
            return res, ""
        if len(samples) < 8 and n_eval % 23 == 1:
            samples.append(f"real: {v['mapping']} {v['jinja']} workload x{v['workload_n_instances']} einsums x{v['einsum_n_instances']} leak {v['leak_power']}")
    n_map = n_rows = 0
    if tier != "quick":
        for v in _real_mapper_variants(root):
            try:
                m = _run_real_mapper(v, root)
            except Exception as ex:
                return {"failed": True, "input": v, "call": "Spec.map_workload_to_arch()", "observed": f"{type(ex).__name__}: {str(ex)[:300]}", "required": "mappings", "class": None}, ""
            n_map += 1
            n_rows += len(m.data)
            counters["evaluations"] += 1
            counters["real_tables"] += 1
            res = _check_real_table(m, v, random.Random(v["order"] + int(seed)), counters, unit_energy=_simple_unit_energy(v) if v["arch"] == "simple.yaml" else None, both_lio=True, n_sub=4)
            if res is not None:
                return res, ""
            samples.append(f"real: mapper on {v['arch']} {v['jinja']} -> {len(m.data)} mappings")
    text = (f"End-to-end part: {n_eval} real tables from Spec.evaluate_mapping() on examples/arches/simple.yaml x (matmuls N=1..3 fused / unfused, matvecs x 4 mappings) with "
            f"Workload.n_instances in 1..7, Einsum.n_instances in 1..5, leak_power 0..3 per component, GlobalBufferThroughput inf/1..64, MainMemoryEnergy 0.5..3, GlobalBufferSize inf/2^16/2^20 "
            f"({counters['real_leak_nonzero']} tables with non-zero leak energy, {counters['real_reservation_nonzero']} with non-zero reservations)"
            + (f", {n_map} Spec.map_workload_to_arch() runs returning {n_rows} mappings (mappings[i] checked for up to 4 rows each)" if n_map else "")
            + "; ground truth parsed from the raw column names of the returned table; every comparison within 1e-9 relative.")
    return None, text


def _sweep(seed, tier, n_random, known, n_real):
    known_ids = frozenset(e.get("class_id") for e in (known or []) if e.get("status", "open") == "open")
    rnd = random.Random(int(seed) * 104729 + (0 if tier == "quick" else 1))
    counters = {"evaluations": 0, "known_finding_hits": 0, "real_tables": 0, "real_leak_nonzero": 0, "real_reservation_nonzero": 0, "real_text": ""}
    seen, samples, n_core = set(), [], 0
    for case in _core_cases(tier):
        n_core += 1
        seen.add(repr(case))
        res = _check(case, known_ids, counters)
        if res is not None:
            return res, counters, len(seen), samples, n_core
    # end-to-end part on real result tables (no input class of it is a recorded finding)
    res, counters["real_text"] = _real_sweep(seed, tier, n_real, counters, samples)
    if res is not None:
        return res, counters, len(seen) + counters["real_tables"], samples, n_core
    for i in range(n_random):
        case = _rand_case(rnd, big=(tier != "quick"))
        seen.add(repr(case))
        res = _check(case, known_ids, counters)
        if res is not None:
            return res, counters, len(seen), samples, n_core
        if len(samples) < 8 and i % 11 == 0:
            samples.append(_sample_text(case))
    return None, counters, len(seen) + counters["real_tables"], samples, n_core


def bounded(p):
    tier = p.get("tier", "quick")
    if tier not in ("quick", "thorough"):
        tier = "quick"
    n_random = int(p.get("_n_random", 80 if tier == "quick" else 1500))
    n_real = int(p.get("_n_real", 12 if tier == "quick" else 150))
    res, counters, distinct, samples, n_core = _sweep(p.get("seed", 0), tier, n_random, p.get("known"), n_real)
    if res is not None:
        res.update({"evaluations": counters["evaluations"], "known_finding_hits": counters["known_finding_hits"]})
        return res
    rule = (
        "Mappings objects are constructed directly (real constructor) around synthetic DataFrames generated from a ground-truth list of "
        "(Einsum, component, tensor, action) -> per-row values for energy and action counts, (Einsum, component) -> latency, (memory, loop level, "
        "side) -> reservation, with the column names of the model (<Einsum><SEP>energy|action<SEP>component<SEP>tensor<SEP>action, "
        "<Einsum><SEP>energy<SEP>component<SEP>leak, <Einsum><SEP>latency<SEP>component, reservation<SEP>memory<SEP>n<SEP>right|left), optional "
        "Total<SEP>energy / Total<SEP>latency columns (written as the ground-truth totals) and columns to be ignored (mapping objects, energy_delay_product, "
        "usage, first_latency). The real Mappings.energy (all 16 per_* combinations), actions (all 8), latency (all 4) and resource_usage are called, "
        "with list_if_one_mapping False and True (both for every combination on one-row tables, alternating on multi-row tables), in seeded random order with some calls repeated, and compared key by key and row by row with "
        "group-by sums / maxima of the ground-truth list computed in the oracle (leak under tensor None, tensor-less actions under 'None'); in addition "
        "the per-row sum of the values of every returned breakdown must be the same for all combinations, energy() must equal the Total<SEP>energy column "
        "and latency() the Total<SEP>latency column when present, a one-row table must give scalars (one-element lists with list_if_one_mapping), a table "
        "with n rows lists of length n, the DataFrame must be unchanged after the calls, and for multi-row tables the real mappings[i] (object dtype one-row "
        "table) must give row i of the required values. "
        f"This run: {n_core} exhaustive-core tables + {n_random} seeded random tables. " + counters["real_text"] + " "
        "Outside the family: tables with no energy or no latency breakdown column at all (e.g. results of the mapper with eval_in_detail=False: energy() "
        "returns 0 there while Total<SEP>energy is not 0), negative reservations, columns whose tensor is not a tensor of the Einsum."
    )
    return {
        "failed": False, "evaluations": counters["evaluations"], "distinct": distinct,
        "known_finding_hits": counters["known_finding_hits"],
        "bound": "1-3 Einsums (names may equal a tensor or component name), 2-5 components incl. one compute, 1-3 tensors per Einsum out of 6 (shared between "
                 "Einsums) plus the 'None' tensor and leak entries, actions read/write/compute/transfer/leak, 1-4 rows, index default / all-duplicate / shuffled, "
                 "int64 and float64 columns, shuffled column order, 0-3 reservation columns per memory; values dyadic rationals <= 2^20; exhaustive core: every "
                 "non-empty subset of 5 entries {Mem/A/read, Mem/A/write, Buf/A/read, MAC/None/compute, Mem/leak} for one Einsum with 1 and 2 rows"
                 + ("; every pair of non-empty subsets of the first 4 entries over two Einsums sharing the tensor" if tier == "thorough" else "")
                 + "; end-to-end: real tables of Spec.evaluate_mapping() for the shipped simple.yaml examples (1-3 Einsums, 3 components, <= 16x8x8 matmuls) over the grid "
                   "Workload.n_instances {1,3} x Einsum.n_instances {1, last 2" + ("" if tier == "quick" else ", first 5, all different") + "} x leak {none, GlobalBuffer 0.5 + MAC 2} for every base spec plus "
                 + f"{n_real} seeded random variants" + ("" if tier == "quick" else "; two Spec.map_workload_to_arch() runs (multi-row tables)"),
        "rule": rule, "exhaustive": True, "samples": samples,
    }


def crosscheck(p):
    tier = "quick" if int(p.get("n", 200)) <= 200 else "thorough"
    return bounded({"seed": p.get("seed", 0), "tier": tier, "known": p.get("known")})


def replay(p):
    res = bounded({"seed": p.get("seed", 0), "tier": "quick", "known": p.get("known")})
    if res.get("failed"):
        return {"failed": True, "input": res["input"], "observed": {"call": res.get("call"), "value": res["observed"]}, "required": res["required"]}
    return {"failed": False, "tried": res["evaluations"]}


def witness(p):
    """Replays the witness of a recorded finding class (strict comparison); {"failed": False} if none is asked for."""
    ent = (p or {}).get("finding") or {}
    cid = ent.get("class_id")
    if cid not in WITNESS:
        return {"failed": False}
    case = WITNESS[cid]
    m, _, tot_e, _ = _build(case)
    got = m.energy()
    got_b = m.energy(per_component=True, per_tensor=True, per_action=True)
    got_a = m.actions(per_tensor=True)
    want_a = _req_actions(case, (False, True, True))
    failed = float(got) != tot_e[0] or not _same(got_a, want_a, [0], 1, False)
    return {
        "failed": failed, "input": case,
        "observed": f"energy() = {_show(got)} with Total<SEP>energy = {tot_e[0]}; breakdown keys {sorted(map(str, got_b))}; actions(per_tensor) = {_show(got_a)}",
        "required": f"energy() = {tot_e[0]}; actions(per_tensor) = {_pick(want_a, [0])}",
    }
