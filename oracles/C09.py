"""Bounded run-time contract check for C09 (sign / monotonicity verdicts of the symbolic comparator).

The REAL geq_leq_zero / diff_geq_leq_zero of
accelforge/mapper/FFM/_make_pmappings/make_pmappings_from_templates/make_tile_shapes.py are called on an
explicitly bounded, seeded family of (formula, box) cases and every non-'unknown' verdict is compared with an
exact (Fraction) evaluation of the formula at every integer point of the box.  A stand-in, not a proof.

Known input classes (a failing call inside an OPEN class - an entry with that class_id in p["known"] - is counted in
known_finding_hits; otherwise it makes the run fail).  Membership predicates are computed by `classes_of`:
  F9   the formula contains a `ceiling` (the comparator deletes every ceiling before its range analysis).
  F10  tied Heaviside partition: the expression the comparator analyses - f for geq_leq_zero, sympy.diff(expand(f), s) for
       diff_geq_leq_zero - contains >= 2 distinct Heaviside(...) atoms (partition_heaviside sets ALL of them to 1 or ALL to 0,
       never a mixed assignment, so H(u) - H(-u), H(u) - H(v) "cancel").
  F11  promise mode (terms_do_not_cross_zero=True) only: f is 0 at the all-lo corner and at the all-hi corner of the box and
       is not identically 0 on the box (the corner shortcut falls through and 'may be < 0' is turned into ALWAYS_LEQ).
  F12  the formula contains Min/Max AND the failure disappears when sympy's own MinMaxBase._is_connected is put back in
       place of the module's _is_connected_cached (differential predicate: the monkey patch returns the wrong orientation
       when only the reversed comparison is decidable, e.g. Min(2 - z, 1) evaluates to 1 for positive integer z).
  F13  diff_geq_leq_zero only: f itself contains a Heaviside whose argument depends on s (a step function: its symbolic
       derivative is 0 / DiracDelta although f changes between integer points; the model never emits such an f).
  F14  the formula contains NO Min/Max AND the failure disappears when sympy's own MinMaxBase._is_connected is put back (same
       differential predicate and same root cause as F12, reached through sympy.calculus.util.function_range, which builds
       Min/Max of the symbolic end-point values itself: (x - 3)*(y - 1) over x in [1,3] gets the range Interval(0, 2 - 2*y)
       because Min(0, 2 - 2*y) evaluates to 0 for positive integer y under the patch).

  F15  the analysed expression (f, or diff(expand(f), s)) contains a reciprocal whose denominator has >= 2 distinct symbols
       (1/(y*z), 1/(y + z)) AND the failure (reproduced with cold caches) disappears when sympy.core.exprtools._monotonic_sign is
       disabled: sympy 1.14 computes _monotonic_sign(1/(y*z)) = 1 and _monotonic_sign(1/(y + z)) = 1/2 for positive integer
       symbols ("positive" taken as ">= 1" under a reciprocal), so (-1 + 1/(y*z)).is_nonnegative is True and the comparator's
       `not f >= 0` short-cut answers 'never < 0': x/(y*z) - 1 on [1,3]^3 is reported ALWAYS >= 0 although f(1,1,2) = -1/2.

Targeted sub-families (enumerated, deterministic; see targeted_clamps / targeted_signs / targeted_heaviside):
  (a) Max/Min clamps of possibly fractional quotients against c in {1/2, 1, 2, 3}, also with ceiling() around the quotient;
  (b) products / quotients of 2-3 factors each provably <= 0, >= 0 or == 0 on the box (shifted constants, Min/Max factors);
  (c) c1 - c2*Heaviside(v - k) with negative / mixed coefficients written directly (threshold inside, at the edge of, outside
      the box) and arising as derivatives of Max/Min with a decreasing branch.
Every case is evaluated twice in the same process: first with cold caches in generation order, then with warm caches in
reversed order (the targeted cases first, so that a time-budget truncation does not drop them).  Order of the family: old
targeted, (a), (b), (c), every depth<=1 formula, then the seeded part, which is what a time-budget truncation cuts first.
Payload extras: "only_targeted": true runs the targeted cases only (debugging); crosscheck with n >= 2000 and no "tier" runs
the thorough tier.
"""
import itertools, math, random, signal, threading, time
from fractions import Fraction

NAMES = ("x", "y", "z")
BIN_OPS = ("add", "sub", "mul", "div", "ceil", "min", "max", "hv")

_S = {}


def _load():
    """import the real module once; returns (module, sympy, symbols).  sympy's own _is_connected is saved BEFORE the
    module replaces it (needed only for the F12 membership predicate)."""
    if not _S:
        import sympy
        from sympy.functions.elementary.miscellaneous import MinMaxBase

        before = MinMaxBase.__dict__["_is_connected"]
        from accelforge.mapper.FFM._make_pmappings.make_pmappings_from_templates import make_tile_shapes as M

        after = MinMaxBase.__dict__["_is_connected"]
        _S["MinMaxBase"] = MinMaxBase
        _S["pristine"] = before if before is not after else None  # None: module was imported before us
        _S["patched"] = after
        _S["M"] = M
        _S["sympy"] = sympy
        _S["syms"] = {n: sympy.Symbol(n, positive=True, integer=True) for n in NAMES}
    return _S["M"], _S["sympy"], _S["syms"]


def _clear_caches():
    M, _, _ = _load()
    for name in ("diff", "diff_geq_leq_zero", "function_range", "_compare_to_zero", "geq_leq_zero"):
        fn = getattr(M, name, None)
        if fn is not None and hasattr(fn, "cache_clear"):
            fn.cache_clear()
    M._is_connected_cache.clear()


# ---------------------------------------------------------------------------------------------
# formulas: a small expression tree of our own, so that the reference value does not go through sympy
# ---------------------------------------------------------------------------------------------
def S(n):
    return ("sym", n)


def C(c):
    return ("const", c)


def ast_str(a):
    k = a[0]
    if k == "sym":
        return a[1]
    if k == "const":
        return str(a[1]) if a[1] >= 0 and not isinstance(a[1], Fraction) else f"({a[1]})"
    l, r = ast_str(a[1]), ast_str(a[2])
    return {
        "add": f"({l} + {r})", "sub": f"({l} - {r})", "mul": f"({l}*{r})", "div": f"({l}/{r})",
        "ceil": f"ceiling({l}/{r})", "min": f"Min({l}, {r})", "max": f"Max({l}, {r})", "hv": f"Heaviside({l} - {r})",
    }[k]


def ast_syms(a, acc=None):
    acc = set() if acc is None else acc
    if a[0] == "sym":
        acc.add(a[1])
    elif a[0] != "const":
        ast_syms(a[1], acc)
        ast_syms(a[2], acc)
    return acc


def ast_has(a, kinds):
    if a[0] in ("sym", "const"):
        return False
    return a[0] in kinds or ast_has(a[1], kinds) or ast_has(a[2], kinds)


def ast_eval(a, env, h0):
    """exact value (Fraction); Heaviside(0) := h0; ZeroDivisionError where the formula is undefined"""
    k = a[0]
    if k == "sym":
        return Fraction(env[a[1]])
    if k == "const":
        return Fraction(a[1])
    l, r = ast_eval(a[1], env, h0), ast_eval(a[2], env, h0)
    if k == "add":
        return l + r
    if k == "sub":
        return l - r
    if k == "mul":
        return l * r
    if k == "div":
        return l / r
    if k == "ceil":
        return Fraction(math.ceil(l / r))
    if k == "min":
        return min(l, r)
    if k == "max":
        return max(l, r)
    if k == "hv":
        d = l - r
        return Fraction(1) if d > 0 else Fraction(0) if d < 0 else h0
    raise ValueError(k)


def ast_sympy(a):
    _, sp, syms = _load()
    k = a[0]
    if k == "sym":
        return syms[a[1]]
    if k == "const":
        c = Fraction(a[1])
        return sp.Rational(c.numerator, c.denominator)  # an Integer when the denominator is 1
    l, r = ast_sympy(a[1]), ast_sympy(a[2])
    if k == "add":
        return l + r
    if k == "sub":
        return l - r
    if k == "mul":
        return l * r
    if k == "div":
        return l / r
    if k == "ceil":
        return sp.ceiling(l / r)
    if k == "min":
        return sp.Min(l, r)
    if k == "max":
        return sp.Max(l, r)
    if k == "hv":
        return sp.Heaviside(l - r)
    raise ValueError(k)


def sp_eval(e, env, h0):
    """exact value of a sympy expression by walking its tree (no subs/evalf, which would go through the patched Min/Max)"""
    _, sp, _ = _load()
    if e.is_Symbol:
        return Fraction(env[e.name])
    if e.is_Rational:
        return Fraction(int(e.p), int(e.q))
    if e.is_Add:
        return sum((sp_eval(a, env, h0) for a in e.args), Fraction(0))
    if e.is_Mul:
        r = Fraction(1)
        for a in e.args:
            r *= sp_eval(a, env, h0)
        return r
    if e.is_Pow:
        b, x = sp_eval(e.args[0], env, h0), e.args[1]
        if not x.is_Integer:
            raise ValueError("non-integer power")
        return b ** int(x)
    if isinstance(e, sp.Min):
        return min(sp_eval(a, env, h0) for a in e.args)
    if isinstance(e, sp.Max):
        return max(sp_eval(a, env, h0) for a in e.args)
    if isinstance(e, sp.ceiling):
        return Fraction(math.ceil(sp_eval(e.args[0], env, h0)))
    if isinstance(e, sp.Heaviside):
        d = sp_eval(e.args[0], env, h0)
        return Fraction(1) if d > 0 else Fraction(0) if d < 0 else h0
    raise ValueError("cannot evaluate " + str(type(e)))


def leaves():
    return [S(n) for n in NAMES] + [C(c) for c in (1, 2, 3)]


def depth1_all():
    ls = leaves()
    out = []
    for op in BIN_OPS:
        for l in ls:
            for r in ls:
                if op in ("add", "mul", "min", "max") and repr(l) > repr(r):
                    continue  # commutative: one order is enough
                out.append((op, l, r))
    return out


def random_ast(rnd, depth):
    """a random tree whose deepest branch has exactly depth `depth`"""
    if depth == 0:
        return rnd.choice(leaves())
    op = rnd.choice(BIN_OPS)
    a, b = random_ast(rnd, depth - 1), random_ast(rnd, rnd.randint(0, depth - 1))
    if rnd.random() < 0.5:
        a, b = b, a
    return (op, a, b)


def targeted(hi_max, depth_max):
    """formulas generated on purpose (all inside the grammar): (i) they vanish at both corners of the box and are non-zero
    inside (the corner-plugging shortcut of terms_do_not_cross_zero=True then falls through to 'may be < 0 => ALWAYS_LEQ');
    (ii) the finding-F9 shape ceiling(u) - u and neighbours; (iii) tent / step shapes for the derivative verdict."""
    out = []
    top = min(3, hi_max)
    for d in (2, 3):
        u, cu = ("div", S("x"), C(d)), ("ceil", S("x"), C(d))
        for f in (("sub", cu, u), ("sub", u, cu), ("sub", cu, S("x")), ("mul", cu, C(d)), ("div", cu, S("x"))):
            out.append((f, {"x": (1, top)}))
    u, cu = ("div", S("x"), S("y")), ("ceil", S("x"), S("y"))
    for f in (("sub", cu, u), ("sub", u, cu), ("mul", cu, S("y")), ("div", cu, S("x"))):
        out.append((f, {"x": (1, top), "y": (1, top)}))
    if depth_max >= 3:  # the F9 witness itself: ceiling(x/2) - x/2 - 1/4
        out.append((("sub", ("sub", ("ceil", S("x"), C(2)), ("div", S("x"), C(2))), ("div", C(1), ("add", C(2), C(2)))), {"x": (1, 3)}))
    for lo in range(1, 4):
        for hi in range(lo + 1, min(3, hi_max) + 1):  # constants are 1..3
            for a, b in (("x", "x"), ("x", "y")):
                up, dn = ("sub", S(a), C(lo)), ("sub", C(hi), S(b))
                nup, ndn = ("sub", C(lo), S(a)), ("sub", S(b), C(hi))
                box = {n: (lo, hi) for n in {a, b}}
                for f in (("mul", up, dn), ("min", up, dn), ("mul", nup, dn), ("max", nup, ndn), ("mul", up, ndn)):
                    out.append((f, box))
                if depth_max >= 3:
                    b3 = dict(box)
                    b3["z"] = (lo, hi)
                    for f in (("mul", ("mul", up, dn), S("z")), ("div", ("mul", up, dn), S("z")),
                              ("mul", ("min", up, dn), ("max", S("z"), C(2))), ("sub", C(1), ("add", ("mul", up, dn), C(1))),
                              ("mul", ("mul", up, dn), ("hv", S("z"), C(2)))):
                        out.append((f, b3))
    for a, b in (("x", "y"), ("x", "z")):
        for f in (("sub", ("max", S(a), S(b)), S(b)), ("sub", S(a), ("min", S(a), S(b))), ("sub", ("min", S(a), S(b)), S(a))):
            out.append((f, {a: (1, top), b: (1, top)}))
    for f in (("min", ("sub", C(3), S("x")), ("sub", S("x"), C(1))), ("max", ("div", C(3), S("x")), S("x")),
              ("max", ("mul", C(2), S("x")), ("div", S("y"), S("x"))), ("hv", ("mul", C(2), S("x")), C(3))):
        out.append((f, {n: (1, top) for n in ast_syms(f)}))
    return out


# ---------------------------------------------------------------------------------------------
# targeted sub-families (a) clamps of fractional quotients, (b) sign rules of products / quotients, (c) Heaviside terms with
# negative / mixed coefficients.  All enumerated (no randomness); each entry is (tag, tree, box).
# ---------------------------------------------------------------------------------------------
HALF = Fraction(1, 2)
HALF_C = ("const", HALF)


def _mul(*fs):
    out = fs[0]
    for f in fs[1:]:
        out = ("mul", out, f)
    return out


def _full(tree, top, extra=()):
    return {n: (1, top) for n in set(ast_syms(tree)) | set(extra)}


def targeted_clamps(tier, top):
    """(a) Max/Min(c, Q) for a possibly fractional quotient Q and c in {1/2, 1, 2, 3}, combined as clamp - Q, Q - clamp,
    symbol*clamp, clamp/symbol, clamp*clamp', clamp - 1, other_symbol*clamp (thorough: also clamp -/+ c, clamp/Q, Q/clamp), and the
    same with ceiling() around the quotient inside the clamp."""
    x, y, z = S("x"), S("y"), S("z")
    thorough = tier == "thorough"
    # (numerator, denominator, symbol of Q, a symbol to multiply with, partner quotient for clamp*clamp')
    quots = [
        (x, y, "x", "z", ("div", y, x)),
        (x, C(2), "x", "y", ("div", C(3), x) if thorough else ("div", C(3), y)),  # same-symbol clamp products take seconds each
        (C(3), x, "x", "y", ("div", x, C(2)) if thorough else ("div", y, C(2))),
        (("mul", x, y), z, "x", "y", ("div", z, x)),
        (x, ("mul", y, z), "x", "y", ("div", ("mul", y, z), x)),  # a denominator with two symbols (class F15)
    ]
    if thorough:
        quots += [
            (("mul", C(2), x), y, "y", "z", ("div", y, C(3))),
            (x, C(3), "x", "y", ("div", C(2), x)),
            (C(1), x, "x", "y", ("div", x, C(3))),
        ]
    partner_c = {HALF: 2, 1: 3, 2: HALF, 3: 1}
    out = []
    for f in (("sub", ("div", x, ("add", y, z)), C(1)), ("sub", ("div", C(1), ("add", y, z)), C(Fraction(1, 4))),
              ("sub", C(1), ("div", C(3), ("mul", y, z))), ("sub", ("div", C(2), ("mul", x, y)), HALF_C)):
        out.append(("a", f, _full(f, top)))  # reciprocals of a sum / product of two symbols against a constant (class F15)
    for qi, (num, den, s, t, pq) in enumerate(quots):
        Q, cQ = ("div", num, den), ("ceil", num, den)
        # the bare quotient against 1 on the full box and on a sub-box where the verdict is stronger (stale range caches)
        f = ("sub", Q, C(1))
        out.append(("a", f, _full(f, top)))
        out.append(("a", f, {n: ((2, top) if n == s else (1, 2)) for n in ast_syms(f)}))
        for c in (HALF, 1, 2, 3):
            if not thorough and ((qi > 0 and c == 3) or (qi == 4 and c == 2)):  # on boxes within 1..3 only x/y makes the clamp at 3 interesting
                continue
            for kind, other in (("max", "min"), ("min", "max")):
                K, K2 = (kind, C(c), Q), (other, C(partner_c[c]), pq)
                fs = [("sub", K, Q), ("sub", Q, K), ("mul", S(s), K), ("div", K, S(s)), ("mul", K, K2), ("sub", K, C(1)), ("mul", S(t), K)]
                if thorough:
                    fs += [("sub", K, C(c)), ("sub", C(c), K), ("div", K, Q), ("div", Q, K), ("sub", ("mul", C(2), K), Q),
                           ("mul", K, (other, C(c), Q)), ("sub", K, (other, C(partner_c[c]), Q))]
                if not thorough and qi > 0:  # quick: all combinations for x/y only
                    fs = {1: fs[:4] + fs[5:6], 2: [fs[0], fs[2], fs[5]], 3: [fs[0], fs[5]], 4: [fs[0], fs[5]]}[qi]
                for f in fs:
                    out.append(("a", f, _full(f, top)))
                # a second box on which the clamp is (mostly) inactive / active the other way: stale per-formula caches
                if thorough or qi == 0:
                    subs = [{n: ((2, top) if n == s else (1, 2)) for n in ast_syms(K)}]  # not degenerate: ranges are really computed
                    if thorough:
                        subs.append({n: ((2, top) if n == s else (1, 1)) for n in ast_syms(K)})
                    for sub in subs:
                        for f in (("sub", K, Q), ("sub", K, C(1))):
                            out.append(("a", f, sub))
                if thorough or qi < 2:  # ceiling() around the quotient, inside the clamp
                    Kc = (kind, C(c), cQ)
                    fc = [("sub", Kc, Q), ("mul", S(s), Kc)] + ([("div", Kc, S(s))] if thorough else [])
                    if thorough:
                        fc += [("sub", Q, Kc), ("sub", Kc, cQ), ("mul", Kc, K2), ("sub", Kc, C(1)), ("mul", S(t), Kc)]
                    for f in fc:
                        out.append(("a", f, _full(f, top)))
    return out


def _sign_factors(v, T):
    """factors of one symbol v with a provable sign on 1 <= v <= T: name -> (tree, sign, never zero on the box)"""
    V = S(v)
    return {
        "v-T": (("sub", V, C(T)), -1, False), "1-v": (("sub", C(1), V), -1, False), "v-T-1": (("sub", V, C(T + 1)), -1, True),
        "v-1": (("sub", V, C(1)), +1, False), "T-v": (("sub", C(T), V), +1, False), "v": (V, +1, True),
        "T+1-v": (("sub", C(T + 1), V), +1, True),
        "Min(-1,v-T)": (("min", C(-1), ("sub", V, C(T))), -1, True), "Min(-2,v-T)": (("min", C(-2), ("sub", V, C(T))), -1, True),
        "Max(1,v-1)": (("max", C(1), ("sub", V, C(1))), +1, True),
        "Min(0,v-2)": (("min", C(0), ("sub", V, C(2))), -1, False), "Max(0,v-2)": (("max", C(0), ("sub", V, C(2))), +1, False),
        # the constant decides the sign, the other argument has the opposite one
        "Min(-1,v-1)": (("min", C(-1), ("sub", V, C(1))), -1, True), "Max(1,v-T)": (("max", C(1), ("sub", V, C(T))), +1, True),
    }


def targeted_signs(tier, top):
    """(b) products / quotients of 2-3 factors each of which is <= 0, >= 0 (or == 0: degenerate boxes) on the box"""
    thorough = tier == "thorough"
    out = []
    for T in ((3, 4) if thorough and top >= 4 else (3,)):
        fx, fy, fz = _sign_factors("x", T), _sign_factors("y", T), _sign_factors("z", T)
        names = list(fx) if thorough else ["v-T", "1-v", "v-T-1", "v-1", "v", "Min(-1,v-T)", "Min(0,v-2)", "Min(-1,v-1)", "Max(1,v-T)"]
        dens = [n for n in names if fx[n][2]]
        for i, a in enumerate(names):
            for b in names[i:]:
                f = ("mul", fx[a][0], fy[b][0])
                out.append(("b", f, _full(f, T)))
            for b in dens:
                f = ("div", fx[a][0], fy[b][0])
                out.append(("b", f, _full(f, T)))
        x, z = S("x"), S("z")
        three = [
            _mul(x, fy["v-T"][0], fz["v-T"][0]), _mul(fx["v-T"][0], fy["v-T"][0], fz["v-T"][0]), _mul(fx["v-T"][0], fy["v-T"][0], z),
            _mul(fx["1-v"][0], fy["v-T"][0], fz["v-1"][0]), ("div", _mul(fx["v-T"][0], fy["v-T"][0]), fz["v-T-1"][0]),
            ("div", _mul(fx["v-T"][0], fy["1-v"][0]), z), ("div", x, _mul(fy["v-T-1"][0], fz["v-T-1"][0])),
            ("div", fx["v-T"][0], _mul(fy["v-T-1"][0], z)), _mul(fx["Min(-1,v-T)"][0], fy["Min(-2,v-T)"][0], z),
            _mul(fx["Min(-1,v-T)"][0], fy["Min(-2,v-T)"][0], fz["v-T"][0]), _mul(fx["Min(0,v-2)"][0], fy["Min(0,v-2)"][0], z),
            _mul(fx["Min(-1,v-T)"][0], fy["Max(1,v-1)"][0], fz["v-T"][0]), ("div", _mul(fx["Min(-1,v-T)"][0], fy["v-T"][0]), fz["Min(-2,v-T)"][0]),
            _mul(fx["v-T"][0], fx["1-v"][0], fy["v-T"][0]), _mul(fx["v-T"][0], fx["v-T"][0], fy["v-T"][0]),
            ("sub", C(0), _mul(fx["v-T"][0], fy["v-T"][0])), ("sub", _mul(fx["v-T"][0], fy["v-T"][0]), _mul(x, fz["v-T"][0])),
            ("add", _mul(fx["v-T"][0], fy["v-T"][0]), _mul(fx["1-v"][0], fz["1-v"][0])),
        ]
        for f in three:
            out.append(("b", f, _full(f, T)))
        # a factor that changes sign inside the full box but not inside the sub-boxes (a verdict carried over from a sub-box is wrong)
        for f in (("mul", ("sub", x, C(2)), fy["v-T"][0]), ("div", ("sub", x, C(2)), fy["v-T-1"][0]),
                  _mul(("sub", x, C(2)), fy["Min(-1,v-T)"][0], z)):
            ns = sorted(ast_syms(f))
            out.append(("b", f, _full(f, T)))
            out.append(("b", f, {n: ((2, T) if n == "x" else (1, T)) for n in ns}))
            out.append(("b", f, {n: ((1, 2) if n == "x" else (1, T)) for n in ns}))
        # degenerate / shifted boxes: a factor that is == 0 on the whole box, a factor that is strictly negative on it
        for f in (("mul", fx["v-T"][0], fy["v-T"][0]), ("div", fx["v-T"][0], fy["v-T-1"][0]), _mul(x, fy["v-T"][0], fz["v-T"][0]),
                  _mul(fx["Min(-1,v-T)"][0], fy["Min(-2,v-T)"][0], z), ("mul", fx["1-v"][0], fy["v-T"][0])):
            ns = sorted(ast_syms(f))
            out.append(("b", f, {n: ((T, T) if n == "x" else (1, T)) for n in ns}))
            out.append(("b", f, {n: ((1, T - 1) if n != "z" else (1, T)) for n in ns}))
            out.append(("b", f, {n: ((2, T) if n == "x" else (1, T - 1)) for n in ns}))
    return out


def targeted_heaviside(tier, top):
    """(c) c1 - c2*Heaviside(v - k) written directly (negative and mixed coefficients; threshold inside / at the edge of / outside
    the box) and arising as derivative of Max/Min with a decreasing branch"""
    thorough = tier == "thorough"
    x, y, s, a, b = S("x"), S("y"), S("x"), S("y"), S("z")
    out = []

    def add(f, box=None, extra=()):
        out.append(("c", f, box or _full(f, top, extra)))

    coef = [(1, 1), (1, 2), (2, 3), (3, 1), (0, 2)] + ([(2, 1), (1, 3), (3, 2), (3, 3), (0, 1), (2, 2)] if thorough else [])
    ks = [0, 1, 2, top, top + 2]
    for c1, c2 in coef:
        for k in ks:
            h, hr = ("hv", x, C(k)), ("hv", C(k), x)
            lin = ("sub", C(c1), ("mul", C(c2), h))
            add(lin)
            add(("mul", y, lin))  # d/dy is the Heaviside expression itself
            if thorough or k in (2, top):
                add(("sub", C(c1), ("mul", C(c2), hr)))
            if thorough:
                add(("sub", ("mul", C(c1), y), _mul(C(c2), y, h)))
                add(("div", lin, y))
                add(("mul", ("sub", y, C(top)), lin))
                add(("mul", y, ("sub", C(c1), ("mul", C(c2), hr))))
    for c1, c2 in coef[1:3] if not thorough else coef[:4]:  # non-integer threshold 3/2 or 5/2, threshold depending on a second symbol
        for f in (("sub", C(c1), ("mul", C(c2), ("hv", ("mul", C(2), x), C(3)))), ("sub", C(c1), ("mul", C(c2), ("hv", ("mul", C(2), x), C(5)))),
                  ("sub", C(c1), ("mul", C(c2), ("hv", x, y))), ("mul", b, ("sub", C(c1), ("mul", C(c2), ("hv", x, y))))):
            add(f)
    for (c1, k1), (c2, k2) in (((1, 2), (1, 2)), ((2, 2), (1, 3)), ((1, 1), (2, 2)), ((3, 2), (2, 1)), ((1, 0), (1, 2)), ((2, 5), (3, 2))):
        add(("sub", ("mul", C(c1), ("hv", x, C(k1))), ("mul", C(c2), ("hv", y, C(k2)))))  # two atoms, mixed signs
        add(("mul", b, ("sub", ("mul", C(c1), ("hv", x, C(k1))), ("mul", C(c2), ("hv", y, C(k2))))))
    # derivative shapes: Max/Min with a decreasing branch
    cs = (1, 2, 3)
    kk = (2, 3, 4, 5, 6, 10) if thorough else (3, 4, 5, 10)
    for c in cs:
        for k in kk:
            dec = ("sub", C(k), s)
            for kind in ("max", "min"):
                K = (kind, C(c), dec)
                add(K)
                add(("mul", b, K))
                add(("add", ("mul", C(2), K), s))  # derivative 1 - 2 H: mixed
                if thorough or k == 4:
                    add(("add", K, s))  # derivative 1 - H
                if thorough or k in (4, 10):
                    add(("mul", s, K))
                    add(("sub", b, K))
                    if thorough:
                        add(("add", K, ("mul", C(2), s)))
                        add(("div", K, s))
                        add(("div", b, K) if kind == "max" or k > top else ("mul", C(3), K))
    for c in (HALF, 1, 2, 3) if thorough else (HALF, 1, 2):
        for kind in ("max", "min"):
            fs = [("mul", b, (kind, C(c), ("div", a, s))), ("sub", b, (kind, C(c), ("div", a, s))), ("add", (kind, C(c), ("div", a, s)), s),
                  ("add", (kind, C(c), ("div", C(3), s)), ("div", s, C(2)))]
            if thorough:
                fs += [(kind, C(c), ("div", a, s)), ("mul", b, (kind, C(c), ("div", C(3), s)))]
            for f in fs:
                add(f)
    return out


def targeted2(tier, hi_max):
    top = min(3, hi_max)
    out = targeted_clamps(tier, top) + targeted_signs(tier, hi_max) + targeted_heaviside(tier, top)
    if tier == "thorough" and hi_max > top:  # the clamps and Heaviside families once more on the larger box
        out += targeted_clamps("quick", hi_max) + targeted_heaviside("quick", hi_max)
    return out


# ---------------------------------------------------------------------------------------------
# exact reference: value tables over the integer points of the box
# ---------------------------------------------------------------------------------------------
H0S = (Fraction(1, 2), Fraction(0), Fraction(1))  # sympy's convention first


def box_points(names, box):
    return list(itertools.product(*[range(box[n][0], box[n][1] + 1) for n in names]))


def value_tables(ast, names, box):
    """-> list of (h0, {point: value}) or None if the formula is undefined somewhere on the box"""
    tabs = []
    for h0 in H0S if ast_has(ast, ("hv",)) else H0S[:1]:
        t = {}
        try:
            for p in box_points(names, box):
                t[p] = ast_eval(ast, dict(zip(names, p)), h0)
        except ZeroDivisionError:
            return None
        tabs.append((h0, t))
    return tabs


def sign_violation(tab, verdict):
    for p, v in tab.items():
        if (verdict == "GEQ" and v < 0) or (verdict == "LEQ" and v > 0) or (verdict == "EQ" and v != 0):
            return p, v
    return None


def mono_violation(tab, names, s, verdict):
    i = list(names).index(s)
    for p, v in tab.items():
        q = p[:i] + (p[i] + 1,) + p[i + 1:]
        if q not in tab:
            continue
        d = tab[q] - v
        if (verdict == "GEQ" and d < 0) or (verdict == "LEQ" and d > 0) or (verdict == "EQ" and d != 0):
            return (p, q), (v, tab[q])
    return None


def one_sign(tab):
    return all(v >= 0 for v in tab.values()) or all(v <= 0 for v in tab.values())


def violation(tabs, kind, names, sym, verdict):
    """None | ('all', h0, v): violated under every Heaviside(0) convention | ('convention', h0, v): under some only"""
    if verdict not in ("GEQ", "LEQ", "EQ"):
        return None
    vs = [(h0, sign_violation(tab, verdict) if kind != "diff" else mono_violation(tab, names, sym, verdict)) for h0, tab in tabs]
    if all(v is not None for _, v in vs):
        return ("all",) + vs[0]
    for h0, v in vs:
        if v is not None:
            return ("convention", h0, v)
    return None


# ---------------------------------------------------------------------------------------------
# calling the real code
# ---------------------------------------------------------------------------------------------
class _Timeout(BaseException):
    pass


def _alarm(signum, frame):
    raise _Timeout()


def call_real(fn, args, limit):
    """-> ('GEQ'|'LEQ'|'EQ'|'UNKNOWN', None) | ('RAISED', 'ExcType: msg') | ('TIMEOUT', None)"""
    M, _, _ = _load()
    R = M.ComparisonResult
    names = {R.ALWAYS_GEQ_THAN_ZERO: "GEQ", R.ALWAYS_LEQ_THAN_ZERO: "LEQ", R.ALWAYS_EQUAL_TO_ZERO: "EQ", R.UNKNOWN: "UNKNOWN"}
    use_alarm = threading.current_thread() is threading.main_thread()
    if use_alarm:
        old = signal.signal(signal.SIGALRM, _alarm)
        signal.setitimer(signal.ITIMER_REAL, limit)
    try:
        r = fn(*args)
        return names.get(r, "BAD:" + repr(r)), None
    except _Timeout:
        return "TIMEOUT", None
    except RecursionError:
        return "RAISED", "RecursionError"
    except Exception as e:  # _try_replace_single_term catches TypeError/ValueError and treats them as 'no information'
        return "RAISED", f"{type(e).__name__}: {str(e)[:80]}"
    finally:
        if use_alarm:
            signal.setitimer(signal.ITIMER_REAL, 0)
            signal.signal(signal.SIGALRM, old)


def real_call(kind, expr, sym, bounds, limit):
    M, _, syms = _load()
    if kind == "plain":
        return call_real(M.geq_leq_zero, (expr, bounds), limit)
    if kind == "promise":
        return call_real(M.geq_leq_zero, (expr, bounds, True), limit)
    return call_real(M.diff_geq_leq_zero, (expr, syms[sym], bounds), limit)


# ---------------------------------------------------------------------------------------------
# known classes (membership predicates)
# ---------------------------------------------------------------------------------------------
def _sound_after(r, variant):
    """differential predicates of F12 / F14 (variant 'pristine') and F15 (variant 'monotonic'): the call fails with cold caches
    in the unchanged set-up, and no longer fails when the formula is rebuilt and the call repeated with
      'pristine'  : sympy's own MinMaxBase._is_connected in place of the module's _is_connected_cached,
      'monotonic' : sympy.core.exprtools._monotonic_sign disabled (it answers None = 'cannot tell')."""
    M, sp, syms = _load()
    if variant == "pristine" and _S["pristine"] is None:
        return False
    from sympy.core.cache import clear_cache
    import sympy.core.exprtools as ET

    MMB = _S["MinMaxBase"]
    saved_ms = ET._monotonic_sign
    try:
        # the failure must be one of the input, not of the evaluation order: repeated with cold caches in the unchanged set-up it
        # has to show again (a verdict that is wrong only with warm caches is a stale-cache failure, which is in no known class)
        _clear_caches()
        v, _ = real_call(r["kind"], r["expr"], r["sym"], r["bounds"], 20.0)
        viol = violation(r["tabs"], r["kind"], r["names"], r["sym"], v)
        if viol is None or viol[0] != "all":
            return False
        if variant == "pristine":
            MMB._is_connected = _S["pristine"]
        else:
            ET._monotonic_sign = lambda e: None
        clear_cache()
        _clear_caches()
        expr = ast_sympy(r["tree"])
        v, _ = real_call(r["kind"], expr, r["sym"], r["bounds"], 20.0)
        viol = violation(r["tabs"], r["kind"], r["names"], r["sym"], v)
        return v != "TIMEOUT" and (viol is None or viol[0] != "all")
    except Exception:
        return False
    finally:
        MMB._is_connected = _S["patched"]
        ET._monotonic_sign = saved_ms
        clear_cache()
        _clear_caches()


def _sound_with_pristine_sympy(r):
    return _sound_after(r, "pristine")


def _multi_symbol_denominator(e):
    """syntactic guard of F15: a reciprocal whose denominator has >= 2 distinct symbols, 1/(y*z), 1/(y + z), x/(y*z**2) ..."""
    _, sp, _ = _load()
    for m in sp.preorder_traversal(e):
        if m.is_Pow and m.exp.is_number and m.exp.is_negative and len(m.base.free_symbols) >= 2:
            return True
        if m.is_Mul:
            den = set()
            for a in m.args:
                if a.is_Pow and a.exp.is_number and a.exp.is_negative:
                    den |= a.base.free_symbols
            if len(den) >= 2:
                return True
    return False


def classes_of(r, want_f12=True):
    """known classes a (violating) call record belongs to"""
    M, sp, syms = _load()
    expr, out = r["expr"], []
    if expr.has(sp.ceiling):
        out.append("F9")
    analysed = expr
    try:
        analysed = expr if r["kind"] != "diff" else sp.diff(sp.expand(expr), syms[r["sym"]])
        if len(analysed.atoms(sp.Heaviside)) >= 2:
            out.append("F10")
    except Exception:
        pass
    if r["kind"] == "promise":
        tab = r["tabs"][0][1]
        lo = tuple(r["box"][n][0] for n in r["names"])
        hi = tuple(r["box"][n][1] for n in r["names"])
        if tab[lo] == 0 and tab[hi] == 0 and any(v != 0 for v in tab.values()):
            out.append("F11")
    if r["kind"] == "diff" and any(syms[r["sym"]] in h.free_symbols for h in expr.atoms(sp.Heaviside)):
        out.append("F13")
    if want_f12:
        if _sound_with_pristine_sympy(r):
            out.append("F12" if ast_has(r["tree"], ("min", "max")) else "F14")
        else:
            try:
                guard = _multi_symbol_denominator(analysed)
            except Exception:
                guard = False
            if guard and _sound_after(r, "monotonic"):
                out.append("F15")
    return out


RULE = (
    "For every generated (formula f, integer box B) the REAL geq_leq_zero(f, bounds) [plain mode], geq_leq_zero(f, bounds, "
    "terms_do_not_cross_zero=True) [promise mode] and diff_geq_leq_zero(f, s, bounds) for every symbol s of f are called; bounds = "
    "((symbol, lo, hi), ...) means lo <= symbol <= hi inclusive, symbols are positive integers; f is built with sympy.Min/Max etc. "
    "AFTER importing make_tile_shapes, i.e. under the module's patched MinMaxBase._is_connected (_is_connected_cached), as in the "
    "mapper. Verdict ALWAYS_GEQ_THAN_ZERO requires f(p) >= 0 at EVERY integer point p of B (exact Fractions computed from our own "
    "expression tree: not sympy, not floats), ALWAYS_LEQ_THAN_ZERO f(p) <= 0, ALWAYS_EQUAL_TO_ZERO f(p) == 0; for diff_geq_leq_zero "
    "the three verdicts require f(.., s+1, ..) - f(.., s, ..) >= 0 / <= 0 / == 0 for every pair of consecutive integer points of B in "
    "direction s (all other symbols at every integer value) - what _try_replace_single_term relies on when it turns the verdict into "
    "goal min / max / 'symbol irrelevant'; 'unknown', an exception or a time-out is no verdict and always allowed (counted). Reading "
    "of terms_do_not_cross_zero: five Objective(...) call sites set it - loop-bound products (or their negation), memory usage, "
    "min-usage, Total energy/latency, action counts - all quantities whose factors are each >= 0 everywhere or <= 0 everywhere; the "
    "flag reaches geq_leq_zero only for the factors t of a top-level Mul in _make_evalable_objectives_from_formula (it is dropped on "
    "recursion and never used by diff_geq_leq_zero), where it licenses (a) deciding by the sign of f at the all-lo or the all-hi "
    "corner and (b) turning 'may be < 0' into ALWAYS_LEQ, else 'may be > 0' into ALWAYS_GEQ. The promise mode is therefore called only "
    "when enumeration shows f >= 0 at all integer points of B or f <= 0 at all of them (the caller's promise is the contract's "
    "`require`); formulas that vanish at both corners and are non-zero inside are generated on purpose. Heaviside(0) is convention "
    "dependent (sympy: 1/2): a case with Heaviside fails only if the verdict is violated under each of H(0) in {1/2, 0, 1} and is "
    "given to the promise mode only if the promise holds under all three. Formulas undefined (zero denominator) at a box point are "
    "excluded. The lru_caches of diff, diff_geq_leq_zero, function_range, _compare_to_zero, geq_leq_zero and _is_connected_cache are "
    "cleared before each case; afterwards all cases are re-run in reversed order (targeted cases first) WITHOUT clearing "
    "(cache-order sensitivity, stale per-expression caches) under the same contract. Known classes: F9 formula contains ceiling; F10 analysed expression has >= 2 distinct Heaviside atoms; F11 promise "
    "mode, f = 0 at both corners and not identically 0; F12 has Min/Max and is sound once sympy's own _is_connected is restored; F13 "
    "diff call on an f that itself contains Heaviside(.. s ..); F14 no Min/Max in f and sound once sympy's own _is_connected is "
    "restored (function_range builds the Min/Max itself); F15 a reciprocal with >= 2 symbols in its denominator in the analysed "
    "expression and sound once sympy's _monotonic_sign is disabled."
)


def _limits(tier):
    if tier == "thorough":
        return dict(depth=3, hi=4, n_d2=1000, n_d3=1000, boxes=2, call_limit=5.0, budget=640.0, budget2=400.0)
    return dict(depth=2, hi=3, n_d2=750, n_d3=0, boxes=2, call_limit=3.0, budget=80.0, budget2=45.0)


def gen_cases(seed, tier, only_targeted=False, n_targeted=None, n_enumerated=None, tags=None):
    """deterministic list of (tree, names, box); the first n_targeted[0] of them are the targeted (enumerated) ones, the first
    n_enumerated[0] the targeted ones plus every depth<=1 formula"""
    L = _limits(tier)
    n_targeted = [0] if n_targeted is None else n_targeted
    n_enumerated = [0] if n_enumerated is None else n_enumerated
    tags = [] if tags is None else tags  # parallel to the result: "t" old targeted, "a"/"b"/"c" new sub-families, "d1", "rnd"
    rnd = random.Random(1000003 * int(seed) + (7 if tier == "thorough" else 3))
    cases, seen = [], set()

    def boxes_for(names, k):
        hi = L["hi"]
        out = [{n: (1, hi) for n in names}]
        tries = 0
        while len(out) < k and tries < 20:
            tries += 1
            b = {}
            for n in names:
                lo = rnd.randint(1, hi)
                b[n] = (lo, rnd.randint(lo, hi))
            if b not in out:
                out.append(b)
        return out

    def add(tree, box, tag):
        names = tuple(sorted(ast_syms(tree)))
        if not names:
            return
        key = (ast_str(tree), tuple(box[n] for n in names))
        if key not in seen:
            seen.add(key)
            cases.append((tree, names, {n: box[n] for n in names}))
            tags.append(tag)

    for f, box in targeted(L["hi"], L["depth"]):
        add(f, box, "t")
    for tag, f, box in targeted2(tier, L["hi"]):
        add(f, box, tag)
    n_targeted[0] = n_enumerated[0] = len(cases)
    if only_targeted:
        return cases
    rest = []
    for f in depth1_all():  # depth <= 1: every formula
        for b in boxes_for(tuple(sorted(ast_syms(f))), L["boxes"]):
            rest.append((f, b))
    rnd.shuffle(rest)
    for f, b in rest:  # the enumerated core goes before the sampled part: a time-budget truncation must not cut into it
        add(f, b, "d1")
    n_enumerated[0] = len(cases)
    rest = []
    for d, n in ((2, L["n_d2"]), (3, L["n_d3"])):
        for _ in range(n):
            f = random_ast(rnd, d)
            for b in boxes_for(tuple(sorted(ast_syms(f))), L["boxes"]):
                rest.append((f, b))
    rnd.shuffle(rest)  # so that a time-budget truncation does not remove one depth entirely
    for f, b in rest:
        add(f, b, "rnd")
    return cases


def run_case(tree, names, box, call_limit, clear=True):
    """-> None (excluded) or list of call records"""
    M, sp, syms = _load()
    tabs = value_tables(tree, names, box)
    if tabs is None:
        return None
    try:
        expr = ast_sympy(tree)
    except Exception:
        return None
    if not isinstance(expr, sp.Expr) or expr.has(sp.zoo, sp.nan, sp.oo, -sp.oo):
        return None
    bounds = tuple((syms[n], box[n][0], box[n][1]) for n in names)
    # does the object built under the patched Min/Max still denote the tree?  (information for the report only)
    build_mismatch = None
    if ast_has(tree, ("min", "max")):
        try:
            for p, v in tabs[0][1].items():
                w = sp_eval(expr, dict(zip(names, p)), tabs[0][0])
                if w != v:
                    build_mismatch = f"at {dict(zip(names, p))} the tree is {v} but the sympy object is {w}"
                    break
        except (ValueError, ZeroDivisionError):
            pass
    if clear:
        _clear_caches()
    recs = []
    base = dict(tree=tree, expr=expr, formula=str(expr), names=names, box=box, bounds=bounds, tabs=tabs, build_mismatch=build_mismatch)

    def call(kind, sym):
        v, e = real_call(kind, expr, sym, bounds, call_limit)
        recs.append(dict(base, kind=kind, sym=sym, verdict=v, err=e, viol=violation(tabs, kind, names, sym, v)))

    call("plain", None)
    if all(one_sign(t) for _, t in tabs):
        call("promise", None)
    for n in names:
        if syms[n] in expr.free_symbols:
            call("diff", n)
    return recs


def box_str(r):
    return ", ".join(f"{n} in [{r['box'][n][0]},{r['box'][n][1]}]" for n in r["names"])


def describe(r):
    mode = {"plain": "geq_leq_zero(f, bounds)", "promise": "geq_leq_zero(f, bounds, terms_do_not_cross_zero=True)",
            "diff": f"diff_geq_leq_zero(f, {r['sym']}, bounds)"}[r["kind"]]
    s = f"f = {ast_str(r['tree'])} [sympy object: {r['formula']}]; box {box_str(r)}; call {mode}"
    if r["build_mismatch"]:
        s += f" (NOTE: built under the patched Min/Max, {r['build_mismatch']})"
    return s


def explain(r):
    _, h0, v = r["viol"]
    names = r["names"]
    conv = f" (taking Heaviside(0) = {h0}; violated under 0, 1/2 and 1 alike)" if len(r["tabs"]) > 1 else ""
    if r["kind"] == "diff":
        (p, q), (a, b) = v
        return f"verdict {r['verdict']} for d/d{r['sym']}, but f{dict(zip(names, p))} = {a} and f{dict(zip(names, q))} = {b}{conv}"
    p, val = v
    return f"verdict {r['verdict']}, but f{dict(zip(names, p))} = {val}{conv}"


def required(r):
    w = {"GEQ": ">= 0", "LEQ": "<= 0", "EQ": "== 0"}[r["verdict"]]
    if r["kind"] == "diff":
        return (f"f(.., {r['sym']}+1, ..) - f(.., {r['sym']}, ..) {w} between all consecutive integer points of the box, "
                f"or the verdict 'unknown'")
    return f"f(p) {w} at every integer point p of the box, or the verdict 'unknown'"


def bounded(p):
    t0 = time.time()
    seed = int(p.get("seed", 0))
    tier = p.get("tier", "quick")
    known = {e.get("class_id") for e in (p.get("known") or []) if isinstance(e, dict)}
    L = _limits(tier)
    _load()  # importing the package takes 10-30 s (more on a loaded machine): not charged to the time budget of the family
    tb = time.time()
    nt, ne, tags = [0], [0], []
    cases = gen_cases(seed, tier, only_targeted=bool(p.get("only_targeted")), n_targeted=nt, n_enumerated=ne, tags=tags)
    fam_gen, fam_run, fam_s = {}, {}, {}
    for t in tags:
        fam_gen[t] = fam_gen.get(t, 0) + 1
    stats = {"cases_generated": len(cases), "cases_run": 0, "excluded_undefined": 0, "calls": 0, "timeouts": 0, "raised": 0,
             "convention_sensitive": 0, "order_sensitive": 0, "build_mismatch_cases": 0, "violations_first_pass": 0,
             "unclassified_violations": 0, "truncated": False}
    verdicts = {k: {"GEQ": 0, "LEQ": 0, "EQ": 0, "UNKNOWN": 0} for k in ("plain", "promise", "diff")}
    nonvacuous = {"plain": 0, "promise": 0, "diff": 0}
    raised_types, hits, hit_samples, samples, distinct, first, transitions = {}, {}, {}, [], set(), {}, {}
    fail, class_memo = [None], {}

    def absorb(recs, second):
        if not second and recs and recs[0]["build_mismatch"]:
            stats["build_mismatch_cases"] += 1
        for r in recs:
            stats["calls"] += 1
            key = (ast_str(r["tree"]), box_str(r), r["kind"], r["sym"])
            if not second:
                distinct.add(key)
                first[key] = r["verdict"]
            elif first.get(key) != r["verdict"] and "TIMEOUT" not in (first.get(key), r["verdict"]):
                stats["order_sensitive"] += 1
                tr = f"{first.get(key)}->{r['verdict']}"
                transitions[tr] = transitions.get(tr, 0) + 1
            if r["verdict"] == "TIMEOUT":
                stats["timeouts"] += 1
                continue
            if r["verdict"] == "RAISED":
                stats["raised"] += 1
                t = r["err"].split(":")[0]
                raised_types.setdefault(t, [0, describe(r) + " -> " + r["err"]])[0] += 1
                continue
            if r["verdict"].startswith("BAD"):
                fail[0] = dict(input=describe(r), observed="returned " + r["verdict"], required="a ComparisonResult member")
                return
            if not second:
                verdicts[r["kind"]][r["verdict"]] += 1
                if r["verdict"] != "UNKNOWN":
                    if r["kind"] != "diff" or r["box"][r["sym"]][0] < r["box"][r["sym"]][1]:
                        nonvacuous[r["kind"]] += 1
                    if r["viol"] is None and len(samples) < 8 and len(r["formula"]) < 40 and stats["calls"] % 41 == 0:
                        samples.append(describe(r) + " -> " + r["verdict"] + " (holds at every point)")
            if r["viol"] is None:
                continue
            if r["viol"][0] == "convention":
                stats["convention_sensitive"] += 1
                continue
            if not second:
                stats["violations_first_pass"] += 1
            cheap = classes_of(r, want_f12=False)
            open_cls = [c for c in cheap if c in known]
            if not open_cls:
                ck = key + (r["verdict"],)  # class membership depends on the input and the verdict only: computed once
                if ck not in class_memo:
                    class_memo[ck] = classes_of(r, want_f12=True)
                allc = class_memo[ck]
                open_cls = [c for c in allc if c in known]
            else:
                allc = cheap
            if open_cls:
                if not second:
                    c = open_cls[0]
                    hits[c] = hits.get(c, 0) + 1
                    hit_samples.setdefault(c, f"[known {c}] " + describe(r) + " -> " + explain(r))
                continue
            if not allc:
                stats["unclassified_violations"] += 1
            fail[0] = dict(input=describe(r), observed=explain(r) + (" [second pass: warm caches, reversed order]" if second else ""),
                           required=required(r), known_classes_of_input=allc or "none")
            return

    done, done_t = [], []
    for i, (tree, names, box) in enumerate(cases):
        if time.time() - tb > L["budget"]:
            stats["truncated"] = True
            stats["truncated_inside_enumerated_part"] = i < ne[0]
            break
        tc = time.time()
        recs = run_case(tree, names, box, L["call_limit"], clear=True)
        if recs is None:
            stats["excluded_undefined"] += 1
            continue
        stats["cases_run"] += 1
        fam_run[tags[i]] = fam_run.get(tags[i], 0) + 1
        fam_s[tags[i]] = fam_s.get(tags[i], 0.0) + time.time() - tc
        (done_t if i < nt[0] else done).append((tree, names, box, tags[i]))
        absorb(recs, False)
        if fail[0]:
            fail[0]["family"] = tags[i]
            break
    stats["import_s"] = round(tb - t0, 1)
    stats["first_pass_s"] = round(time.time() - tb, 1)
    t1 = time.time()
    if not fail[0]:
        _clear_caches()
        # second evaluation of every case: warm caches, reversed order; the targeted cases first
        for tree, names, box, tag in list(reversed(done_t)) + list(reversed(done)):
            if time.time() - t1 > L["budget2"]:
                stats["truncated"] = True
                stats["second_pass_truncated"] = True
                break
            recs = run_case(tree, names, box, L["call_limit"], clear=False)
            if recs is not None:
                absorb(recs, True)
            if fail[0]:
                fail[0]["family"] = tag
                break
    checked = {k: sum(v[x] for x in ("GEQ", "LEQ", "EQ")) for k, v in verdicts.items()}
    out = {
        "failed": bool(fail[0]), "evaluations": stats["calls"], "distinct": len(distinct), "rule": RULE,
        "bound": (f"<= 3 positive integer symbols x,y,z, constants 1..3, operators + - * / ceiling(a/b) Min Max Heaviside(a-b), depth <= "
                  f"{L['depth']}; boxes lo..hi with 1 <= lo <= hi <= {L['hi']}; every depth<=1 formula, {L['n_d2']} seeded depth-2"
                  + (f" and {L['n_d3']} seeded depth-3" if L["n_d3"] else "") + " formulas, plus targeted corner-vanishing / ceiling / "
                  f"tent formulas; per formula the full box [1,{L['hi']}]^n and {L['boxes'] - 1} seeded sub-box(es); SAMPLED beyond depth 1 "
                  f"(depth-2 alone has ~7e5 formulas x 216 boxes). PLUS three enumerated targeted sub-families outside that grammar's "
                  f"constants (rational 1/2, 0, negative and larger constants; depth <= 5): (a) {fam_gen.get('a', 0)} clamp cases Max/Min(c, Q), "
                  f"c in 1/2,1,2,3, Q a quotient of symbols / small products / constants, as clamp-Q, Q-clamp, symbol*clamp, clamp/symbol, "
                  f"clamp*clamp', clamp-1, also with ceiling(Q); (b) {fam_gen.get('b', 0)} products / quotients of 2-3 factors of provable sign "
                  f"(v-T, 1-v, v-T-1, v-1, v, Min(-1,v-T), Min(0,v-2), Min(-1,v-1), Max(1,v-T), ... on boxes within 1..T, T = 3" + (" and 4" if L["hi"] >= 4 else "")
                  + f"; degenerate boxes for == 0); (c) {fam_gen.get('c', 0)} Heaviside cases c1 - c2*H(v-k), k inside / at the edge of / "
                  f"outside the box, and Max/Min(c, k - s), b*Max/Min(c, a/s) shapes whose derivative has a negative Heaviside coefficient. "
                  f"Order: targeted, then depth<=1, then the seeded part; time budget {L['budget']:.0f}s first pass (the seeded part is cut "
                  f"first) + {L['budget2']:.0f}s second pass, not counting the import of the package"),
        "exhaustive": False, "samples": samples[:8] + list(hit_samples.values())[:5],
        "known_finding_hits": sum(hits.values()), "known_finding_hits_by_class": hits,
        "verdicts_first_pass": verdicts, "non_unknown_verdicts_checked": checked, "of_which_non_vacuous": nonvacuous,
        "cases_by_family (generated)": fam_gen, "cases_by_family (run)": fam_run,
        "first_pass_seconds_by_family (real calls only)": {k: round(v, 1) for k, v in fam_s.items()},
        "stats": stats, "order_sensitive_transitions (cold caches -> warm caches, reversed order)": transitions, "raised_by_type": {k: {"count": v[0], "example": v[1]} for k, v in raised_types.items()},
        "wall_s": round(time.time() - t0, 1),
        "assumptions": ["sampled (seeded) family beyond depth 1 and sampled boxes: exploration, not exhaustive",
                        "per-call time limit %.0fs; time-outs, exceptions and 'unknown' are no verdict" % L["call_limit"]],
    }
    if fail[0]:
        out.update(fail[0])
    return out


# ---------------------------------------------------------------------------------------------
# witnesses of the known classes (each evaluated on the real code)
# ---------------------------------------------------------------------------------------------
_Q = ("div", C(1), ("add", C(2), C(2)))  # 1/4
WITNESSES = {
    # class: (tree, box, kind, sym)
    "F9": (("sub", ("sub", ("ceil", S("x"), C(2)), ("div", S("x"), C(2))), _Q), {"x": (1, 3)}, "plain", None),
    "F10": (("min", ("sub", C(3), S("x")), ("sub", S("x"), C(1))), {"x": (1, 3)}, "diff", "x"),
    "F11": (("sub", ("max", S("x"), S("z")), S("z")), {"x": (1, 3), "z": (1, 3)}, "promise", None),
    "F12": (("min", ("sub", C(2), S("z")), C(1)), {"z": (1, 3)}, "plain", None),
    "F13": (("hv", ("mul", C(2), S("z")), C(3)), {"z": (1, 3)}, "diff", "z"),
    "F14": (("mul", ("sub", S("x"), C(3)), ("sub", S("y"), C(1))), {"x": (1, 3), "y": (1, 3)}, "plain", None),
    "F15": (("sub", ("div", S("x"), ("mul", S("y"), S("z"))), C(1)), {"x": (1, 3), "y": (1, 3), "z": (1, 3)}, "plain", None),
}


def _witness(cid):
    tree, box, kind, sym = WITNESSES[cid]
    _, _, syms = _load()
    names = tuple(sorted(ast_syms(tree)))
    _clear_caches()
    recs = run_case(tree, names, box, 30.0, clear=True)
    r = [q for q in recs if q["kind"] == kind and q["sym"] == sym]
    if not r:
        return {"failed": False, "observed": f"{cid}: the witness call was not made (promise not satisfied?)"}
    r = r[0]
    tab = r["tabs"][0][1]
    vals = ", ".join(f"f{p if len(p) > 1 else '(%d)' % p[0]} = {v}" for p, v in sorted(tab.items()))
    bad = r["viol"] is not None and r["viol"][0] == "all"
    member = cid in classes_of(r) if bad else None
    obs = f"{describe(r)} -> {r['verdict']}{' ' + r['err'] if r['err'] else ''}; exact values on the box ({', '.join(names)}): {vals}"
    if bad:
        obs += "; " + explain(r) + f"; member of class {cid}: {member}"
    return {"failed": bool(bad), "observed": obs}


def witness(p):
    ent = p.get("finding", {}) or {}
    cid = ent.get("class_id")
    if cid in WITNESSES:
        return _witness(cid)
    return {"failed": False, "observed": f"no witness defined for class {cid!r}"}


def replay(p):
    return bounded(p)


def crosscheck(p):
    if "tier" not in p and int(p.get("n", 200) or 200) >= 2000:
        p = dict(p, tier="thorough")
    return bounded(p)
