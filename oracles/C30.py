"""Executable oracle for C30: brute-force route enumeration vs the real cost models."""
import random
from fractions import Fraction
from oracles.common import model_get, num, in_known


_SHARED = {}


def _real(topology, kind, n, s, v):
    from accelforge.model._looptree.reuse.symbolic import _network as N
    from accelforge.frontend._workload_isl._symbolic import Irrelevant, Relevant

    class Src:
        def _get_physical_fanout_along(self, dim):
            return 1

        def _get_physical_stride_along(self, dim):
            return 1

    rel = Irrelevant() if kind == "multicast" else Relevant("r")
    out = []
    # a fresh model, and one model object per topology that is reused for every query of this
    # run (the analyzer keeps its models for its lifetime: results must not depend on history)
    if topology not in _SHARED:
        _SHARED[topology] = N.get_topology_model(N.TopologySpec.MESH if topology == "mesh" else N.TopologySpec.ALL_TO_ALL)
    for model in (N.MeshTopologyModel() if topology == "mesh" else N.AllToAllTopologyModel(), _SHARED[topology]):
        r = model.per_loop_transfer_cost(rel, shape_repeats=n, last_fanout=s, volume=v, src_component=Src(), dim_name="X")
        out.append((Fraction(r.total_cost).limit_denominator(10**9), Fraction(r.max_traffic).limit_denominator(10**9)))
    return out[0] if out[0] == out[1] else out[1]


def _mk_relevant():
    from accelforge.frontend._workload_isl._symbolic import Relevant
    import inspect

    return Relevant


def _routes(topology, kind, n, s, v):
    """Route every value along the topology; returns (total hops, max per-link traffic)."""
    v = Fraction(v)
    load = {}
    hops = Fraction(0)
    if topology == "mesh":
        if kind == "unicast":
            for k in range(1, n):  # destination k at position k*s; its own value walks links 0..k*s-1
                for j in range(k * s):
                    load[j] = load.get(j, 0) + v
                    hops += v
        else:  # the shared value crosses every link between 0 and (n-1)*s once
            for j in range((n - 1) * s):
                load[j] = load.get(j, 0) + v
                hops += v
    else:  # switch: source uplink 'up', one downlink per other instance; one delivery = one hop
        for k in range(1, n):
            hops += v
            if kind == "unicast":
                load["up"] = load.get("up", 0) + v
            else:
                load["up"] = v
            load[("down", k)] = v
    return hops, (max(load.values()) if load else Fraction(0))


CLASSES = {"F8": lambda c: c["n"] == 1 and c["kind"] == "multicast"}


def _case(topology, kind, n, s, v, _again=False):
    try:
        got = _real(topology, kind, n, s, v)
    except TypeError:
        raise
    want = _routes(topology, kind, n, s, v)
    if got == want and not _again:
        # the same loop shape once more with another volume (results must not depend on what the
        # model object was asked before)
        again = _case(topology, kind, n, s, Fraction(v) + 1, _again=True)
        if again["failed"]:
            again["history"] = f"after the same query with volume {v}"
            return again
    return {"topology": topology, "kind": kind, "n": n, "s": s, "v": str(v), "observed": [str(x) for x in got], "required": [str(x) for x in want], "failed": got != want}


def witness(p):
    w = p["finding"]["witness"]
    c = _case(w["topology"], w["kind"], w["n"], w["s"], Fraction(w["v"]))
    return {"failed": c["failed"], "observed": f"total_cost,max_traffic={c['observed']} required {c['required']}", "case": c}


def replay(p):
    m = p.get("model") or {}
    ob = p["obligation"]
    topos = ["mesh"] if ob.startswith("Mesh") else ["switch"] if ob.startswith("AllToAll") else ["mesh", "switch"]
    topo = topos[0]
    n = model_get(m, "shape_repeats", None, num)
    s = model_get(m, "last_fanout", None, num)
    v = model_get(m, "volume", None, num)
    tried = []
    cands = []
    if n is not None and s is not None and v is not None:
        for kind in (["unicast"] if "unicast" in ob else ["multicast"] if "multicast" in ob else ["unicast", "multicast"]):
            cands.append((topo, kind, int(n), int(s), Fraction(v)))
    rnd = random.Random(p.get("seed", 0))
    for topo in topos:
      for kind in ("unicast", "multicast"):
        for nn in range(1, 9):
            for ss in range(1, 4):
                cands.append((topo, kind, nn, ss, Fraction(rnd.randint(1, 9), rnd.randint(1, 4))))
    for c in cands:
        r = _case(*c)
        tried.append(r)
        if r["failed"] and not in_known({"n": c[2], "kind": c[1]}, p.get("known"), CLASSES):
            return {"failed": True, "input": r, "observed": r["observed"], "required": r["required"], "from_model": c is cands[0] and n is not None}
    return {"failed": False, "tried": len(tried)}


def crosscheck(p):
    rnd = random.Random(p.get("seed", 0))
    cases, distinct, known_hits = 0, set(), 0
    budget = p.get("n", 200)
    grid = [(t, k, n, s) for t in ("mesh", "switch") for k in ("unicast", "multicast") for n in range(1, 33) for s in range(1, 9)]
    rnd.shuffle(grid)
    for t, k, n, s in grid[:budget]:
        v = Fraction(rnd.randint(0, 40), rnd.choice([1, 2, 3, 4, 8]))
        r = _case(t, k, n, s, v)
        cases += 1
        distinct.add((t, k, n, s))
        if r["failed"]:
            if in_known({"n": n, "kind": k}, p.get("known"), CLASSES):
                known_hits += 1
                continue
            return {"failed": True, "input": r, "observed": r["observed"], "required": r["required"]}
    return {"failed": False, "evaluations": cases, "distinct": len(distinct), "known_finding_hits": known_hits, "rule": "real per_loop_transfer_cost vs brute-force route enumeration on (topology, kind, n<=32, s<=8, random rational volume)"}
