"""Bounded run-time contract check for C15: compressing pmapping tables for joining loses no per-row detail.

Observed at the REAL compress_einsum2pmappings and decompress_pmappings
(accelforge/mapper/FFM/_join_pmappings/compress_pmappings.py), called on REAL PmappingGroup /
PmappingDataframe / Compatibility objects built here.  The join between the two calls is simulated in the
oracle: a joined table is assembled from rows of the COMPRESSED tables (exactly what a join gets to see:
the joining columns plus the '<einsum><SEP>compressed_index' column), one chosen compressed row per Einsum
and joined row.

Required (stated here, nothing of the repository is used to compute it):
  compress   for every Einsum e and group g the compressed table has the rows of the original table in the
             original order restricted to the joining columns (Total / reservation / fused_loop / binding /
             tensor columns - known by construction of the case), plus the column '<e><SEP>compressed_index'
             whose values are pairwise different over ALL rows of ALL groups of e.
  decompress for a joined table J (unique id column 'Total<SEP>jid') the result has exactly one row per row of
             J (matched by jid); that row keeps J's own (joining) columns, and for every Einsum e, with
             (g, r) = the group / row position whose compressed row was put into the joined row, it carries
             value(e, g, r, c) for every non-joining column c of group (e, g) - the value the ORIGINAL table
             (a pristine copy kept by the oracle) had there - and carries nothing else: every other column of
             the result is missing (NaN/None) in that row.
Any exception of the real functions on an input of the family is a failure.
"""
import itertools, math, random, sys

SEP = "<SEP>"
CIDX = "compressed_index"

CLASSES = {}

EINSUM_NAMES = ["E1", "E10", "E", "Q", "QK", "QK_softmax", "Matmul 1", "Z", "fused", "total", "AV", "V"]
COMPONENTS = ["MainMemory", "GlobalBuffer", "Buf", "Reg", "MAC", "tensor", "Total"]
TENSORS = ["T0", "T1", "I", "W", "O"]
ACTIONS = ["read", "write", "compute", "leak"]
DTYPES = ["int64", "float64", "float32", "int32", "uint8", "str"]
JOIN_EXTRA = ["reservation<SEP>Buf<SEP>0<SEP>right", "reservation<SEP>Buf<SEP>0<SEP>left", "reservation<SEP>GlobalBuffer<SEP>-1<SEP>right",
              "reservation<SEP>Reg<SEP>1<SEP>right", "tensor<SEP>T0", "tensor<SEP>T1", "binding<SEP>X<SEP>stride<SEP>M<SEP>0",
              "Total<SEP>energy_delay_product"]


# ------------------------------------------------------------------ values (pure functions of the case)

def _code(ei, gi, r, ci):
    return ((ei * 8 + gi) * 65536 + r) * 64 + ci + 1  # injective for gi < 8, r < 65536, ci < 63


def _value(mode, dtype, ei, gi, r, ci):
    k = _code(ei, gi, r, ci)
    if mode == "ties":
        k = k % 3
    elif mode == "same_rows":  # every row of every group of the Einsum looks the same but for the column
        k = ci + 1
    if dtype == "int64":
        return k * 1000003 if mode == "unique" else k
    if dtype == "float64":
        return k + 0.1
    if dtype == "float32":
        return (k % 4099) * 0.25  # exactly representable
    if dtype == "int32":
        return k
    if dtype == "uint8":
        return k % 251
    if dtype == "bool":
        return bool(k % 2)
    return f"s{k}"


def _join_value(mode, ei, gi, r, ji):
    k = _code(ei, gi, r, 30 + ji)
    if mode == "ties":
        k = k % 2
    return float(k)


def _detail_pool(e):
    pool = [f"{e}{SEP}mapping"]
    for c in COMPONENTS:
        pool.append(f"{e}{SEP}latency{SEP}{c}")
        for t in TENSORS[:3]:
            for a in ACTIONS[:2]:
                pool.append(f"{e}{SEP}action{SEP}{c}{SEP}{t}{SEP}{a}")
                pool.append(f"{e}{SEP}energy{SEP}{c}{SEP}{t}{SEP}{a}")
        pool.append(f"{e}{SEP}energy{SEP}{c}{SEP}leak")
    pool += [f"{e}{SEP}tile_shape{SEP}0", f"{e}{SEP}reservation{SEP}Buf{SEP}0{SEP}right", f"{e}{SEP}Total{SEP}energy",
             f"{e}{SEP}fused_loop{SEP}n_iterations{SEP}0", f"{e}{SEP}n_iterations", f"{e}{SEP}index"]
    # non-joining detail columns WITHOUT the '<einsum><SEP>' prefix (kept unique per Einsum, since equal names in
    # two Einsums' tables are outside the family): what is compressed is "every column not used in joining",
    # not "every column of this Einsum"
    tag = "".join(ch if ch.isalnum() else "_" for ch in str(e))
    pool += [f"pmapping_template_{tag}", f"aux{SEP}{tag}{SEP}note", f"{tag}_id"]
    return pool


# ------------------------------------------------------------------ case -> real objects

def _fused_cols(n_loops):
    cols = []
    for i in range(n_loops):
        cols.append(f"fused_loop{SEP}stride{SEP}M{i}{SEP}{i}")
        cols.append(f"fused_loop{SEP}n_iterations{SEP}{i}")
    return cols


def _join_cols(grp):
    return ["Total<SEP>energy", "Total<SEP>latency"] + _fused_cols(grp["loops"]) + list(grp["join_extra"])


def _orig_rows(case, ei, gi):
    """The original table of group (ei, gi) as a list of {column: python value} (the oracle's pristine copy)."""
    grp = case["einsums"][ei]["groups"][gi]
    mode = case["values"]
    rows = []
    for r in range(grp["rows"]):
        row = {}
        for ji, c in enumerate(_join_cols(grp)):
            row[c] = _join_value(mode, ei, gi, r, ji)
        for ci, (c, dt) in enumerate(grp["detail"]):
            row[c] = _value(mode, dt, ei, gi, r, ci)
        rows.append(row)
    return rows


def _index_for(mode, n, gi):
    if mode == "default":
        return list(range(n))
    if mode == "gaps":
        return [3 * i + 2 for i in range(n)]
    if mode == "dup":
        return [7] * n
    if mode == "reversed":
        return list(range(n - 1, -1, -1))
    if mode == "offset":
        return [i + 5 * (gi + 1) for i in range(n)]
    if mode == "negative":
        return [-(i + 1) for i in range(n)]
    raise ValueError(mode)


def _build(case):
    import numpy as np
    import pandas as pd
    from accelforge.mapper.FFM._join_pmappings.pmapping_group import PmappingGroup
    from accelforge.mapper.FFM._join_pmappings.pmapping_dataframe import PmappingDataframe
    from accelforge.mapper.FFM._join_pmappings.compatibility import Compatibility, TensorReservation, Loop
    from accelforge.frontend.mapping import TilePattern
    from accelforge.util._frozenset import fzs

    npdt = {"int64": np.int64, "float64": np.float64, "float32": np.float32, "int32": np.int32, "uint8": np.uint8, "bool": np.bool_, "str": object}
    e2p, orig = {}, {}
    for ei, es in enumerate(case["einsums"]):
        groups = []
        for gi, grp in enumerate(es["groups"]):
            rows = _orig_rows(case, ei, gi)
            orig[(ei, gi)] = rows
            jcols = _join_cols(grp)
            cols = {}
            for c in jcols:
                cols[c] = np.array([row[c] for row in rows], dtype=np.float64)
            for c, dt in grp["detail"]:
                cols[c] = np.array([row[c] for row in rows], dtype=npdt[dt])
            order = list(cols)
            if grp.get("col_order"):
                order = [order[i] for i in grp["col_order"]]
            df = pd.DataFrame({c: cols[c] for c in order}, index=_index_for(grp.get("index", "default"), len(rows), gi), columns=order)
            loops = tuple(
                Loop(f"M{i}", TilePattern(tile_shape=f"fused_loop{SEP}stride{SEP}M{i}{SEP}{i}", initial_tile_shape=None,
                                          calculated_n_iterations=f"fused_loop{SEP}n_iterations{SEP}{i}"), False)
                for i in range(grp["loops"]))
            comp = Compatibility(tensors=fzs([TensorReservation(loops, f"T{gi}", "Buf")]), reservation_indices=fzs([len(loops)]))
            pdf = PmappingDataframe(df, n_total_pmappings=max(1, len(rows)), n_valid_pmappings=max(1, len(rows)), ignored_resources=set(),
                                    drop_valid_reservations=False, skip_pareto=True)
            groups.append(PmappingGroup(comp, pdf))
        e2p[es["name"]] = groups
    return e2p, orig


def _py(v):
    """Comparable python value; None for a missing cell."""
    if v is None:
        return None
    if isinstance(v, str):
        return v
    try:
        if v != v:  # NaN
            return None
    except Exception:
        pass
    if isinstance(v, bool) or type(v).__name__ in ("bool_", "bool"):
        return float(bool(v))
    try:
        return float(v)
    except Exception:
        return repr(v)


def _short(x, n=300):
    s = str(x)
    return s if len(s) <= n else s[:n] + "..."


class _Fail(Exception):
    def __init__(self, stage, observed, required, extra=None):
        self.stage, self.observed, self.required, self.extra = stage, observed, required, extra or {}


# ------------------------------------------------------------------ the check of one case

def _check_compressed(case, compressed, orig):
    names = [es["name"] for es in case["einsums"]]
    if list(compressed.keys()) != names:
        raise _Fail("compress", f"Einsums of the compressed dict: {list(compressed.keys())}", f"{names}")
    index_of = {}
    for ei, es in enumerate(case["einsums"]):
        e = es["name"]
        icol = f"{e}{SEP}{CIDX}"
        got_groups = compressed[e]
        if len(got_groups) != len(es["groups"]):
            raise _Fail("compress", f"{len(got_groups)} compressed groups for {e}", f"{len(es['groups'])}")
        seen = {}
        for gi, grp in enumerate(es["groups"]):
            data = got_groups[gi].mappings.data
            rows = orig[(ei, gi)]
            if len(data) != len(rows):
                raise _Fail("compress", f"group ({e},{gi}) has {len(data)} compressed rows", f"{len(rows)} rows")
            if icol not in data.columns:
                raise _Fail("compress", f"group ({e},{gi}) columns {list(data.columns)}", f"a column {icol}")
            jcols = _join_cols(grp)
            missing = [c for c in jcols if c not in data.columns]
            if missing:
                raise _Fail("compress", f"group ({e},{gi}) lost joining columns {missing}", "all joining columns kept")
            colvals = {c: data[c].tolist() for c in jcols}
            ivals = data[icol].tolist()
            for r, row in enumerate(rows):
                for c in jcols:
                    if _py(colvals[c][r]) != _py(row[c]):
                        raise _Fail("compress", f"group ({e},{gi}) row {r} column {c} = {colvals[c][r]}", f"{row[c]} (original row order and values)")
                v = ivals[r]
                key = _py(v)
                if key is None or key in seen:
                    raise _Fail("compress", f"{icol} value {v} of group {gi} row {r} also used by (group,row) {seen.get(key)}", "pairwise different index values over all groups of the Einsum")
                seen[key] = (gi, r)
                index_of[(ei, gi, r)] = v
    return index_of


def _joined_table(case, compressed, selection, joined_index, col_shuffle):
    import pandas as pd

    names = [es["name"] for es in case["einsums"]]
    recs = []
    for k, picks in enumerate(selection):
        rec = {"Total<SEP>jid": float(k), "Total<SEP>energy": 0.0, "Total<SEP>latency": 0.0}
        for ei, (gi, r) in enumerate(picks):
            cdata = compressed[names[ei]][gi].mappings.data
            rec["Total<SEP>energy"] += float(cdata["Total<SEP>energy"].iloc[r])
            rec["Total<SEP>latency"] = max(rec["Total<SEP>latency"], float(cdata["Total<SEP>latency"].iloc[r]))
            icol = f"{names[ei]}{SEP}{CIDX}"
            rec[icol] = cdata[icol].iloc[r]
        rec["reservation<SEP>Buf<SEP>0<SEP>right"] = float(k % 3)
        recs.append(rec)
    df = pd.DataFrame(recs)
    if col_shuffle:
        cols = list(df.columns)
        cols = cols[col_shuffle % len(cols):] + cols[:col_shuffle % len(cols)]
        df = df[cols]
    n = len(df)
    if joined_index == "dup":
        df.index = [4] * n
    elif joined_index == "reversed":
        df.index = list(range(n - 1, -1, -1))
    elif joined_index == "offset":
        df.index = [i + 100 for i in range(n)]
    template = compressed[names[0]][0].mappings
    return template.update(data=df, skip_pareto=True), df.copy()


def _check_decompressed(case, orig, selection, jdf, out):
    names = [es["name"] for es in case["einsums"]]
    data = out.data
    if len(set(data.columns)) != len(data.columns):
        raise _Fail("decompress", f"duplicate columns {list(data.columns)}", "one column per name")
    if "Total<SEP>jid" not in data.columns:
        raise _Fail("decompress", f"columns {list(data.columns)}", "the joined table's own columns are kept")
    jids = [_py(x) for x in data["Total<SEP>jid"]]
    if sorted(jids, key=lambda x: (x is None, x)) != [float(k) for k in range(len(selection))]:
        raise _Fail("decompress", f"result rows (by jid): {jids}", f"exactly one result row per joined row 0..{len(selection) - 1}")
    own = [c for c in jdf.columns if CIDX not in c]
    for pos in range(len(data)):
        k = int(jids[pos])
        got = {c: _py(data[c].iloc[pos]) for c in data.columns}
        want = {}
        for c in own:
            want[c] = _py(jdf[c].iloc[k])
        for ei, (gi, r) in enumerate(selection[k]):
            row = orig[(ei, gi)][r]
            for c, _dt in case["einsums"][ei]["groups"][gi]["detail"]:
                want[c] = _py(row[c])
        for c, w in want.items():
            if c not in got or got[c] != w:
                raise _Fail("decompress", f"joined row {k} (picks {selection[k]}): column {c} = {got.get(c, '<no such column>')}", f"{w}",
                            {"column": c, "joined_row": k})
        for c, g in got.items():
            if c in want or CIDX in c:
                continue
            if g is not None:
                raise _Fail("decompress", f"joined row {k} (picks {selection[k]}): extra column {c} = {g}", "missing (not a column of the rows this joined row was built from)",
                            {"column": c, "joined_row": k})


def _run_case(case, stats):
    """Returns None if the case passes, else the failure dict.  One compress, len(selections) (+1) decompress calls."""
    from accelforge.mapper.FFM._join_pmappings.compress_pmappings import compress_einsum2pmappings, decompress_pmappings
    import accelforge.util  # noqa: F401  (the package attribute `parallel` is the function; the module is in sys.modules)
    par = sys.modules["accelforge.util.parallel"]

    try:
        par.set_n_parallel_jobs(int(case.get("n_jobs", 1)))
        e2p, orig = _build(case)
        stage = "compress"
        try:
            if case.get("compress_twice"):
                compress_einsum2pmappings(e2p, print_progress=False)  # repeated call on the same (mutated in place) objects
                stats["evaluations"] += 1
            compressed, ddata = compress_einsum2pmappings(e2p, print_progress=False)
            stats["evaluations"] += 1
            _check_compressed(case, compressed, orig)
            sels = list(case["selections"])
            if case.get("repeat_first") and len(sels) > 1:
                sels.append(sels[0])  # the same DecompressData again after other uses
            for si, sel in enumerate(sels):
                stage = f"decompress(selection {si})"
                jp, jdf = _joined_table(case, compressed, sel["rows"], sel.get("index", "default"), sel.get("col_shuffle", 0))
                out = decompress_pmappings(jp, ddata)
                stats["evaluations"] += 1
                stats["joined_rows"] += len(sel["rows"])
                _check_decompressed(case, orig, sel["rows"], jdf, out)
        except _Fail as f:
            return {"failed": True, "input": case, "observed": _short(f"{stage}: {f.observed}"), "required": _short(f.required)}
        except Exception as ex:  # an exception of the real code on an input of the family
            import traceback
            tb = traceback.extract_tb(ex.__traceback__)
            where = next((f"{t.filename.split('/')[-1]}:{t.lineno}" for t in reversed(tb) if "accelforge" in t.filename), "?")
            return {"failed": True, "input": case, "observed": _short(f"{stage}: {type(ex).__name__} at {where}: {ex}"),
                    "required": "no exception; every joined row carries the non-joining columns of the rows it was built from"}
    finally:
        par.set_n_parallel_jobs(1)
    return None


# ------------------------------------------------------------------ families

def _slots(es):
    return [(gi, r) for gi, g in enumerate(es["groups"]) for r in range(g["rows"])]


def _core_cases(tier):
    """Exhaustive core: Einsum A with 1..3 groups of 0..S rows each (not all empty), groups with different
    non-joining column sets, Einsum B with one 2-row group; EVERY non-empty subset of A's rows as the set of
    compressed rows that survive the join (one joined row per element, ascending and descending)."""
    S = 2 if tier == "quick" else 3
    for ng in (1, 2, 3):
        for sizes in itertools.product(range(S + 1), repeat=ng):
            if sum(sizes) == 0:
                continue
            groups = []
            for gi, n in enumerate(sizes):
                detail = [["A<SEP>mapping", "int64"], [f"A<SEP>energy<SEP>Buf<SEP>T{gi}<SEP>read", "float64"], ["A<SEP>latency<SEP>Buf", "float32"]]
                if gi == 1:
                    detail = detail[1:] + [["A<SEP>action<SEP>MainMemory<SEP>T0<SEP>read", "int64"]]
                groups.append({"rows": n, "loops": gi % 2, "join_extra": JOIN_EXTRA[gi:gi + 1], "detail": detail, "index": "default"})
            es_a = {"name": "A", "groups": groups}
            es_b = {"name": "B", "groups": [{"rows": 2, "loops": 0, "join_extra": [], "detail": [["B<SEP>mapping", "int64"], ["B<SEP>energy<SEP>MAC<SEP>compute", "float64"]], "index": "default"}]}
            slots = _slots(es_a)
            sels = []
            for m in range(1, 2 ** len(slots)):
                sub = [slots[i] for i in range(len(slots)) if m >> i & 1]
                if m % 2:
                    sub = sub[::-1]
                sels.append({"rows": [[list(s), [0, k % 2]] for k, s in enumerate(sub)]})
            yield {"einsums": [es_a, es_b], "values": "unique", "selections": sels, "n_jobs": 1, "kind": f"core sizes={list(sizes)}"}


def _large_cases(tier):
    """Row counts beyond the range of narrow integer types (uint8; thorough: int16/uint16)."""
    shapes = [[1, 300, 2]] if tier == "quick" else [[1, 300, 2], [40000, 3, 30000]]
    for sizes in shapes:
        groups = [{"rows": n, "loops": 0, "join_extra": [], "detail": [["L<SEP>mapping", "int64"], [f"L<SEP>energy<SEP>Buf<SEP>T{gi}<SEP>read", "float64"]], "index": "default"}
                  for gi, n in enumerate(sizes)]
        small = {"name": "S", "groups": [{"rows": 2, "loops": 0, "join_extra": [], "detail": [["S<SEP>mapping", "int64"]], "index": "default"}]}
        picks = []
        for gi, n in enumerate(sizes):
            for r in sorted({0, 1, n // 2, 127, 128, 255, 256, 257, 32767, 32768, n - 2, n - 1}):
                if 0 <= r < n:
                    picks.append([gi, r])
        rows = [[p, [0, k % 2]] for k, p in enumerate(picks)]
        yield {"einsums": [{"name": "L", "groups": groups}, small], "values": "unique", "n_jobs": 1,
               "selections": [{"rows": rows, "kind": "boundary"}, {"rows": rows[::-1], "kind": "boundary-desc"}], "kind": f"large sizes={sizes}"}


def _rand_selection(rnd, case):
    per = [_slots(es) for es in case["einsums"]]
    kind = rnd.choice(["random", "random", "last_only", "first_only", "boundary", "same", "desc", "asc", "all", "one"])
    n = rnd.randint(1, 9)

    def last_group(sl):
        g = max(s[0] for s in sl)
        return [s for s in sl if s[0] == g]

    def first_group(sl):
        g = min(s[0] for s in sl)
        return [s for s in sl if s[0] == g]

    def boundary(sl, es):
        return [s for s in sl if s[1] in (0, es["groups"][s[0]]["rows"] - 1)]

    rows = []
    if kind in ("desc", "asc", "all"):
        lead = rnd.randrange(len(per))
        seq = list(per[lead])
        if kind == "desc":
            seq.reverse()
        elif kind == "all":
            rnd.shuffle(seq)
            seq = seq + [rnd.choice(seq) for _ in range(rnd.randint(0, 3))]
        for s in seq:
            rows.append([list(s) if ei == lead else list(rnd.choice(per[ei])) for ei in range(len(per))])
    elif kind == "same":
        pick = [list(rnd.choice(sl)) for sl in per]
        rows = [list(pick) for _ in range(n)]
    elif kind == "one":
        rows = [[list(rnd.choice(sl)) for sl in per]]
    else:
        pools = []
        for ei, sl in enumerate(per):
            if kind == "last_only":
                pools.append(last_group(sl))
            elif kind == "first_only":
                pools.append(first_group(sl))
            elif kind == "boundary":
                pools.append(boundary(sl, case["einsums"][ei]))
            else:
                pools.append(sl)
        rows = [[list(rnd.choice(pl)) for pl in pools] for _ in range(n)]
    return {"rows": rows, "index": rnd.choice(["default", "default", "dup", "reversed", "offset"]), "col_shuffle": rnd.choice([0, 0, 1, 2, 3]), "kind": kind}


def _rand_case(rnd, tier, allow_parallel):
    big = tier != "quick"
    ne = rnd.choice([1, 1, 2, 2, 2, 3, 3, 4] + ([5] if big else []))
    names = rnd.sample(EINSUM_NAMES, ne)
    if rnd.random() < 0.3 and ne >= 2:
        pair = rnd.choice([["E1", "E10"], ["E10", "E1"], ["Q", "QK"], ["QK", "QK_softmax"], ["E", "E1"]])
        names = pair + [x for x in names if x not in pair][:ne - 2]
    values = rnd.choice(["unique", "unique", "unique", "ties", "same_rows"])
    einsums = []
    for ei, e in enumerate(names):
        pool = _detail_pool(e)
        ng = rnd.choice([1, 1, 2, 2, 3, 4] + ([6] if big else []))
        shape = rnd.choice(["any", "any", "ones", "empties"])
        groups = []
        for gi in range(ng):
            if shape == "ones":
                n = 1
            elif shape == "empties":
                n = rnd.choice([0, 0, 1, 2])
            else:
                n = rnd.choice([0, 1, 1, 2, 3, 4, 5] + ([9] if big else []))
            nd = rnd.choice([0, 1, 2, 3, 5, 8])
            cols = rnd.sample(pool, nd)
            if rnd.random() < 0.7 and f"{e}{SEP}mapping" not in cols:
                cols.append(f"{e}{SEP}mapping")
            rnd.shuffle(cols)
            detail = [[c, rnd.choice(DTYPES)] for c in cols]
            loops = rnd.choice([0, 0, 1, 2])
            jx = rnd.sample(JOIN_EXTRA, rnd.randint(0, 3))
            ncols = 2 + 2 * loops + len(jx) + len(detail)
            order = list(range(ncols))
            if rnd.random() < 0.5:
                rnd.shuffle(order)  # joining and non-joining columns interleaved
            groups.append({"rows": n, "loops": loops, "join_extra": jx, "detail": detail, "col_order": order,
                           "index": rnd.choice(["default", "default", "gaps", "dup", "reversed", "offset", "negative"])})
        if sum(g["rows"] for g in groups) == 0:  # every Einsum has at least one pmapping (the join refuses otherwise)
            groups[rnd.randrange(ng)]["rows"] = rnd.choice([1, 2])
        if rnd.random() < 0.25 and ng >= 2:  # same column NAME with different dtypes / only in some groups
            c = f"{e}{SEP}energy{SEP}Shared{SEP}leak"
            for gi in rnd.sample(range(ng), rnd.randint(1, ng)):
                groups[gi]["detail"].append([c, rnd.choice(["int64", "float64", "float32"])])
                groups[gi]["col_order"] = None
        einsums.append({"name": e, "groups": groups})
    case = {"einsums": einsums, "values": values, "n_jobs": 1, "compress_twice": rnd.random() < 0.15, "repeat_first": rnd.random() < 0.3}
    if allow_parallel:
        case["n_jobs"] = 2
    case["selections"] = [_rand_selection(rnd, case) for _ in range(rnd.randint(1, 4))]
    return case


def _sample_text(case):
    parts = []
    for es in case["einsums"]:
        parts.append(f"{es['name']}: rows/group {[g['rows'] for g in es['groups']]} detail cols/group {[len(g['detail']) for g in es['groups']]} index {[g.get('index', 'default')[0] for g in es['groups']]}")
    sel = case["selections"][0]
    return " | ".join(parts) + f" | values {case['values']} | {len(case['selections'])} selections, first ({sel.get('kind', 'subset')}): {_short(sel['rows'], 80)}"


def _is_trivial(case):
    return all(len(es["groups"]) == 1 and es["groups"][0]["rows"] <= 1 for es in case["einsums"])


def _sweep(seed, tier, n_random, known, core=True):
    rnd = random.Random(int(seed) * 1000003 + (0 if tier == "quick" else 1))
    stats = {"evaluations": 0, "joined_rows": 0, "cases": 0, "core_cases": 0, "large_cases": 0, "parallel_cases": 0}
    seen, samples = set(), []

    def done(res):
        res.update({"evaluations": stats["evaluations"], "distinct": len(seen), "known_finding_hits": 0, "stats": stats})
        return res

    def run(case):
        stats["cases"] += 1
        if not _is_trivial(case):
            seen.add(repr(case))
        return _run_case(case, stats)

    if core:
        for case in _core_cases(tier):
            stats["core_cases"] += 1
            res = run(case)
            if res is not None:
                return done(res)
        for case in _large_cases(tier):
            stats["large_cases"] += 1
            res = run(case)
            if res is not None:
                return done(res)
    n_par = 0 if tier == "quick" else 3
    for i in range(n_random):
        par = i < n_par
        case = _rand_case(rnd, tier, par)
        stats["parallel_cases"] += int(par)
        res = run(case)
        if res is not None:
            return done(res)
        if len(samples) < 8 and i % 7 == 0:
            samples.append(_short(_sample_text(case), 400))
    S = 2 if tier == "quick" else 3
    bound = (f"1-{4 if tier == 'quick' else 5} Einsums, 1-{4 if tier == 'quick' else 6} groups per Einsum, 0-{5 if tier == 'quick' else 9} rows per group (each Einsum has >= 1 row), "
             f"0-9 non-joining columns per group, 1-4 non-empty join selections of <= ~{30 if tier == 'quick' else 60} joined rows per case; exhaustive core: group sizes in 0..{S}, <= 3 groups, all non-empty subsets of rows; one Einsum with a {'300' if tier == 'quick' else '40000'}-row group")
    rule = (
        f"{stats['core_cases']} exhaustive-core cases (Einsum A with 1-3 groups of 0..{S} rows, not all empty, different non-joining column sets per group, Einsum B with one 2-row group; "
        "every non-empty subset of A's rows as the set of compressed rows surviving the join, listed ascending or descending) "
        f"plus {stats['large_cases']} large case(s) (Einsum with group sizes [1,300,2]" + ("" if tier == "quick" else " and [40000,3,30000]") + ", rows at the positions 0,1,127,128,255,256,257,32767,32768,n-2,n-1 of every group picked, ascending and descending) "
        f"plus {n_random} seeded random cases: real PmappingGroup/PmappingDataframe/Compatibility objects; Einsum names incl. prefix pairs (E1/E10, Q/QK), names with blanks; groups with 0..5 rows "
        "(thorough 0..9), runs of empty groups, all-one-row groups; original table indices default / gapped / all-equal / reversed / offset / negative; joining columns (Total, reservation, fused_loop, binding, tensor) "
        "interleaved with 0-9 non-joining columns per group ('<e><SEP>action|energy|latency|mapping...' and look-alikes such as '<e><SEP>reservation<SEP>...'), column sets and dtypes (int64/int32/uint8/float64/float32/str) "
        "differing between groups of one Einsum, the same column with different dtypes in different groups; cell values unique per (Einsum, group, row, column), or with ties, or identical rows; optional second "
        "compress call on the same objects; 1-4 selections per case decompressed with the SAME DecompressData (first one optionally repeated at the end); selections: random with repetitions, only last / only first group, "
        "only first/last rows of groups, one compressed row repeated, all rows ascending / descending / shuffled, single row; joined table with default / all-equal / reversed / offset index and rotated column order. "
        "The real compress_einsum2pmappings is called, the compressed tables are compared with the original joining columns (row order kept, index column pairwise different within an Einsum); a joined table is built from rows "
        "of the compressed tables (their index values are copied as a join would); the real decompress_pmappings is called and every result row (matched by a unique id column) is compared with the oracle's pristine copy of "
        "the original rows: it must carry every non-joining column of the (group,row) it was built from for every Einsum, the joined table's own columns, and no other non-missing cell. Exceptions are failures. "
        f"This run: {stats['cases']} cases, {stats['evaluations']} calls of the real functions, {stats['joined_rows']} joined rows compared, {stats['parallel_cases']} cases through the joblib path (n_jobs=2). "
        "Not in the family: an EMPTY joined table (the join raises before decompress when nothing survives), an Einsum without any row, non-joining columns whose name contains 'compressed_index', "
        "column names shared between Einsums, NaN cells or bool-typed columns in the original tables."
    )
    return done({"failed": False, "bound": bound, "rule": rule, "exhaustive": True, "samples": samples})


def bounded(p):
    tier = p.get("tier", "quick")
    if tier not in ("quick", "thorough"):
        tier = "quick"
    return _sweep(p.get("seed", 0), tier, 200 if tier == "quick" else 2000, p.get("known"))


def crosscheck(p):
    n = int(p.get("n", 200))
    tier = "quick" if n <= 200 else "thorough"
    return _sweep(p.get("seed", 0), tier, n, p.get("known"))


def replay(p):
    res = _sweep(p.get("seed", 0), "quick", 120, p.get("known"))
    if res.get("failed"):
        return {"failed": True, "input": res["input"], "observed": res["observed"], "required": res["required"]}
    return {"failed": False, "tried": res["evaluations"]}


def witness(p):
    return {"failed": False}
