"""Executable oracle for C26: instance counts over random architecture trees (BOUNDED part of C26:
this is what stands in for ArchNode.iterate_hierarchically, which is not under proof).

Families (all on the real API, REQUIRED values from the structural definition written here):
  1. (original) random Memory / Container / Compute trees of archtrees.random_tree, per-component totals.
  2. enumerated core: structure templates (Fork followed by the main path, nested Forks, Hierarchical
     nesting, Array on the path / in a Fork / before a Fork, a mid-path Compute) x every fan-out assignment,
     observed at the ARCHITECTURE level (Arch.per_component_total_* and Arch.total_*).
  3. seeded random trees with all component kinds (Memory, Toll, Network, Compute), Containers, nested
     Hierarchical / Fork, Arrays, several spatial dimensions per node; architecture-level observation.
  4. call histories: 2-3 calls of calculate_component_costs with flag subsets on the original and on
     the returned Spec, with a fan-out edited between calls.

Tree node forms (a superset of archtrees'):
  leaf  (kind, name, fan, area[, (scale, n_parallel)])   fan: int or tuple of ints (one per spatial dimension)
  ("H", [nodes]) / ("F", [nodes])                         Hierarchical / Fork
  ("A", name, fan, [leaves])                              Array (leaves only: Array rejects Forks, and
                                                          flattening rejects any Branch inside an Array)
"""
import itertools, math, random
from fractions import Fraction
from oracles import archtrees as T
from oracles.common import in_known

CLASSES = {"F4": lambda c: c["own_fanout"] != 1}

def _case(tree, known):
    from accelforge.frontend.spec import Spec
    from accelforge.frontend.arch import Component

    arch = T.build(tree)
    spec = Spec(arch=arch).calculate_component_costs()
    hits = 0
    for (kind, name, fan, area) in T.preorder(tree):
        if kind == "Container":
            continue
        inst = fan
        for (k2, n2, f2, a2) in T.above(tree, name):
            if k2 != "Compute":  # sibling compute branches are not ancestors
                inst *= f2
        c = spec.arch.find(name)
        want = (area * inst, (area / 2) * inst)
        got = (c.total_area, c.total_leak_power)
        if tuple(float(x) for x in got) != tuple(float(x) for x in want):
            if in_known({"own_fanout": fan}, known, CLASSES):
                # inside the known class only the own-fan-out factor may be missing
                if tuple(float(x) * fan for x in got) == tuple(float(x) for x in want):
                    hits += 1
                    continue
            return False, hits, {"tree": repr(tree), "component": name, "observed": [float(x) for x in got], "required": list(want), "instances": inst}
    return True, hits, None


WITNESS = [("Memory", "Main", 1, 1), ("Container", "PE", 4, 1), ("Memory", "Buf", 2, 10), ("Compute", "MAC", 1, 1)]


def witness(p):
    ok, hits, bad = _case(WITNESS, [])
    return {"failed": not ok, "observed": bad and f"{bad['component']}: total_area,total_leak_power = {bad['observed']} required {bad['required']}"}


# ----------------------------------------------------------------------------------------------
# extended trees: builder (real API) and the independent definition of the instance counts
# ----------------------------------------------------------------------------------------------
DIMS = ("X", "Y", "Z")


def _fan(f):
    return math.prod(f) if isinstance(f, tuple) else f


def _spatial(f):
    """every dimension is written out (also fan-out 1), so that a later edit only assigns a fanout"""
    fs = f if isinstance(f, tuple) else (f,)
    return [{"name": DIMS[i], "fanout": v} for i, v in enumerate(fs)]


def _is_branch(n):
    return isinstance(n, tuple) and n[0] in ("H", "F", "A")


def _build(tree):
    from accelforge.frontend.arch import Arch, Hierarchical, Fork, Array, Memory, Compute, Container, Toll
    from accelforge.frontend.arch.components import Network

    def mk(n):
        if _is_branch(n):
            if n[0] == "A":
                return Array(name=n[1], spatial=_spatial(n[2]), nodes=[mk(c) for c in n[3]])
            return (Hierarchical if n[0] == "H" else Fork)(nodes=[mk(c) for c in n[1]])
        kind, name, fan, area = n[:4]
        kw = {}
        if kind != "Container":
            kw = dict(area=area, leak_power=area / 2)
            if len(n) > 4:
                sc, npar = n[4]
                kw.update(area_scale=sc, leak_power_scale=sc, n_parallel_instances=npar)
        if kind == "Memory":
            return Memory(name=name, size=1000, actions=T.ACT2, spatial=_spatial(fan), **kw)
        if kind == "Toll":
            return Toll(name=name, actions=[{"name": "read", "energy": 1, "throughput": 1}], spatial=_spatial(fan), direction="down", tensors={"keep": "All"}, **kw)
        if kind == "Network":
            return Network(name=name, actions=[{"name": "hop", "energy": 1, "throughput": 1}], spatial=_spatial(fan), **kw)
        if kind == "Compute":
            return Compute(name=name, actions=[{"name": "compute", "energy": 1, "throughput": 1}], spatial=_spatial(fan), **kw)
        if kind == "Container":
            return Container(name=name, spatial=_spatial(fan))
        raise ValueError(kind)

    return Arch(nodes=[mk(c) for c in tree])


def _per_instance(leaf):
    """(area, leak power) of one instance: the given value x its scale factor x n_parallel_instances"""
    area = Fraction(leaf[3])
    if len(leaf) > 4:
        area = area * Fraction(leaf[4][0]) * Fraction(leaf[4][1])
    return area, area / 2


# What is required of the components INSIDE an Array.
#   "spatialable" (in force): the Array is a Spatialable node above its contents, its fan-out multiplies them.
#       Source: Spatialable.spatial docstring ("Spatial fanouts specified at this level also apply to lower-level
#       Leaf nodes"), the comment in ArchNode.iterate_hierarchically ("Array -> Each node is independent. Create a
#       new parent list for each one", the Array itself having been appended to that list) and the unchanged
#       behaviour of calculate_component_costs.
#   "flatten": Array._flatten / Hierarchical._flatten (the compute path the mapper and model use) put the contents
#       of an Array ABOVE the Array node and turn their own spatial into a physical fan-out with stride
#       array_fanout / own_fanout, i.e. a node inside an Array exists (own fan-out) times per Array, not
#       (Array fan-out) x (own fan-out) times.  The two views DISAGREE; the cost calculation follows the first.
# Everything AFTER an Array is multiplied by the Array's fan-out in both views.
ARRAY_RULE = "spatialable"


def _instances(tree):
    """{component name: (instance count, own fan-out, leaf)} by structural recursion -- the definition.
    `mult` = product of the fan-outs of the nodes above the current position on the path.
      * a leaf has mult x (own fan-out) instances; everything after it in the same Hierarchical (and in
        the Hierarchicals that enclose it) is below it and is multiplied by its fan-out -- except after a
        Compute, which is a sibling branch, not an ancestor;
      * a Hierarchical is transparent (its contents continue the path);
      * a Fork's contents hang below what precedes the Fork, and are NOT above what follows the Fork;
      * an Array is itself a Spatialable node on the path: its fan-out multiplies every node inside it
        and every node after it; the nodes inside it are independent of each other (none is above
        another) and none of them is above what follows the Array."""
    out = {}

    def rec(nodes, mult):
        for n in nodes:
            if _is_branch(n):
                if n[0] == "H":
                    mult = rec(n[1], mult)
                elif n[0] == "F":
                    rec(n[1], mult)
                else:
                    inner = mult * _fan(n[2]) if ARRAY_RULE == "spatialable" else mult
                    for c in n[3]:
                        rec([c], inner)
                    mult = mult * _fan(n[2])
                continue
            if n[0] != "Container":
                out[n[1]] = (mult * _fan(n[2]), _fan(n[2]), n)
            if n[0] != "Compute":
                mult = mult * _fan(n[2])
        return mult

    rec(tree, 1)
    return out


def _names(tree):
    """names of all nodes that carry a fan-out (leaves and Arrays), preorder"""
    out = []
    for n in tree:
        if _is_branch(n):
            if n[0] == "A":
                out.append(n[1])
                out.extend(_names(n[3]))
            else:
                out.extend(_names(n[1]))
        else:
            out.append(n[1])
    return out


def _fan_of(tree, name):
    for n in tree:
        if _is_branch(n):
            if n[0] == "A":
                if n[1] == name:
                    return n[2]
                r = _fan_of(n[3], name)
            else:
                r = _fan_of(n[1], name)
            if r is not None:
                return r
        elif n[1] == name:
            return n[2]
    return None


def _with_fan(tree, name, fan):
    out = []
    for n in tree:
        if _is_branch(n):
            if n[0] == "A":
                out.append(("A", n[1], fan if n[1] == name else n[2], _with_fan(n[3], name, fan)))
            else:
                out.append((n[0], _with_fan(n[1], name, fan)))
        elif n[1] == name:
            out.append((n[0], n[1], fan) + tuple(n[3:]))
        else:
            out.append(n)
    return out


def _num(x):
    return None if x is None else Fraction(x)


def _required_totals(tree):
    """{name: (total area, total leak power, own fan-out)} for the components of `tree`"""
    req = {}
    for name, (inst, own, leaf) in _instances(tree).items():
        a, l = _per_instance(leaf)
        req[name] = (a * inst, l * inst, own)
    return req


def _accept(got, want, own, known):
    """0 = equal, 1 = inside the open known class F4 with only the own-fan-out factor missing, -1 = wrong"""
    if got is None:
        return -1
    if Fraction(got) == want:
        return 0
    if in_known({"own_fanout": own}, known, CLASSES) and Fraction(got) * own == want:
        return 1
    return -1


def _check_quantity(spec, q, req, known, ctx):
    """Architecture-level and per-component observation of one quantity (q = 0: area, 1: leak power)
    against the required totals `req` ({name: (area total, leak total, own fan-out)}).
    Returns (hits, bad)."""
    arch = spec.arch
    label = ("total_area", "total_leak_power")[q]
    try:
        per = arch.per_component_total_area if q == 0 else arch.per_component_total_leak_power
        tot = arch.total_area if q == 0 else arch.total_leak_power
    except Exception as e:
        return 0, dict(ctx, observed=f"Arch.per_component_{label} / Arch.{label} raised {type(e).__name__}: {str(e)[:120]}", required={k: float(v[q]) for k, v in req.items()})
    want_names = sorted(req)
    if sorted(per) != want_names:
        return 0, dict(ctx, observed=f"Arch.per_component_{label} lists {sorted(per)}", required=f"exactly the components {want_names}")
    hits = 0
    for name in want_names:
        want, own = req[name][q], req[name][2]
        direct = getattr(arch.find(name), label)
        for where, got in (("Arch.per_component_" + label, per[name]), ("find(name)." + label, direct)):
            a = _accept(got, want, own, known)
            if a < 0:
                return hits, dict(ctx, component=name, observed=f"{where}[{name}] = {got}", required=float(want))
        if _num(per[name]) != _num(direct):
            return hits, dict(ctx, component=name, observed=f"Arch.per_component_{label}[{name}] = {per[name]} but the component has {direct}", required=float(want))
        hits += _accept(per[name], want, own, known)
    s = sum((Fraction(per[name]) for name in want_names), Fraction(0))
    if Fraction(tot) != s:
        return hits, dict(ctx, observed=f"Arch.{label} = {tot}", required=f"sum of the per-component totals = {float(s)}")
    return hits, None


def _arch_case(tree, known):
    """one call on a fresh Spec; both quantities observed at the architecture level"""
    from accelforge.frontend.spec import Spec

    spec = Spec(arch=_build(tree)).calculate_component_costs()
    req = _required_totals(tree)
    hits = 0
    for q in (0, 1):
        h, bad = _check_quantity(spec, q, req, known, {"tree": repr(tree)})
        hits += h
        if bad:
            return False, hits, bad
    return True, hits, None


# ----------------------------------------------------------------------------------------------
# enumerated core
# ----------------------------------------------------------------------------------------------
def _templates():
    M, C, K, TL, N = "Memory", "Compute", "Container", "Toll", "Network"
    return {
        # (d) a Fork whose inner nodes have fan-outs, followed by components on the main path
        "fork_then_main": lambda a, b, c, d: [(M, "M0", 1, 1), ("F", [(K, "K", a, 1), (M, "A", b, 2), (C, "c0", 1, 1)]), (K, "P", c, 1), (M, "B", d, 5), (C, "MAC", 1, 10)],
        "fork_nested_h": lambda a, b, c, d: [(K, "K", a, 1), ("F", [("H", [(M, "A", b, 2), (K, "Q", c, 1)]), (C, "c0", 1, 1)]), (M, "B", d, 5), (C, "MAC", 1, 10)],
        "nested_forks": lambda a, b, c, d: [(K, "K", a, 1), ("F", [(K, "Q", b, 1), ("F", [(M, "A", c, 2), (C, "c1", 1, 1)]), (TL, "A2", 1, 5), (C, "c0", 1, 1)]), (M, "B", d, 10), (C, "MAC", 1, 1)],
        "h_in_h": lambda a, b, c, d: [("H", [(K, "K", a, 1), ("H", [(M, "A", b, 2)])]), (TL, "T", c, 5), (N, "N", d, 10), (C, "MAC", 1, 1)],
        "mid_compute": lambda a, b, c, d: [(M, "M0", a, 1), (C, "c0", b, 2), (M, "B", c, 5), (C, "MAC", d, 10)],
        # (b) Arrays
        "array_on_path": lambda a, b, c, d: [(M, "M0", 1, 1), (K, "K", a, 1), ("A", "Arr", b, [(M, "G", c, 2), (M, "R", 1, 5), (C, "ca", 1, 1)]), (M, "S", d, 10), (C, "MAC", 1, 1)],
        "array_in_fork": lambda a, b, c, d: [(K, "K", a, 1), ("F", [("A", "Arr", b, [(M, "G", c, 2)]), (M, "A", 1, 1), (C, "c0", 1, 1)]), (M, "B", d, 5), (C, "MAC", 1, 10)],
        "array_then_fork": lambda a, b, c, d: [("A", "Arr", a, [(K, "Q", b, 1), (N, "N", 1, 1), (M, "G", c, 2)]), ("F", [(M, "A", d, 5), (C, "c0", 1, 1)]), (M, "B", 1, 10), (C, "MAC", 1, 1)],
        "array_2d_in_h": lambda a, b, c, d: [(M, "M0", a, 1), ("H", [("A", "Arr", (b, c), [(TL, "G", (d, 2), 2), (M, "R", 1, 5)])]), (C, "MAC", 1, 10)],
    }


def _core(values, known, stride=1, offset=0):
    """every template x every assignment of `values` to its four fan-out slots (stride/offset thin it)"""
    ev, hits, seen = 0, 0, set()
    k = 0
    for tname, make in _templates().items():
        for fans in itertools.product(values, repeat=4):
            k += 1
            if (k + offset) % stride:
                continue
            tree = make(*fans)
            seen.add(repr(tree))
            ok, h, bad = _arch_case(tree, known)
            ev += 1
            hits += h
            if not ok:
                bad["template"] = tname
                return ev, seen, hits, bad
    return ev, seen, hits, None


# ----------------------------------------------------------------------------------------------
# seeded random extended trees
# ----------------------------------------------------------------------------------------------
def _rand_fan(rnd):
    r = rnd.random()
    if r < 0.35:
        return 1
    if r < 0.85:
        return rnd.choice([2, 3, 4, 5])
    return (rnd.choice([1, 2, 3]), rnd.choice([2, 3]))  # two spatial dimensions


def _rand_tree(rnd, max_nodes=9, depth=3, scales=False):
    counter = itertools.count()

    def leaf(kind=None):
        kind = kind or rnd.choice(("Memory", "Container", "Compute", "Memory", "Toll", "Network"))
        l = (kind, f"{kind[0]}{next(counter)}", _rand_fan(rnd), rnd.choice([1, 2, 5, 10]))
        if scales and kind != "Container" and rnd.random() < 0.4:
            l = l + ((rnd.choice([1, 2, 3]), rnd.choice([1, 2])),)
        return l

    def level(d, budget):
        out = []
        n = rnd.randint(1, max(1, min(4, budget)))
        for _ in range(n):
            r = rnd.random()
            if d > 0 and r < 0.3 and budget > 2:
                sub = level(d - 1, budget // 2)
                out.append((rnd.choice(["H", "F", "F"]), sub))
            elif r < 0.42:
                out.append(("A", f"Arr{next(counter)}", _rand_fan(rnd), [leaf() for _ in range(rnd.randint(1, 3))]))
            else:
                out.append(leaf())
        return out

    t = level(depth, max_nodes)
    if rnd.random() < 0.5:  # (d): a Fork with inner fan-outs > 1 right before main-path components
        inner = [leaf("Container"), leaf("Memory"), leaf("Compute")]
        inner = [(k, n, f if _fan(f) > 1 else rnd.choice([2, 3])) + tuple(rest) for (k, n, f, *rest) in inner]
        t.append(("F", inner))
        t.append(leaf(rnd.choice(["Memory", "Toll", "Container"])))
        t.append(leaf("Memory"))
    t.append(leaf("Compute"))  # the main path ends in a compute
    return t


def _random_arch(rnd, n, known):
    ev, hits, seen = 0, 0, set()
    for _ in range(n):
        tree = _rand_tree(rnd, max_nodes=rnd.randint(2, 9), depth=rnd.randint(0, 3), scales=rnd.random() < 0.3)
        seen.add(repr(tree))
        ok, h, bad = _arch_case(tree, known)
        ev += 1
        hits += h
        if not ok:
            return ev, seen, hits, bad
    return ev, seen, hits, None


# ----------------------------------------------------------------------------------------------
# call histories
# ----------------------------------------------------------------------------------------------
FLAGSETS = [
    dict(area=True, leak=True, energy=True, throughput=True),
    dict(area=True, leak=False, energy=False, throughput=False),
    dict(area=False, leak=True, energy=False, throughput=False),
    dict(area=True, leak=True, energy=False, throughput=False),
    dict(area=False, leak=False, energy=True, throughput=True),
    dict(area=True, leak=False, energy=True, throughput=False),
    dict(area=False, leak=True, energy=False, throughput=True),
    dict(area=False, leak=False, energy=False, throughput=False),
]


def _set_fan(spec, name, fan):
    node = spec.arch.find(name)
    fs = fan if isinstance(fan, tuple) else (fan,)
    assert len(node.spatial) == len(fs)
    for s, v in zip(node.spatial, fs):
        s.fanout = v


def _history_case(tree, steps, known):
    """steps: [{"on": "orig"|"last", "flags": {...}, "edit": None | (name, fan)}].  The edit is applied
    to the receiver Spec (the original, never evaluated one, or the Spec returned by the previous call)
    just before the call.
    Model of what is required: a Spec carries its current tree and, per quantity (area, leak power), the
    tree for which that quantity's totals were last asked (None: never).  A call copies the receiver's
    state and, for every quantity its flags ask for, sets the totals of ALL components from the
    receiver's CURRENT tree.  The original Spec is never changed by a call.  The check is made on the Spec
    returned by the LAST call: a quantity asked for by that call must match the current tree; a quantity
    asked for only by earlier calls in the chain must still be the totals of the tree at that time
    (a call that does not ask for it must not touch it); a quantity never asked for is not constrained."""
    from accelforge.frontend.spec import Spec

    orig = Spec(arch=_build(tree))
    state = {"orig": {"tree": tree, "asked": [None, None]}}
    last = None
    ev = 0
    for i, st in enumerate(steps):
        on = st["on"] if last is not None else "orig"
        recv = orig if on == "orig" else last
        rs = state["orig"] if on == "orig" else state["last"]
        if st.get("edit"):
            name, fan = st["edit"]
            _set_fan(recv, name, fan)
            rs["tree"] = _with_fan(rs["tree"], name, fan)
        out = recv.calculate_component_costs(**st["flags"])
        ev += 1
        ns = {"tree": rs["tree"], "asked": list(rs["asked"])}
        if st["flags"]["area"]:
            ns["asked"][0] = rs["tree"]
        if st["flags"]["leak"]:
            ns["asked"][1] = rs["tree"]
        if not any(st["flags"].values()):
            # documented: nothing to do, the receiver itself is returned
            if out is not recv:
                return ev, 0, {"tree": repr(tree), "steps": steps, "observed": f"call {i} with all flags False returned a different Spec", "required": "the receiver itself"}
            ns = rs
        if out is recv and on == "orig" and any(st["flags"].values()):
            return ev, 0, {"tree": repr(tree), "steps": steps, "observed": f"call {i} returned the unevaluated receiver", "required": "a Spec with calculated costs"}
        last = out
        state["last"] = ns
    hits = 0
    fin = state["last"]
    for q in (0, 1):
        if fin["asked"][q] is None:
            continue
        req = _required_totals(fin["asked"][q])
        h, bad = _check_quantity(last, q, req, known, {"tree": repr(tree), "steps": steps, "totals_required_for_tree": repr(fin["asked"][q])})
        hits += h
        if bad:
            return ev, hits, bad
    return ev, hits, None


def _rand_steps(rnd, tree):
    names = _names(tree)
    steps = []
    cur = {"orig": tree, "last": None}
    for i in range(rnd.choice([2, 2, 3])):
        on = "orig" if i == 0 else rnd.choice(["last", "last", "last", "orig"])
        edit = None
        if i > 0 and rnd.random() < 0.75:
            name = rnd.choice(names)
            old = _fan_of(cur[on], name)
            if isinstance(old, tuple):
                new = tuple(rnd.choice([v for v in (1, 2, 3, 4) if v != o]) for o in old)
            else:
                new = rnd.choice([v for v in (1, 2, 3, 4, 5, 6) if v != old])
            edit = (name, new)
            cur[on] = _with_fan(cur[on], name, new)
        if i == 0:
            flags = rnd.choice(FLAGSETS[:7])
        else:
            flags = rnd.choice(FLAGSETS)
        steps.append({"on": on, "flags": dict(flags), "edit": edit})
        cur["last"] = cur[on]
    return steps


HISTORY_CORE_TREES = {
    "container_above": [("Memory", "Main", 1, 1), ("Container", "PE", 2, 1), ("Memory", "Buf", 1, 10), ("Compute", "MAC", 1, 5)],
    "fork_and_array": [("Container", "K", 2, 1), ("F", [("Container", "Q", 3, 1), ("Memory", "A", 1, 2), ("Compute", "c0", 1, 1)]), ("A", "Arr", 2, [("Memory", "G", 1, 5)]), ("Memory", "B", 1, 10, (2, 3)), ("Compute", "MAC", 1, 1)],
}
HISTORY_CORE_EDITS = {"container_above": [("PE", 5), ("Main", 3)], "fork_and_array": [("K", 5), ("Q", 4), ("Arr", 3)]}


def _history_core(known, stride=1, offset=0):
    """every pair of flag subsets (first call not all-False) x {no edit, each listed edit} x second call on
    {the returned Spec, the original}, on two fixed trees"""
    ev, hits, seen = 0, 0, set()
    k = 0
    for tname, tree in HISTORY_CORE_TREES.items():
        for f1 in FLAGSETS[:7]:
            for f2 in FLAGSETS:
                for edit in [None] + HISTORY_CORE_EDITS[tname]:
                    for on in ("last", "orig"):
                        k += 1
                        if (k + offset) % stride:
                            continue
                        steps = [{"on": "orig", "flags": dict(f1), "edit": None}, {"on": on, "flags": dict(f2), "edit": edit}]
                        seen.add(repr((tname, steps)))
                        e, h, bad = _history_case(tree, steps, known)
                        ev += e
                        hits += h
                        if bad:
                            return ev, seen, hits, bad
    return ev, seen, hits, None


def _random_histories(rnd, n, known):
    ev, hits, seen = 0, 0, set()
    for _ in range(n):
        tree = _rand_tree(rnd, max_nodes=rnd.randint(2, 7), depth=rnd.randint(0, 2), scales=rnd.random() < 0.5)
        steps = _rand_steps(rnd, tree)
        seen.add(repr((tree, steps)))
        e, h, bad = _history_case(tree, steps, known)
        ev += e
        hits += h
        if bad:
            return ev, seen, hits, bad
    return ev, seen, hits, None


# ----------------------------------------------------------------------------------------------
# sweeps and modes
# ----------------------------------------------------------------------------------------------
def _sweep(seed, n, known):
    rnd = random.Random(seed)
    seen, hits = set(), 0
    for k in range(n):
        tree = T.random_tree(rnd, max_nodes=rnd.randint(2, 9), depth=rnd.randint(0, 3))
        seen.add(repr(tree))
        ok, h, bad = _case(tree, known)
        hits += h
        if not ok:
            return k + 1, len(seen), hits, bad
    return n, len(seen), hits, None


SIZES = {
    # original random trees, core fan-out values, core stride, random arch trees, history core stride, random histories
    "replay": dict(n=60, values=(1, 2, 3), stride=9, arch=60, hstride=8, hist=60),
    "quick": dict(n=150, values=(1, 2, 3), stride=1, arch=250, hstride=2, hist=250),
    "thorough": dict(n=1500, values=(1, 2, 3, 5), stride=1, arch=4000, hstride=1, hist=4000),
}


def _full(seed, size, known, only=None):
    """`only` (testing aid): a list of part names out of original, core, arch, history_core, histories"""
    z = SIZES[size]
    ev, d, hits, bad = _sweep(seed, z["n"], known) if not only or "original" in only else (0, 0, 0, None)
    if bad:
        return ev, d, hits, bad
    rnd = random.Random(seed * 7919 + 17)
    for pname, part in (
        ("core", lambda: _core(z["values"], known, z["stride"], seed)),
        ("arch", lambda: _random_arch(rnd, z["arch"], known)),
        ("history_core", lambda: _history_core(known, z["hstride"], seed)),
        ("histories", lambda: _random_histories(rnd, z["hist"], known)),
    ):
        if only and pname not in only:
            continue
        e, s, h, bad = part()
        ev, d, hits = ev + e, d + len(s), hits + h
        if bad:
            return ev, d, hits, bad
    return ev, d, hits, None


def replay(p):
    ev, d, hits, bad = _full(p.get("seed", 0), "replay", p.get("known"), p.get("only"))
    if bad:
        return {"failed": True, "input": bad, "observed": bad["observed"], "required": bad["required"]}
    return {"failed": False, "tried": ev}


BOUND = ("architecture trees of depth <= 4 with <= ~16 named nodes (Memory / Toll / Network / Compute / Container leaves inside nested "
         "Hierarchical / Fork / Array; Arrays hold 1-3 leaves), fan-outs 1-6 in one or two spatial dimensions, area_scale / "
         "leak_power_scale 1-3 and n_parallel_instances 1-2; enumerated core: 9 structure templates x every assignment of the "
         "listed fan-out values to 4 slots; call histories of 2-3 calls with 8 flag subsets, at most one fan-out edit before each "
         "later call, receiver = the original or the previously returned Spec (enumerated: 2 trees x 7 x 8 flag pairs x edits x receiver)")
RULE = ("trees built with the real API; Spec.calculate_component_costs is called and, for every component (Memory / Toll / Network / "
        "Compute wherever it sits), Arch.per_component_total_area / per_component_total_leak_power (which must list exactly the "
        "components of the tree), the component's own total_area / total_leak_power and Arch.total_area / total_leak_power (= the sums) "
        "are compared with (area x area_scale x n_parallel_instances) x #instances, #instances computed by structural recursion in the "
        "oracle: own fan-out x product of the fan-outs of the non-Compute named nodes above it on its path. A Hierarchical is transparent; "
        "the contents of a Fork are below what precedes the Fork and not above what follows it; an Array is a Spatialable node on the "
        "path, so its fan-out multiplies every component inside it and everything after it, while the nodes inside it are independent "
        "(not above each other, not above what follows the Array) -- this is the Spatialable.spatial docstring ('spatial fanouts "
        "specified at this level also apply to lower-level Leaf nodes') and the iterate_hierarchically comment ('Array -> each node is "
        "independent'), and the unchanged behaviour. Call histories: after 2-3 calls with flag subsets (receiver = original or returned "
        "Spec, a fan-out edited on the receiver between calls) the totals of every quantity the LAST call asked for must match the "
        "receiver's CURRENT tree; a quantity asked for only by an earlier call of the chain must still hold that call's totals. "
        "Inside the open known class F4 only the own-fan-out factor may be missing.")


def crosscheck(p):
    size = "quick" if p.get("n", 200) <= 200 else "thorough"
    ev, d, hits, bad = _full(p.get("seed", 0), size, p.get("known"), p.get("only"))
    if bad:
        return {"failed": True, "input": bad, "observed": bad["observed"], "required": bad["required"]}
    rnd = random.Random(p.get("seed", 0))
    samples = [repr(_rand_tree(rnd, max_nodes=5, depth=1))[:160] for _ in range(3)] + [repr(make(2, 3, 1, 2))[:160] for make in list(_templates().values())[:3]]
    return {"failed": False, "evaluations": ev, "distinct": d, "known_finding_hits": hits, "bound": BOUND, "rule": RULE, "exhaustive": True, "samples": samples}


def bounded(p):
    return crosscheck({"seed": p.get("seed", 0), "n": 200 if p.get("tier", "quick") == "quick" else 2000, "known": p.get("known")})
