"""Executable oracle for C26: instance counts over random architecture trees (BOUNDED part of C26:
this is what stands in for ArchNode.iterate_hierarchically, which is not under proof)."""
import random
from oracles import archtrees as T
from oracles.common import in_known

CLASSES = {"F4": lambda c: c["own_fanout"] != 1}


def _case(tree, known):
    from accelforge.frontend.spec import Spec
    from accelforge.frontend.arch import Component

    arch = T.build(tree)
    spec = Spec(arch=arch).calculate_component_costs()
    hits = 0
    for (kind, name, fan, area) in T.preorder(tree):
        if kind == "Container":
            continue
        inst = fan
        for (k2, n2, f2, a2) in T.above(tree, name):
            if k2 != "Compute":  # sibling compute branches are not ancestors
                inst *= f2
        c = spec.arch.find(name)
        want = (area * inst, (area / 2) * inst)
        got = (c.total_area, c.total_leak_power)
        if tuple(float(x) for x in got) != tuple(float(x) for x in want):
            if in_known({"own_fanout": fan}, known, CLASSES):
                # inside the known class only the own-fan-out factor may be missing
                if tuple(float(x) * fan for x in got) == tuple(float(x) for x in want):
                    hits += 1
                    continue
            return False, hits, {"tree": repr(tree), "component": name, "observed": [float(x) for x in got], "required": list(want), "instances": inst}
    return True, hits, None


WITNESS = [("Memory", "Main", 1, 1), ("Container", "PE", 4, 1), ("Memory", "Buf", 2, 10), ("Compute", "MAC", 1, 1)]


def witness(p):
    ok, hits, bad = _case(WITNESS, [])
    return {"failed": not ok, "observed": bad and f"{bad['component']}: total_area,total_leak_power = {bad['observed']} required {bad['required']}"}


def _sweep(seed, n, known):
    rnd = random.Random(seed)
    seen, hits = set(), 0
    for k in range(n):
        tree = T.random_tree(rnd, max_nodes=rnd.randint(2, 9), depth=rnd.randint(0, 3))
        seen.add(repr(tree))
        ok, h, bad = _case(tree, known)
        hits += h
        if not ok:
            return k + 1, len(seen), hits, bad
    return n, len(seen), hits, None


def replay(p):
    ev, d, hits, bad = _sweep(p.get("seed", 0), 150, p.get("known"))
    if bad:
        return {"failed": True, "input": bad, "observed": bad["observed"], "required": bad["required"]}
    return {"failed": False, "tried": ev}


def crosscheck(p):
    n = 150 if p.get("n", 200) <= 200 else 1500
    ev, d, hits, bad = _sweep(p.get("seed", 0), n, p.get("known"))
    if bad:
        return {"failed": True, "input": bad, "observed": bad["observed"], "required": bad["required"]}
    return {"failed": False, "evaluations": ev, "distinct": d, "known_finding_hits": hits, "bound": "architecture trees of depth <= 4 with <= ~12 leaves (Memory / Container / Compute inside nested Hierarchical / Fork), fan-outs 1-4",
            "rule": "random architecture trees built with the real API; for every component the real total_area / total_leak_power after Spec.calculate_component_costs vs area x (own fan-out) x product of the fan-outs of the non-Compute nodes above it on its path (earlier in preorder, not inside a Fork that does not contain it)"}
