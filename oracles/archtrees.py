"""Random / exhaustive architecture trees built with the real accelforge API (shared by C25, C26)."""
import itertools, random

ACT2 = [{"name": "read", "energy": 1, "throughput": 1}, {"name": "write", "energy": 1, "throughput": 1}]


def build(tree):
    """tree: nested lists; leaf = (kind, name, fanout, area).  Returns an accelforge Arch."""
    from accelforge.frontend.arch import Arch, Hierarchical, Fork, Memory, Compute, Container, Toll

    def mk(n):
        if isinstance(n, tuple) and n[0] in ("H", "F"):
            cls = Hierarchical if n[0] == "H" else Fork
            return cls(nodes=[mk(c) for c in n[1]])
        kind, name, fan, area = n
        sp = [{"name": "X", "fanout": fan}] if fan > 1 else []
        if kind == "Memory":
            return Memory(name=name, size=1000, actions=ACT2, leak_power=area / 2, area=area, spatial=sp)
        if kind == "Toll":
            return Toll(name=name, actions=[{"name": "read", "energy": 1, "throughput": 1}], leak_power=area / 2, area=area, spatial=sp, direction="down", tensors={"keep": "All"})
        if kind == "Container":
            return Container(name=name, spatial=sp)
        if kind == "Compute":
            return Compute(name=name, actions=[{"name": "compute", "energy": 1, "throughput": 1}], leak_power=area / 2, area=area, spatial=sp)
        raise ValueError(kind)

    return Arch(nodes=[mk(c) for c in tree])


def random_tree(rnd, max_nodes=8, depth=3, kinds=("Memory", "Container", "Compute", "Memory")):
    counter = itertools.count()

    def leaf(kind=None):
        kind = kind or rnd.choice(kinds)
        return (kind, f"{kind[0]}{next(counter)}", rnd.choice([1, 1, 2, 3, 4]), rnd.choice([1, 2, 5, 10]))

    def level(d, budget):
        out = []
        n = rnd.randint(1, max(1, min(4, budget)))
        for _ in range(n):
            r = rnd.random()
            if d > 0 and r < 0.25 and budget > 2:
                sub = level(d - 1, budget // 2)
                out.append((rnd.choice(["H", "F", "F"]), sub))
            else:
                out.append(leaf())
        return out

    t = level(depth, max_nodes)
    t.append(leaf("Compute"))  # the main path ends in a compute
    return t


def leaves(tree, path=()):
    """(leaf, chain of enclosing branch kinds with child index) in preorder"""
    for i, n in enumerate(tree):
        if isinstance(n, tuple) and n[0] in ("H", "F"):
            yield from leaves(n[1], path + ((n[0], id(n)),))
        else:
            yield n, path


def preorder(tree):
    return [l for l, _ in leaves(tree)]


def forks_of(tree):
    return {name: {p[1] for p in path if p[0] == "F"} for (kind, name, fan, area), path in leaves(tree)}


def above(tree, x_name):
    """Named leaves above leaf x on its path: earlier in preorder and not inside a Fork that does
    not contain x (a Fork branches off the main path); Hierarchicals are transparent."""
    fk = forks_of(tree)
    order = [l[1] for l in preorder(tree)]
    xi = order.index(x_name)
    return [l for l in preorder(tree) if order.index(l[1]) < xi and fk[l[1]] <= fk[x_name]]
