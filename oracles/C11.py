"""Bounded run-time contract check for C11: the Pareto filter keeps exactly the non-dominated rows.

The REAL functions accelforge.mapper.FFM._pareto_df.fast_pareto.fast_pareto_mask and
accelforge.mapper.FFM._pareto_df.pareto.makepareto_numpy are called on generated matrices and their
boolean mask is compared with a brute-force statement of the property written here (no function
of the repository is used to compute a required value; prime exponents come from trial division).

Required mask for a matrix D (n x c, one numeric dtype) and goals g:
  * every `*_per_prime_factor` column is replaced by one column per prime p holding the exponent of p
    in the entry; `max` columns (and the exponent columns of max_per_prime_factor) are negated; the
    result is the matrix E of optimisation columns.  G(i) = the tuple of `diff` entries of row i.
  * dom(j, i)  <=>  G(j) = G(i)  and  E[j,k] <= E[i,k] for all k  and  E[j,k] < E[i,k] for some k,
    compared EXACTLY on the values of the input (no rounding of any kind).
  * keep(i)    <=>  no j with dom(j, i).
  * mask[i]    <=>  keep(i) and no j < i with D[j,:] = D[i,:]     (distinct=False: mask[i] <=> keep(i)).

Assumptions of the family (stated, not checked): no NaN, no -0.0 (the float32 pair-packing of diff
columns in _encode_groups distinguishes 0.0 from -0.0; DESIGN lists this as a precondition), integer
entries of magnitude <= 2**53, `*_per_prime_factor` columns hold integers >= 1, dtypes float32 / float64 /
int64 / int32.

Sub-family `_bigprime` (prime-factor goals with large exponents / large primes / many primes): see `_bound`.
"""
import itertools, json, math, os, random, subprocess, sys, tempfile, warnings
import numpy as np

INF = float("inf")
SIMPLE = ("min", "max", "diff")
PPF = ("min_per_prime_factor", "max_per_prime_factor")
DTYPES = ("float32", "float64", "int64", "int32")


# ------------------------------------------------------------------ independent statement

_FACTOR_MEMO = {}


def _factor(x):
    """Prime exponents of the integer x >= 1 by trial division (integer arithmetic only)."""
    x0 = x
    if x0 in _FACTOR_MEMO:
        return _FACTOR_MEMO[x0]
    f, p = {}, 2
    while p * p <= x:
        while x % p == 0:
            f[p] = f.get(p, 0) + 1
            x //= p
        p += 1 if p == 2 else 2
    if x > 1:
        f[x] = f.get(x, 0) + 1
    if len(_FACTOR_MEMO) < 200000:
        _FACTOR_MEMO[x0] = f
    return f


class _Ctx:
    """One input (entry point, dtype, goals, rows) with everything the statement needs, computed lazily."""

    def __init__(self, entry, dtype, goals, rows, distinct=True):
        self.entry, self.dtype, self.goals, self.distinct = entry, dtype, list(goals), distinct
        d = len(self.goals)
        self.arr = np.array(rows, dtype=dtype).reshape(len(rows), d)
        self.n = self.arr.shape[0]
        self._cache = {}

    def describe(self):
        def js(v):
            if isinstance(v, float) and not math.isfinite(v):
                return "inf" if v > 0 else "-inf"
            return v
        return {"entry": {"fast": "fast_pareto.fast_pareto_mask", "numpy": "pareto.makepareto_numpy"}[self.entry],
                "dtype": self.dtype, "goals": self.goals, "distinct": self.distinct,
                "rows": [[js(v) for v in r] for r in self.arr.tolist()]}

    def key(self):
        return (self.entry, self.dtype, tuple(self.goals), self.distinct, self.arr.tobytes(), self.n)

    # optimisation columns, sign-normalised, as float64 (exact for the stated family); narrow=True gives
    # the values after rounding min/max columns to float32 (what the unchanged code compares: finding F3)
    def E(self, narrow):
        k = ("E", narrow)
        if k not in self._cache:
            cols, meta = [], []
            for c, g in enumerate(self.goals):
                if g == "diff":
                    continue
                col = self.arr[:, c]
                if g in ("min", "max"):
                    v = col.astype(np.float64)
                    if narrow:
                        with np.errstate(over="ignore"):
                            v = v.astype(np.float32).astype(np.float64)
                    cols.append(v if g == "min" else -v)
                    meta.append(("simple", g))
                else:
                    facs = [_factor(int(x)) for x in col.tolist()]
                    primes = sorted(set().union(*[set(f) for f in facs])) if facs else []
                    for p in primes:
                        v = np.array([f.get(p, 0) for f in facs], dtype=np.float64)
                        cols.append(v if g == "min_per_prime_factor" else -v)
                        meta.append(("ppf", g[:3]))
            self.Emeta = meta
            self._cache[k] = np.column_stack(cols) if cols else np.zeros((self.n, 0))
        return self._cache[k]

    def G(self):
        if "G" not in self._cache:
            self._cache["G"] = self.arr[:, [c for c, g in enumerate(self.goals) if g == "diff"]]
        return self._cache["G"]

    def same_group(self, i):
        G = self.G()
        if G.shape[1] == 0:
            return np.ones(self.n, dtype=bool)
        return (G == G[i]).all(axis=1)

    def dominators(self, i, narrow):
        k = ("dom", narrow, i)
        if k not in self._cache:
            E = self.E(narrow)
            if E.shape[1] == 0:
                m = np.zeros(self.n, dtype=bool)
            else:
                m = self.same_group(i) & (E <= E[i]).all(axis=1) & (E < E[i]).any(axis=1)
            self._cache[k] = m
        return self._cache[k]

    def keep(self, narrow):
        k = ("keep", narrow)
        if k not in self._cache:
            self._cache[k] = np.array([not self.dominators(i, narrow).any() for i in range(self.n)], dtype=bool)
        return self._cache[k]

    def first_of_duplicates(self):
        if "first" not in self._cache:
            a = self.arr
            self._cache["first"] = np.array([not (a[:i] == a[i]).all(axis=1).any() for i in range(self.n)], dtype=bool)
        return self._cache["first"]

    def required(self, narrow=False):
        m = self.keep(narrow)
        return (m & self.first_of_duplicates()) if self.distinct else m.copy()

    # what _sfs_bnl_core sees for the group of row i: the columns of E32 that vary inside the group and the
    # float32 row sums over them
    def group_view(self, i):
        k = ("gv", tuple(self.G()[i].tolist()))
        if k not in self._cache:
            E = self.E(True)
            rows = np.where(self.same_group(i))[0]
            sub = E[rows]
            varying = [c for c in range(E.shape[1]) if not (sub[:, c] == sub[0, c]).all()]
            with np.errstate(invalid="ignore", over="ignore"):
                s = sub[:, varying].sum(axis=1).astype(np.float32).astype(np.float64) if varying else np.zeros(len(rows))
                ab = np.abs(sub[:, varying]).sum(axis=1) if varying else np.zeros(len(rows))
            self._cache[k] = (rows, varying, dict(zip(rows.tolist(), s.tolist())))
            self._cache[("abs",) + k] = dict(zip(rows.tolist(), ab.tolist()))
        return self._cache[k]

    def abs_sums(self, i):
        self.group_view(i)
        return self._cache[("abs", "gv", tuple(self.G()[i].tolist()))]


def _order_unsafe(sj, si):
    """The sum-sorted scan cannot be relied on to visit j before i: sums not finite, or equal to float32 resolution."""
    if not (math.isfinite(sj) and math.isfinite(si)):
        return True
    return abs(sj - si) <= 2.0 ** -22 * max(abs(sj), abs(si))


# ------------------------------------------------------------------ known input classes (findings)

def _in_F1(cx):
    # a diff group with exactly two varying optimisation columns holds +inf (after sign normalisation and
    # float32 rounding) in one of them: the 2-D sweep starts from the sentinel best_c1 = 1e308
    if cx.n < 2:
        return False
    E, seen = cx.E(True), set()
    for i in range(cx.n):
        rows, varying, _ = cx.group_view(i)
        if rows[0] in seen:
            continue
        seen.add(rows[0])
        if len(rows) >= 2 and len(varying) == 2 and (E[np.ix_(rows, varying)] == INF).any():
            return True
    return False


def _F1_row(cx, i):
    rows, varying, _ = cx.group_view(i)
    return len(varying) == 2 and bool((cx.E(True)[i, varying] == INF).any())


def _F2_row(cx, i, narrow=True):
    # row i is dominated, its group has >= 3 varying optimisation columns, and EVERY row dominating it has a
    # float32 row sum that ties with (or is not comparable to) the sum of row i
    dom = cx.dominators(i, narrow)
    if not dom.any():
        return False
    rows, varying, s = cx.group_view(i)
    if len(varying) < 3:
        return False
    return all(_order_unsafe(s[j], s[i]) for j in np.where(dom)[0].tolist())


def _in_F2(cx):
    return any(_F2_row(cx, i) for i in range(cx.n))


def _cancel_unsafe(sj, si, aj, ai, dv):
    """The two row sums differ by no more than the rounding error that the accumulation (float64 accumulator, dv terms,
    ANY association order: the core is compiled with fastmath=True) can make on terms of these magnitudes."""
    if not (math.isfinite(sj) and math.isfinite(si) and math.isfinite(aj) and math.isfinite(ai)):
        return True
    return abs(sj - si) <= dv * 2.0 ** -52 * (aj + ai) or _order_unsafe(sj, si)


def _cancel_row(cx, i, narrow=True):
    # row i is dominated, its group has >= 3 varying optimisation columns, and for EVERY row j dominating it the
    # difference of the two row sums is within the rounding error of the sums (large entries of opposite sign cancel)
    dom = cx.dominators(i, narrow)
    if not dom.any():
        return False
    rows, varying, s = cx.group_view(i)
    if len(varying) < 3:
        return False
    ab = cx.abs_sums(i)
    return all(_cancel_unsafe(s[j], s[i], ab[j], ab[i], len(varying)) for j in np.where(dom)[0].tolist())


def _in_cancel(cx):
    return any(_cancel_row(cx, i) for i in range(cx.n))


def _in_F3(cx):
    # two rows of one diff group differ in a min/max column but are equal after rounding to float32
    if cx.dtype == "float32" or cx.n < 2:
        return False
    a, b = cx.E(False), cx.E(True)
    if a.shape[1] == 0:
        return False
    for i in range(cx.n):
        g = cx.same_group(i)
        if ((a[g] != a[i]) & (b[g] == b[i])).any():
            return True
    return False


def _in_neg(cx):
    # at the call of fast_pareto_mask every non-constant optimisation column is a plain min/max column, there are
    # exactly four of them and at least one is a max column: line `np.negative(eff_data[:, j], out=eff_data[:, j])`
    # (in-place negation of a column of a C-contiguous n x 4 float32 matrix) corrupts the column under the numpy of /venv
    if cx.n < 2:
        return False
    E = cx.E(False)
    eff = [m for c, m in enumerate(cx.Emeta) if not (E[:, c] == E[0, c]).all()]
    if len(eff) != 4:
        return False
    if cx.entry == "fast":
        return all(kind == "simple" for kind, g in eff) and any(g == "max" for kind, g in eff)
    return any(kind == "ppf" and g == "max" for kind, g in eff)   # makepareto_numpy negates plain max columns itself


def _in_empty_numpy(cx):
    return cx.entry == "numpy" and cx.n == 0


CLASSES = {"F1": _in_F1, "F2": _in_F2, "C11-sum-cancellation": _in_cancel, "F3": _in_F3, "C11-empty-numpy": _in_empty_numpy, "C11-neg-inplace": _in_neg}

CLASS_TEXT = {
    "F1": "a diff group with exactly two varying optimisation columns in which an entry is +inf after sign normalisation / float32 rounding "
          "(2-D sweep sentinel best_c1 = 1e308: the first run is never marked when its smallest second coordinate is +inf)",
    "F2": "a dominated row in a group with >= 3 varying optimisation columns, all of whose dominators have a float32 row sum equal to its own "
          "(or a non-finite one): the sum-sorted scan visits the dominated row first and keeps it",
    "C11-sum-cancellation": "a dominated row in a group with >= 3 varying optimisation columns whose row sum differs from the sum of every one of its "
                            "dominators by no more than the rounding error of the accumulation (dv * 2^-52 * sum of magnitudes; entries of opposite "
                            "sign around 1e30 cancel, the core is compiled with fastmath=True): the sum-sorted scan visits it first and keeps it",
    "F3": "non-float32 input in which two rows of a group differ in a min/max column but coincide after rounding to float32 "
          "(NUMPY_FLOAT_TYPE is float32; data are narrowed before comparison)",
    "C11-empty-numpy": "makepareto_numpy on a matrix with 0 rows (IndexError from n[0] = True)",
    "C11-neg-inplace": "exactly four non-constant optimisation columns reach fast_pareto_mask, all of them plain min/max columns and at least one max "
                       "(through makepareto_numpy: the exponent columns of a max_per_prime_factor column): the in-place negation of a column of the "
                       "n x 4 float32 matrix gives wrong values under the numpy of /venv, the mask is computed from corrupted data (comparison skipped)",
}

WITNESS = {
    "F1": [("fast", "float32", ["min", "min"], [[0, INF], [1, 5]]), ("numpy", "float64", ["min", "min"], [[0, INF], [1, 5]])],
    "F2": [("fast", "float32", ["min", "min", "min"], [[1e9, 2, 1], [1e9, 1, 1], [0, 5, 5]]),
           ("fast", "float32", ["min", "min", "min"], [[INF, 2, 1], [INF, 1, 1], [0, 5, 5]])],
    "C11-sum-cancellation": [("fast", "float32", ["min", "max", "min", "min"],
                              [[3e9, 3e9, 1000000128.0, 36.0], [1.0000000150474662e+30, 1.0000000150474662e+30, 3e9, 3.0],
                               [1.0000000150474662e+30, 1.0000000150474662e+30, 0.0, 3.0]])],
    "F3": [("fast", "float64", ["min", "min"], [[1.0, 2.0], [1.0000000001, 1.0]]),
           ("fast", "int64", ["min", "min"], [[16777217, 2], [16777216, 3]])],
    "C11-empty-numpy": [("numpy", "float64", ["min", "min"], [])],
    "C11-neg-inplace": [("fast", "float32", ["max", "max", "max", "max"], [[1, 1, 1, 1], [2, 2, 2, 2]]),
                        ("fast", "float64", ["min", "max", "min", "min"], [[1, 5, 1, 2], [2, 7, 2, 3], [1, 7, 1, 1]]),
                        ("numpy", "int64", ["max_per_prime_factor", "max_per_prime_factor"], [[1, 1], [6, 6]])],
}


# ------------------------------------------------------------------ calling the real code

_LAST_FD = None


def _note_last(cx):
    """Leaves the input about to be evaluated in the file named by $C11_LAST (read by the parent if this process dies)."""
    global _LAST_FD
    path = os.environ.get("C11_LAST")
    if not path:
        return
    if _LAST_FD is None:
        _LAST_FD = os.open(path, os.O_WRONLY | os.O_CREAT, 0o600)
    b = json.dumps(cx.describe()).encode()
    os.ftruncate(_LAST_FD, 0)
    os.pwrite(_LAST_FD, b, 0)


def _observe(cx):
    from accelforge.mapper.FFM._pareto_df.fast_pareto import fast_pareto_mask
    from accelforge.mapper.FFM._pareto_df.pareto import makepareto_numpy

    a = cx.arr.copy()
    _note_last(cx)
    warnings.simplefilter("ignore")  # float32 overflow casts etc. of the real code
    try:
        if cx.entry == "fast":
            m = fast_pareto_mask(a, list(cx.goals)) if cx.distinct else fast_pareto_mask(a, list(cx.goals), distinct=False)
        else:
            m = makepareto_numpy(a, list(cx.goals))
    except Exception as ex:  # the property has no error outcome
        return None, f"{type(ex).__name__}: {str(ex)[:160]}"
    finally:
        warnings.resetwarnings()
    if not np.array_equal(a, cx.arr):
        return None, "the input matrix was modified in place"
    m = np.asarray(m)
    if m.dtype != np.bool_ or m.shape != (cx.n,):
        return None, f"result is not a boolean mask of length {cx.n}: dtype {m.dtype}, shape {m.shape}"
    return m, None


def _check(cx, known_ids):
    """None if the real mask is the required one; ("known", class ids) if it deviates only as an open known
    class allows; otherwise a failure record."""
    obs, err = _observe(cx)
    req = cx.required(False)
    if err is None and np.array_equal(obs, req):
        return None
    inside = [cid for cid in sorted(known_ids) if cid in CLASSES and CLASSES[cid](cx)]
    if err is not None:
        if "C11-empty-numpy" in inside and err.startswith("IndexError"):
            return ("known", ["C11-empty-numpy"])
        rec = {"failed": True, "input": cx.describe(), "observed": err, "required": req.tolist()}
        if _in_empty_numpy(cx):
            rec["note"] = "input lies in the class of recorded finding C11-empty-numpy (not listed as open in the payload)"
        return rec
    used = []
    if "C11-neg-inplace" in inside:
        return ("known", ["C11-neg-inplace"])
    if inside:
        narrow = "F3" in inside
        req2 = cx.required(narrow)
        ok = True
        for i in np.where(obs != req2)[0].tolist():
            if req2[i] and "F1" in inside and _F1_row(cx, i):          # a non-dominated row with +inf dropped by the 2-D sweep
                used.append("F1")
            elif obs[i] and "F2" in inside and (not cx.distinct or cx.first_of_duplicates()[i]) and _F2_row(cx, i, narrow):
                used.append("F2")                                        # a dominated row kept because of tied sums
            elif obs[i] and "C11-sum-cancellation" in inside and (not cx.distinct or cx.first_of_duplicates()[i]) and _cancel_row(cx, i, narrow):
                used.append("C11-sum-cancellation")                      # ... because the sums cancel to within rounding error
            else:
                ok = False
                break
        if ok:
            if narrow and not np.array_equal(req, req2):
                used.append("F3")
            if used:
                return ("known", sorted(set(used)))
    rec = {"failed": True, "input": cx.describe(), "observed": obs.tolist(), "required": req.tolist()}
    cls = [cid for cid in CLASSES if CLASSES[cid](cx)]
    if cls:
        rec["note"] = "input lies in the class of recorded finding(s) " + ", ".join(cls) + (
            " (not listed as open in the payload)" if not set(cls) <= set(known_ids) else " but deviates in a way these findings do not explain")
    return rec


def _shrink(cx, known_ids, budget=300):
    """Greedy removal of rows, then columns, keeping the input failing (smaller report)."""
    best = cx
    rows, goals = cx.arr.tolist(), list(cx.goals)

    def fails(rows, goals):
        nonlocal budget
        budget -= 1
        c = _Ctx(cx.entry, cx.dtype, goals, rows, cx.distinct)
        r = _check(c, known_ids)
        return c if isinstance(r, dict) else None

    changed = True
    while changed and budget > 0:
        changed = False
        for i in range(len(rows) - 1, -1, -1):
            if budget <= 0:
                break
            c = fails(rows[:i] + rows[i + 1:], goals)
            if c is not None:
                rows, best, changed = rows[:i] + rows[i + 1:], c, True
        for k in range(len(goals) - 1, -1, -1):
            if budget <= 0 or len(goals) <= 1:
                break
            r2, g2 = [r[:k] + r[k + 1:] for r in rows], goals[:k] + goals[k + 1:]
            c = fails(r2, g2)
            if c is not None:
                rows, goals, best, changed = r2, g2, c, True
    return best


# ------------------------------------------------------------------ the family

GUIDANCE = [
    # (dtype, goals, rows) - each is run through both entry points
    ("float32", ["min", "min"], [[0, INF], [1, 5]]),
    ("float64", ["min", "min"], [[0, INF], [1, 5]]),
    ("float32", ["min", "max"], [[0, -INF], [1, 5]]),
    ("float32", ["min", "min"], [[INF, INF], [INF, INF]]),
    ("float32", ["min", "min"], [[0, INF], [0, INF], [INF, 0]]),
    ("float32", ["min", "min", "min"], [[1e9, 2, 1], [1e9, 1, 1], [0, 5, 5]]),
    ("float64", ["min", "min", "min"], [[1e9, 2, 1], [1e9, 1, 1], [0, 5, 5]]),
    ("float32", ["min", "min", "min"], [[1e9, 1, 1], [1e9, 2, 1], [0, 5, 5]]),
    ("float32", ["min", "min", "min"], [[INF, 2, 1], [INF, 1, 1], [0, 5, 5]]),
    ("float32", ["min", "max", "min"], [[INF, 5, 1], [INF, INF, 1], [0, 5, 5]]),
    ("float32", ["max", "max", "max"], [[-1e9, -2, -1], [-1e9, -1, -1], [0, -5, -5]]),
    ("float64", ["min", "min"], [[1.0, 2.0], [1.0000000001, 1.0]]),
    ("float64", ["max", "min"], [[1.0, 1.0], [1.0000000001, 2.0]]),
    ("float64", ["min", "min"], [[1e300, 1.0], [1e301, 0.0], [1e39, 2.0]]),
    ("int64", ["min", "min"], [[16777217, 2], [16777216, 3]]),
    ("int32", ["min", "min"], [[16777217, 2], [16777216, 3]]),
    ("int64", ["min", "min"], [[16777217, 3], [16777216, 3]]),
    ("int64", ["diff", "min"], [[16777217, 3], [16777216, 2]]),
    ("float64", ["diff", "min"], [[1.0, 3.0], [1.0000000001, 2.0]]),
    ("float32", ["max", "max", "max", "max"], [[1, 1, 1, 1], [2, 2, 2, 2]]),
    ("float64", ["min", "max", "min", "min"], [[1, 5, 1, 2], [2, 7, 2, 3], [1, 7, 1, 1]]),
    ("int64", ["max", "min", "diff", "min", "max"], [[1, 5, 0, 1, 2], [2, 7, 0, 2, 3], [1, 7, 0, 1, 1], [3, 1, 1, 1, 1]]),
    ("int64", ["max_per_prime_factor", "max_per_prime_factor"], [[1, 1], [6, 6]]),
    ("float32", ["max", "max", "max", "max", "max"], [[1, 1, 1, 1, 1], [2, 2, 2, 2, 2]]),
    ("float32", ["max", "max", "max", "max", "min"], [[1, 1, 1, 1, 7], [2, 2, 2, 2, 7], [0, 3, 0, 0, 7]]),
    ("float64", ["min", "min"], []),
    ("float32", ["diff", "min", "max"], []),
    ("float64", ["min"], [[3.0]]),
    ("float64", ["min", "min"], [[1, 2], [1, 2]]),
    ("float64", ["diff", "diff"], [[1, 2], [1, 2]]),
    ("float32", ["diff", "diff", "min", "min"], [[0, 1, 1, 2], [0, 1, 1, 1], [1, 0, 0, 0]]),
    ("float32", ["diff", "diff", "diff", "min", "min"], [[0, 1, 2, 1, 2], [0, 1, 2, 1, 1], [0, 1, 3, 0, 0], [0, 1, 2, 2, 0]]),
    ("int64", ["min_per_prime_factor", "min"], [[12, 1], [6, 1], [4, 2]]),
    ("float64", ["max_per_prime_factor", "min"], [[12, 1], [6, 1], [4, 2]]),
    ("int64", ["min_per_prime_factor"], [[1], [1], [1]]),
    ("int64", ["min_per_prime_factor"], [[6], [4], [9], [1], [12]]),
    ("int64", ["max_per_prime_factor", "diff"], [[6, 0], [4, 0], [9, 1], [1, 1], [12, 0], [36, 1]]),
    ("float32", ["min", "min", "min"], [[1, 1, 1], [1, 1, 1], [1, 1, 1]]),
    ("float32", ["min", "min", "min"], [[1, 5, 1], [1, 4, 1], [1, 4, 1]]),
]

_V3 = (0, 1, 2)


def _core(tier):
    """The enumerated core: (dtype index, goals, rows) for EVERY matrix / goal vector of the stated shapes."""
    thorough = tier == "thorough"
    # d = 1: n <= 4 (5), values {0,1,2}
    for n in range(0, 6 if thorough else 5):
        for vals in itertools.product(_V3, repeat=n):
            for g in SIMPLE:
                yield [g], [[v] for v in vals]
    # d = 2: n <= 3 (4), values {0,1,2}, goals {min,max,diff}^2
    for n in range(0, 5 if thorough else 4):
        for vals in itertools.product(_V3, repeat=2 * n):
            rows = [list(vals[2 * i:2 * i + 2]) for i in range(n)]
            for g in itertools.product(SIMPLE, repeat=2):
                yield list(g), rows
    # d = 3: n <= 3 (4), values {0,1}; thorough also n = 2 over {0,1,2}
    for n in range(0, 5 if thorough else 4):
        for vals in itertools.product((0, 1), repeat=3 * n):
            rows = [list(vals[3 * i:3 * i + 3]) for i in range(n)]
            for g in itertools.product(SIMPLE, repeat=3):
                yield list(g), rows
    if thorough:
        for vals in itertools.product(_V3, repeat=6):
            rows = [list(vals[0:3]), list(vals[3:6])]
            for g in itertools.product(SIMPLE, repeat=3):
                yield list(g), rows
    # infinite entries: d = 2 over {0,1,inf}, d = 3 over {0,inf}, n <= 3, goals {min,max}^d  (float dtypes only)
    for n in range(2, 4):
        for vals in itertools.product((0, 1, INF), repeat=2 * n):
            rows = [list(vals[2 * i:2 * i + 2]) for i in range(n)]
            for g in itertools.product(("min", "max"), repeat=2):
                yield list(g), [[(-v if gg == "max" and v == INF else v) for v, gg in zip(r, g)] for r in rows]
        for vals in itertools.product((0, INF), repeat=3 * n):
            rows = [list(vals[3 * i:3 * i + 3]) for i in range(n)]
            for g in itertools.product(("min", "max"), repeat=3):
                yield list(g), [[(-v if gg == "max" and v == INF else v) for v, gg in zip(r, g)] for r in rows]
    # prime-factor goals: d = 1, n <= 3 over {1,2,3,4,6,12}; d = 2, n = 2 over {1,2,4,6} with a second column of any goal
    for n in range(0, 4):
        for vals in itertools.product((1, 2, 3, 4, 6, 12), repeat=n):
            for g in PPF:
                yield [g], [[v] for v in vals]
    for vals in itertools.product((1, 2, 4, 6), repeat=4):
        rows = [list(vals[0:2]), list(vals[2:4])]
        for g0 in PPF:
            for g1 in SIMPLE + PPF:
                yield [g0, g1], rows


_POOLS = {
    "tiny": lambda r: r.randint(0, 2),
    "small": lambda r: r.randint(0, 9),
    "real": lambda r: round(r.uniform(0, 10), r.choice((0, 1, 3))),
    "mixed": lambda r: r.choice((0, 1e-3, 1, 2, 3, 1e3, 1e9, 1e9 + 64, 1e9 + 128, 3e9, 1e30, 3e38)),
    "big": lambda r: r.choice((1e9, 1e9, 1e9 + 64, 2e9, 1, 2, 3)),
    "inf": lambda r: r.choice((INF, INF, 0, 1, 2, 5)),
    "near64": lambda r: r.choice((1.0, 1.0 + 1e-10, 1.0 - 1e-12, 2.0, 1e300, 1e301, 1e39, 0.5)),
    "nearint": lambda r: r.choice((16777216, 16777217, 16777218, 16777215, 3, 2 ** 31 - 1, 2 ** 31 - 2)),
}
_PRIMEVALS = (1, 2, 3, 4, 5, 6, 7, 8, 9, 12, 16, 18, 24, 30, 36, 49, 64, 210, 1024, 1155, 9973)


def _rand_case(rnd, tier):
    dtype = rnd.choice(("float32", "float32", "float64", "float64", "int64", "int32"))
    is_int = dtype.startswith("int")
    d = rnd.choice((1, 2, 2, 3, 3, 3, 4, 4, 5, 6, 8))
    shape = rnd.random()
    if shape < 0.55:
        n = rnd.randint(0, 12)
    elif shape < 0.9:
        n = rnd.randint(13, 70)
    else:
        n = rnd.randint(71, 300 if tier == "quick" else 400)
    goals = [rnd.choices(SIMPLE + PPF, weights=(40, 20, 18, 6, 6))[0] for _ in range(d)]
    if rnd.random() < 0.25:
        goals = [g if g != "diff" else "min" for g in goals]
    pools = ["tiny", "small", "small"] + ([] if is_int else ["real", "real", "mixed", "big", "inf"])
    if dtype == "float64":
        pools.append("near64")
    if is_int:
        pools.append("nearint")
    base = rnd.choice(pools)
    colpool = [base if rnd.random() < 0.7 else rnd.choice(pools) for _ in range(d)]
    style = rnd.choice(("iid", "iid", "antichain", "chain", "iid"))
    rows = []
    for i in range(n):
        row = []
        for c, g in enumerate(goals):
            if g in PPF:
                row.append(rnd.choice(_PRIMEVALS))
            elif g == "diff":
                row.append(rnd.choice((0, 1, 2)) if rnd.random() < 0.8 else rnd.choice((0.5, 7, 1e9))
                           if not is_int else rnd.choice((0, 1, 2, 16777216, 16777217)))
            else:
                row.append(_POOLS[colpool[c]](rnd))
        rows.append(row)
    opt = [c for c, g in enumerate(goals) if g in ("min", "max")]
    if style == "antichain" and len(opt) >= 2 and n:
        # rows with a constant (signed) coordinate sum: large non-dominated sets (window of several 16-row blocks)
        total = rnd.choice((12, 30, 60))
        for row in rows:
            rest = total
            for c in opt[:-1]:
                v = rnd.randint(0, max(0, rest)) if rnd.random() < 0.9 else rnd.randint(0, total)
                row[c] = v if goals[c] == "min" else total - v
                rest -= v
            c = opt[-1]
            v = rest if rnd.random() < 0.85 else rest + rnd.randint(0, 3)
            v = max(v, 0)
            row[c] = v if goals[c] == "min" else total - v
    elif style == "chain" and opt and n:
        # later rows dominate earlier ones (dominated rows come first in index order)
        cur = [rnd.randint(n, 2 * n + 5) for _ in opt]
        for row in rows:
            for k, c in enumerate(opt):
                cur[k] -= rnd.choice((0, 0, 1))
                row[c] = cur[k] if goals[c] == "min" else -cur[k] + 3 * n + 10
    # constant columns, duplicated rows, shuffles
    if n and rnd.random() < 0.2:
        c = rnd.randrange(d)
        for row in rows:
            row[c] = rows[0][c]
    if n and rnd.random() < 0.45:
        for _ in range(rnd.randint(1, max(1, n // 4))):
            rows.insert(rnd.randint(0, len(rows)), list(rnd.choice(rows)))
    if n and rnd.random() < 0.15:
        # a dominated copy placed BEFORE its dominator
        j = rnd.randrange(len(rows))
        worse = list(rows[j])
        for c in opt:
            if rnd.random() < 0.6:
                worse[c] = worse[c] + (1 if goals[c] == "min" else -1)
        rows.insert(rnd.randint(0, j), worse)
    r = rnd.random()
    if r < 0.15:
        rows.sort(key=lambda row: -sum(v for v in row if v == v and abs(v) != INF))
    elif r < 0.3:
        rnd.shuffle(rows)
    if is_int:
        lim = 2 ** 31 - 1 if dtype == "int32" else 2 ** 53
        rows = [[int(min(max(v, 1 if g in PPF else -lim), lim)) for v, g in zip(row, goals)] for row in rows]
    entry = "fast" if rnd.random() < 0.6 else "numpy"
    distinct = True if entry == "numpy" or rnd.random() < 0.85 else False
    return _Ctx(entry, dtype, goals, rows, distinct)


# ------------------------------------------------------------------ sub-family: large exponents, large primes, many primes
# (*_per_prime_factor goals; bug class: exponents obtained through floating-point logarithms, capped division rounds,
# values narrowed to float32 before factorisation, prime columns derived from the column maximum only)

_BIGP = (2, 3, 5, 7, 11, 13, 17, 19, 23)
_L31, _L53 = 2 ** 31, 2 ** 53
_PRIMORIAL = tuple(itertools.accumulate(_BIGP, lambda a, b: a * b))     # 2, 6, 30, ..., 223092870
_BP_DTYPES = ("int64", "float64", "int32", "float32")


def _kmax(p):
    k = 0
    while p ** (k + 1) < _L31:
        k += 1
    return k


_BP_PK = tuple((p, k) for p in _BIGP for k in range(1, _kmax(p) + 1))     # 109 pairs: 2**30, 3**19, 5**13, ..., 23**6


def _bp_fits(v, dtype):
    """The integer v is an admissible entry of a prime-factor column of this dtype (held exactly, within the stated magnitudes)."""
    if v < 1:
        return False
    if dtype == "int32":
        return v < _L31
    if v > _L53:
        return False
    if dtype == "float32":
        return int(np.float32(v)) == v
    return True


def _bp_dtype(goals, rows, start):
    """First dtype of the cycle (from position `start`) that holds every prime-factor entry exactly; int64 always does."""
    vals = [v for row in rows for v, g in zip(row, goals) if g in PPF]
    for t in range(4):
        dt = _BP_DTYPES[(start + t) % 4]
        if all(_bp_fits(v, dt) for v in vals):
            return dt
    return "int64"


def _bp_next(p):
    return _BIGP[(_BIGP.index(p) + 1) % len(_BIGP)]


def _bp_mexp(base, q, lim=_L53):
    """Largest m >= 0 with q**m < 2**31 and base * q**m <= lim."""
    m = 0
    while q ** (m + 1) < _L31 and base * q ** (m + 1) <= lim:
        m += 1
    return m


def _bp_structured(p, k, g):
    """Matrices around the power p**k for goal g: (goals, rows).  Each puts p**k next to p**(k-1) and p**(k+1) and to products of two
    prime powers in a way that makes the outcome depend on the exact exponent of each."""
    lo, at, hi = p ** (k - 1), p ** k, p ** (k + 1)
    q = _bp_next(p)
    mn = g.startswith("min")
    other = PPF[1] if mn else PPF[0]
    m = _bp_mexp(at, q)
    out = []
    # exponent against a plain column: anti-chain exactly when the three exponents are told apart
    out.append(([g, "min"], [[at, 1], [lo, 2 if mn else 0], [hi, 0 if mn else 2]]))
    out.append(([g, "max"], [[hi, 2 if mn else 0], [at, 1], [lo, 0 if mn else 2]]))
    # a single column: pure powers next to a product with a second prime
    out.append(([g], [[at], [lo * q], [hi]]))
    out.append(([g], [[hi], [lo * q], [at], [lo]]))
    if m >= 1:
        rows = [[at * q ** m], [hi * q ** (m - 1)], [at]]
        if q ** (m + 1) < _L31 and lo * q ** (m + 1) <= _L53:
            rows.append([lo * q ** (m + 1)])
        out.append(([g], rows))
    # the column maximum is exactly p**k; a smaller entry carries a prime that the maximum does not have
    if p > 2:
        c = lo * max(r for r in _BIGP if r < p)
    else:
        c = 3 * p ** (k - 2) if k >= 2 else 1
    out.append(([g], [[c], [at], [lo]]))
    out.append(([g], [[at], [c]]))
    out.append(([g, "diff"], [[c, 0], [at, 0], [lo, 1], [1, 1], [at, 1], [c, 1]]))
    # constant prime-factor column holding the large power
    out.append(([g, "min"], [[at, 2], [at, 1], [at, 1]]))
    out.append(([g, "diff"], [[at, 0], [at, 0], [at, 1]]))
    # two prime-factor columns, the second over powers of another prime
    m2 = max(1, _kmax(q) - (k % 3))
    qs = [q ** m2, q ** (m2 + 1), q ** (m2 - 1)]
    out.append(([g, g], [[at, qs[0]], [lo, qs[1]], [hi, qs[2]]]))
    out.append(([g, other], [[at, qs[0]], [lo, qs[1]], [hi, qs[2]], [lo * q, qs[0]]]))
    return [(goals, [row for row in rows if all(v <= _L53 for v in row)]) for goals, rows in out]


def _bp_primorial_cases():
    P9 = _PRIMORIAL[-1]
    co = [P9 // p for p in _BIGP]                       # nine values, pairwise incomparable in their nine exponents
    for g in PPF:
        yield [g], [[v] for v in _PRIMORIAL]
        yield [g], [[v] for v in reversed(_PRIMORIAL)]
        yield [g], [[v] for v in co]
        yield [g], [[v] for v in co + [P9]]
        yield [g], [[v] for v in [P9] + co[::-1] + [1]]
        yield [g], [[1]] + [[v] for v in co]
        yield [g, "min"], [[v, i % 3] for i, v in enumerate(_PRIMORIAL)]
        yield [g, "max"], [[v, i % 3] for i, v in enumerate(_PRIMORIAL)]
        yield [g, "diff"], [[v, i % 2] for i, v in enumerate(co + [P9, 1, P9, 1])]
        yield [g], [[P9], [2 ** 30], [3 ** 19], [23 ** 6], [1], [2 * 23 ** 6], [9699690 * 2 ** 7]]
        yield [g], [[P9], [P9], [P9]]
        yield [g], [[1], [1], [1], [1]]
        yield [g, "min"], [[P9, 1], [P9, 0], [P9, 1]]
        yield [g, "max"], [[1, 1], [1, 0], [1, 1], [1, 2]]
        yield [g, PPF[0]], [[P9, 1], [P9 // 2, 1], [P9 // 23, 1]]
        yield [g, PPF[1]], [[P9, 2 ** 30], [P9 // 2, 2 ** 30], [P9 // 23, 2 ** 30], [P9, 2 ** 30]]
        yield [g, g], [[_PRIMORIAL[i], _PRIMORIAL[8 - i]] for i in range(9)]
        # every ordered pair over a set of values with 0..9 distinct primes
        vals = (1, 2, 30, 30030, 9699690, P9, P9 // 2, P9 // 23, 2 ** 30, 2 * 3 ** 18)
        for a in vals:
            for b in vals:
                yield [g], [[a], [b]]


def _bp_random(rnd):
    d = rnd.choice((1, 1, 2, 2, 3))
    n = rnd.randint(2, 14)
    goals = [rnd.choice(PPF)] + [rnd.choices(SIMPLE + PPF, weights=(3, 2, 2, 2, 2))[0] for _ in range(d - 1)]
    rnd.shuffle(goals)
    lim = rnd.choice((_L31 - 1, _L31 - 1, _L53))
    cols = []
    for g in goals:
        if g not in PPF:
            cols.append([rnd.randint(0, 3) for _ in range(n)])
            continue
        p, k = rnd.choice(_BP_PK)
        if rnd.random() < 0.5:
            k = _kmax(p) - rnd.choice((0, 0, 1))
        q = rnd.choice([r for r in _BIGP if r != p])
        cap = p ** k if rnd.random() < 0.5 else lim      # cap = p**k: the column maximum is exactly that power
        pool = {1, p ** k, p ** max(k - 1, 0), p ** max(k - 2, 0)}
        for a in (k + 1, k, k - 1, k - 2):
            if a < 0:
                continue
            for b in range(0, _kmax(q) + 1):
                pool.add(p ** a * q ** b)
        pool |= set(_PRIMORIAL)
        pool |= {_PRIMORIAL[-1] // r for r in _BIGP}
        pool = sorted(v for v in pool if v <= min(cap, lim))
        near = [v for v in pool if v * p * p >= p ** k] or pool
        col = [rnd.choice(near if rnd.random() < 0.75 else pool) for _ in range(n)]
        col[rnd.randrange(n)] = p ** k
        style = rnd.random()
        if style < 0.12:
            col = [col[0]] * n                                                                  # constant column
        cols.append(col)
    rows = [[cols[c][i] for c in range(d)] for i in range(n)]
    if rnd.random() < 0.35:
        for _ in range(rnd.randint(1, 3)):
            rows.insert(rnd.randint(0, len(rows)), list(rnd.choice(rows)))
    entry = "fast" if rnd.random() < 0.5 else "numpy"
    distinct = True if entry == "numpy" or rnd.random() < 0.8 else False
    return _Ctx(entry, _bp_dtype(goals, rows, rnd.randrange(4)), goals, rows, distinct)


def _bigprime(tier, rnd):
    """The contexts of the sub-family, in a fixed order."""
    thorough = tier == "thorough"
    t = 0
    # enumerated: around every power p**k < 2**31, every ordered pair (thorough: also every triple, over two more values)
    for p, k in _BP_PK:
        q = _bp_next(p)
        W = [p ** (k - 1), p ** k, p ** (k + 1), p ** (k - 1) * q]
        if thorough:
            m = _bp_mexp(p ** k, q)
            W += [p ** k * q ** max(m, 1), 1]
        for g in PPF:
            for n in ((2, 3) if thorough else (2,)):
                for vals in itertools.product(W, repeat=n):
                    t += 1
                    rows = [[v] for v in vals]
                    dt = _bp_dtype([g], rows, t)
                    if thorough:
                        yield _Ctx("fast", dt, [g], rows)
                        yield _Ctx("numpy", dt, [g], rows)
                    else:
                        yield _Ctx(("fast", "numpy")[t % 2], dt, [g], rows)
            for goals, rows in _bp_structured(p, k, g):
                t += 1
                dt = _bp_dtype(goals, rows, t)
                yield _Ctx("fast", dt, goals, rows)
                yield _Ctx("numpy", dt, goals, rows)
                if thorough or t % 4 == 0:
                    yield _Ctx("fast", dt, goals, rows, distinct=False)
    for goals, rows in _bp_primorial_cases():
        t += 1
        dt = _bp_dtype(goals, rows, t)
        yield _Ctx("fast", dt, goals, rows)
        yield _Ctx("numpy", dt, goals, rows)
        if thorough:
            yield _Ctx("fast", dt, goals, rows, distinct=False)
    for _ in range(6000 if thorough else 400):
        yield _bp_random(rnd)


def _sample_text(cx):
    d = cx.describe()
    rows = d["rows"]
    body = str(rows) if cx.n <= 4 else f"{rows[:2]}... ({cx.n} rows)"
    return f"{d['entry'].split('.')[-1]} {cx.dtype} {','.join(cx.goals)} {body}"[:200]


def _sweep(seed, tier, known, n_random=None):
    known_ids = frozenset(e.get("class_id") for e in (known or []) if e.get("status", "open") == "open")
    rnd = random.Random(int(seed) * 1000003 + (0 if tier == "quick" else 1))
    st = {"evaluations": 0, "known_finding_hits": 0, "in_known_class_deviations": {}, "core": 0, "guidance": 0, "bigprime": 0, "random": 0, "rows_max": 0}
    seen, samples = set(), []

    def run(cx, shrink=False):
        st["evaluations"] += 1
        st["rows_max"] = max(st["rows_max"], cx.n)
        if cx.n >= 2:
            seen.add(cx.key()[1:])
        r = _check(cx, known_ids)
        if r is None:
            return None
        if isinstance(r, tuple):
            st["known_finding_hits"] += 1
            for cid in r[1]:
                st["in_known_class_deviations"][cid] = st["in_known_class_deviations"].get(cid, 0) + 1
            return None
        if shrink and cx.n > 3:
            small = _shrink(cx, known_ids)
            r2 = _check(small, known_ids)
            if isinstance(r2, dict):
                r2["shrunk_from_rows"] = cx.n
                r = r2
        r.update({"evaluations": st["evaluations"], "known_finding_hits": st["known_finding_hits"]})
        return r

    for dtype, goals, rows in GUIDANCE:
        for entry in ("fast", "numpy"):
            st["guidance"] += 1
            r = run(_Ctx(entry, dtype, goals, rows))
            if r:
                return r, st, seen, samples
    k = 0
    for goals, rows in _core(tier):
        k += 1
        st["core"] += 1
        has_inf = any(abs(v) == INF for row in rows for v in row)
        if tier == "thorough":
            dts = ("float32", "float64") if has_inf else ("float32", "float64", "int64")
        else:
            dts = (("float32", "float64")[k % 2],) if has_inf else (("float32", "float64", "int64", "int32")[k % 4],)
        for dtype in dts:
            r = run(_Ctx("fast", dtype, goals, rows))
            if r:
                return r, st, seen, samples
        if tier == "thorough" or k % 3 == 0:
            r = run(_Ctx("numpy", dts[0], goals, rows))
            if r:
                return r, st, seen, samples
        if any(g in PPF for g in goals) or k % 16 == 0:
            r = run(_Ctx("fast", dts[0], goals, rows, distinct=False))
            if r:
                return r, st, seen, samples
    rnd_bp = random.Random(int(seed) * 7919 + (11 if tier == "quick" else 12))
    for i, cx in enumerate(_bigprime(tier, rnd_bp)):
        st["bigprime"] += 1
        r = run(cx, shrink=True)
        if r:
            return r, st, seen, samples
        if i in (17, 2611) and len(samples) < 8:
            samples.append(_sample_text(cx))
    if n_random is None:
        n_random = 1500 if tier == "quick" else 30000
    for i in range(n_random):
        cx = _rand_case(rnd, tier)
        st["random"] += 1
        r = run(cx, shrink=True)
        if r:
            return r, st, seen, samples
        if len(samples) < 8 and i % 37 == 0:
            samples.append(_sample_text(cx))
    return None, st, seen, samples


def _bound(tier):
    t = tier == "thorough"
    return (f"enumerated core: every matrix with d=1 column, n<={5 if t else 4} rows over {{0,1,2}}; d=2, n<={4 if t else 3} over {{0,1,2}}; "
            f"d=3, n<={4 if t else 3} over {{0,1}}" + ("; d=3, n=2 over {0,1,2}" if t else "") + ", each with every goal vector from {min,max,diff}^d; "
            "d=2 over {0,1,+inf} and d=3 over {0,+inf}, n in 2..3, every goal vector from {min,max}^d (the infinite value negated in max columns); "
            "prime-factor goals: d=1, n<=3 over {1,2,3,4,6,12}, and d=2, n=2 over {1,2,4,6} with the second column of any of the 5 goals. "
            + ("Every core input in float32, float64 and int64 (infinite ones: the two float types) through fast_pareto_mask and in float32 through makepareto_numpy. " if t else
               "Every core input through fast_pareto_mask in one dtype (cycling float32/float64/int64/int32), every third also through makepareto_numpy. ") +
            "Large-exponent sub-family of the prime-factor goals: for each of the 109 powers p**k < 2**31, p in {2,3,5,7,11,13,17,19,23} (up to 2**30, 3**19, "
            "5**13, 7**11, 11**8, 13**8, 17**7, 19**7, 23**6), d=1 and " + (
                "every ordered pair and triple over {p**(k-1), p**k, p**(k+1), p**(k-1)*q, p**k*q**m, 1}" if t else
                "every ordered pair over {p**(k-1), p**k, p**(k+1), p**(k-1)*q}") + " (q the next prime of the list" + (", q**m < 2**31 the largest "
            "power keeping the product <= 2**53" if t else "") + "), plus 12 fixed matrices per power and goal (n <= 6, d <= 2: the three neighbouring powers against a min / max / diff / second "
            "prime-factor column, products of two prime powers, columns whose maximum is exactly p**k while a smaller entry has another prime, constant "
            "columns at p**k); primorials 2 .. 2*3*5*7*11*13*17*19*23 and their co-divisors (n <= 13, every ordered pair over 10 values with 0..9 distinct "
            f"primes), the value 1, constant columns; {6000 if t else 400} seeded random matrices (n <= 17, d <= 3) over such values; entries <= 2**53 "
            "(int32: < 2**31; float32: only values it holds exactly), dtype cycling int64/float64/int32/float32, both entry points. "
            f"Random part: n <= {400 if t else 300} generated rows plus up to a quarter inserted duplicates, d <= 8 columns, dtypes float32/float64/int64/int32, any of the 5 goals per column. "
            "No NaN, no -0.0, |integers| <= 2**53, prime-factor columns hold integers >= 1")


def _bounded(p):
    tier = p.get("tier", "quick")
    if tier not in ("quick", "thorough"):
        tier = "quick"
    bad, st, seen, samples = _sweep(p.get("seed", 0), tier, p.get("known"))
    if bad:
        return bad
    rule = (
        "fast_pareto.fast_pareto_mask(D, goals) (also with distinct=False) and pareto.makepareto_numpy(D, goals) of the repository are called on "
        "each matrix; the returned boolean mask must equal the mask computed in the oracle from the definition: prime-factor columns expanded into "
        "prime-exponent columns (trial division), max columns negated, row j dominates row i iff equal on all diff columns, <= on all optimisation "
        "columns and < on one, compared exactly on the input values; keep the rows no row dominates; of exactly equal rows keep only the first "
        "(distinct=False: keep all non-dominated rows). An exception, a result that is not a bool mask of length n, or a modified input is a failure. "
        "Each enumerated core input is run through fast_pareto_mask in one dtype (quick: cycling float32/float64/int64/int32; thorough: in each of "
        "float32/float64/int64), a third of them (thorough: all) also through makepareto_numpy, and those with prime-factor goals plus every 16th also "
        "with distinct=False. Random inputs: value pools of small integers with many ties and "
        "duplicates, reals, mixed magnitudes 1e-3..3e38 incl. values whose float32 sums collide (1e9, 1e9+64), +inf, float64 values closer than float32 "
        "resolution, integers around 2**24 and 2**31, constant columns, 0-3 diff columns (float32 pair-packed path), anti-chains of up to several "
        "hundred non-dominated rows (several 16-row window blocks), dominated rows placed before their dominators, inserted duplicate rows, sorted and "
        "shuffled orders. "
        "Large-exponent sub-family (prime-factor goals): values p**k with p <= 23 and p**k < 2**31 next to p**(k-1), p**(k+1) and products of two "
        "such powers, primorials with up to 9 distinct primes, the value 1 and constant columns, through fast_pareto_mask (fast_pareto.prime_factor_counts) "
        "and makepareto_numpy (pareto.prime_factor_counts); the required exponents come from integer trial division in the oracle. "
        f"This run: {st['guidance']} guidance cases, {st['core']} core inputs, {st['bigprime']} large-exponent inputs, {st['random']} random inputs "
        f"(largest {st['rows_max']} rows). "
        "For inputs inside an OPEN known-finding class listed in the payload the comparison is replaced by the weaker one the finding leaves: "
        "F3 -> dominance on the float32-rounded min/max values; F1 -> only non-dominated rows holding +inf in a group with two varying columns may be "
        "missing; F2 -> only dominated rows all of whose dominators tie with them in float32 row sum may be extra; C11-empty-numpy -> IndexError on 0 rows; "
        "C11-neg-inplace -> comparison skipped. "
        f"Deviations explained this way in this run: {st['in_known_class_deviations'] or 'none'}."
    )
    return {"failed": False, "evaluations": st["evaluations"], "distinct": len(seen), "known_finding_hits": st["known_finding_hits"],
            "bound": _bound(tier), "rule": rule, "exhaustive": True, "samples": samples,
            "assumptions": ["no NaN and no -0.0 entries (the float32 pair-packed grouping of diff columns separates 0.0 from -0.0)",
                            "prime-factor columns hold integers >= 1"]}


def _crosscheck(p):
    q = dict(p)
    q["tier"] = "quick" if int(p.get("n", 200)) <= 200 else "thorough"
    return _bounded(q)


def _replay(p):
    bad, st, seen, samples = _sweep(p.get("seed", 0), "quick", p.get("known"), n_random=600)
    if bad:
        return bad
    return {"failed": False, "tried": st["evaluations"]}


def _witness(p):
    """Replays the witnesses of a recorded finding class strictly (no class is excused)."""
    ent = (p or {}).get("finding") or {}
    cid = ent.get("class_id")
    if cid not in WITNESS:
        return {"failed": False}
    out, failed = [], False
    for entry, dtype, goals, rows in WITNESS[cid]:
        cx = _Ctx(entry, dtype, goals, rows)
        r = _check(cx, frozenset())
        if isinstance(r, dict):
            failed = True
            out.append(f"{_sample_text(cx)} -> {r['observed']} required {r['required']}")
        else:
            out.append(f"{_sample_text(cx)} -> as required")
    return {"failed": failed, "observed": "; ".join(out)}


# ------------------------------------------------------------------ public modes: the real code runs in a child interpreter
# (numba-compiled loops index raw memory: a wrong group code or window index kills the interpreter instead of raising)

_CHILD = ("import sys, json, os; sys.path[:] = json.loads(os.environ['C11_SYSPATH']); from oracles import C11; "
          "print(json.dumps(getattr(C11, '_' + sys.argv[1])(json.loads(sys.stdin.read() or '{}')), default=str))")


def _isolated(mode, p):
    fd, path = tempfile.mkstemp(prefix="C11_last_", suffix=".json")
    os.close(fd)
    try:
        env = dict(os.environ, C11_SYSPATH=json.dumps(sys.path), C11_LAST=path)
        r = subprocess.run([sys.executable, "-c", _CHILD, mode], input=json.dumps(p or {}), capture_output=True, text=True, env=env)
        try:
            out = json.loads(r.stdout.strip().splitlines()[-1])
            if isinstance(out, dict) and "failed" in out:
                return out
        except Exception:
            pass
        try:
            last = json.loads(open(path).read())
        except Exception:
            last = None
        return {"failed": True, "input": last,
                "observed": f"the interpreter running the real code ended without a result (return code {r.returncode}) while evaluating this input; "
                            f"stderr tail: {r.stderr[-400:]}",
                "required": "a boolean mask (see rule)"}
    finally:
        try:
            os.unlink(path)
        except OSError:
            pass


def crosscheck(p):
    return _isolated("crosscheck", p)


def bounded(p):
    return _isolated("bounded", p)


def replay(p):
    return _isolated("replay", p)


def witness(p):
    return _isolated("witness", p)
