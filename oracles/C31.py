"""Bounded run-time contract check for C31: Toll components pass data through without storing it.

What is run on the REAL code
  * `Spec.evaluate_mapping()` on small single-Einsum specs whose architecture has one or two Tolls
    between Memories and whose concrete mapping is generated here (model part),
  * `Spec.evaluate_mapping()` on hand-written two-Einsum mappings in which a Toll is / is not the
    outermost holder of the tensor shared by the two Einsums (holder part), and
  * `Spec.map_workload_to_arch()` on tiny multi-Einsum workloads on architectures with Tolls (mapper part), with the
    default mapper settings and with the settings that change how storage / Toll nodes are ordered
    (force_memory_hierarchy_order off, prioritize_reuse_of_unfused_tensors, ...; see MAPPER_OPTION_SETS), and
  * `Spec.map_workload_to_arch()` restricted to ONE pmapping template at a time (the private setting
    spec.mapper._only_output_pmapping_with_index, read by make_pmapping_templates) for a tiny single-Einsum
    workload on architectures with a Toll below two Memories (template part): a badly placed Toll node
    cannot lose against a well placed one there, every template's best mapping is returned and inspected.

What it is compared with (written here; nothing of the repository is used for a required value)
  * crossing counts obtained by WALKING the loop nest: for a tensor T that a Toll node holds, the holder
    below the Toll (the next Storage of T, or the Compute if there is none; further Toll nodes are looked
    through) receives its tile of T once per iteration of all the loops above it (the documented LoopTree
    reading: a storage node below a loop is filled again on every iteration of that loop).  The tile is
    built as an explicit set of tensor coordinates.  Downward crossing = sum over the iterations of |tile|
    for an input; for the output the upward crossing (write-back) is the same sum and the downward
    crossing (partial sums fetched again) counts only coordinates already brought in by an earlier
    iteration (every coordinate when the holder below is configured skip_initial_output_write: false).
  * required Toll read actions = (down crossing if direction in {down, up_and_down}) + (up crossing if
    direction in {up, up_and_down}), divided by values-per-action; 0 for a tensor the Toll node does not
    hold.  Required write actions = 0, required occupancy / reservation of the Toll = 0, and every usage /
    reservation figure of the Memories equals the figure of the same mapping evaluated on the same
    architecture with the Toll (and its mapping nodes) removed (compared where every Toll node sits directly
    above a Storage node or the Compute, see _tolls_sit_on_holders).
  * not compared: the read count of a (Toll, tensor) whose loop nest has an uneven tile together with another
    loop over the same variable (see _nested_uneven: the model is approximate there for every holder).
  * outermost-holder rule: in every mapping that is RETURNED (by the mapper, or by evaluate_mapping for a
    hand-written two-Einsum mapping) the first holder of a tensor used by several Einsums is not a Toll;
    evaluate_mapping must therefore not return a result for a mapping that breaks the rule, and must
    return one for the same mapping with a Memory holding the tensor above the Toll.
  * position: in every mapping returned by the mapper a Toll node of tensor T sits below every holder node of T
    whose component is above the Toll in the architecture and above every holder node of T whose component is
    below it (only then "the values crossing it" are the values exchanged between the level above and the level
    below), and a Toll declared {keep: All} has a node for every tensor that a Memory above it holds (no tensor
    bypasses it); the read counts of the returned mapping are then compared with the walk of that mapping.
"""
import itertools, os, random, tempfile
from fractions import Fraction

# the harness budgets one core: keep the numeric libraries that accelforge pulls in from spawning thread pools
for _v in ("OMP_NUM_THREADS", "OPENBLAS_NUM_THREADS", "MKL_NUM_THREADS", "NUMEXPR_NUM_THREADS"):
    os.environ.setdefault(_v, "1")

SEP = "<SEP>"
CLASSES = {}

# ------------------------------------------------------------------------------------ workloads

WORKLOADS = {
    # name: (tensor -> rank variables of its projection (in rank order), output tensor)
    "matmul": ({"A": ["m", "k"], "B": ["k", "n"], "Z": ["m", "n"]}, "Z"),
    "matvec": ({"A": ["m", "k"], "B": ["k"], "Z": ["m"]}, "Z"),
    "outer": ({"A": ["m"], "B": ["n"], "Z": ["m", "n"]}, "Z"),
}
TENSORS = ("A", "B", "Z")


def _vars_of(tens):
    out = []
    for t in tens:
        for v in tens[t]:
            if v not in out:
                out.append(v)
    return out


# ------------------------------------------------------------------------------------ YAML text

def _mem_yaml(c):
    s = "" if c.get("skip_initial", True) else ", skip_initial_output_write: false"
    return (f"  - !Memory {{name: {c['name']}, size: {c.get('size', 8192)}, leak_power: 0, area: 0, tensors: {c.get('tensors', '{keep: All}')}{s}, "
            f"actions: [{{name: read, energy: {c.get('energy', 1)}, throughput: inf}}, {{name: write, energy: {c.get('energy', 1)}, throughput: inf}}]}}")


def _dict_yaml(d):
    return "{" + ", ".join(f'"{k}": {v}' for k, v in d.items()) + "}"


def _toll_yaml(t):
    d = t["direction"]
    if isinstance(d, dict):
        d = _dict_yaml(d)
    extra, act_extra = "", ""
    sc = t.get("scale") or {"kind": "default"}
    if sc["kind"] == "vpa":
        extra = ", values_per_action: " + _dict_yaml(sc["values"])
    elif sc["kind"] == "bpa":
        extra = f", bits_per_action: {sc['bits']}"
    elif sc["kind"] == "action_bpa":
        act_extra = f", bits_per_action: {sc['bits']}"
    elif sc["kind"] == "action_vpa":
        act_extra = ", values_per_action: " + _dict_yaml(sc["values"])
    return (f"  - !Toll {{name: {t['name']}, direction: {d}, leak_power: 0, area: 0, tensors: {t.get('tensors', '{keep: All}')}{extra}, "
            f"actions: [{{name: read, energy: {t.get('energy', 3)}, throughput: inf{act_extra}}}]}}")


def _arch_yaml(arch, with_tolls=True):
    lines = ["arch:", "  nodes:"]
    for c in arch:
        if c["kind"] == "Memory":
            lines.append(_mem_yaml(c))
        elif c["kind"] == "Toll":
            if with_tolls:
                lines.append(_toll_yaml(c))
        else:
            s = "" if c.get("skip_initial", True) else ", skip_initial_output_write: false"
            lines.append(f"  - !Compute {{name: {c['name']}, leak_power: 0, area: 0{s}, actions: [{{name: compute, energy: 1, throughput: 1}}]}}")
    return lines


def _workload_yaml(einsums, bounds, bits):
    """einsums: list of (name, {tensor: [vars]}, output tensor)"""
    allv = []
    for _, tens, _ in einsums:
        for v in _vars_of(tens):
            if v not in allv:
                allv.append(v)
    lines = ["workload:", "  rank_sizes: {" + ", ".join(f"{v.upper()}: {bounds[v]}" for v in allv) + "}",
             "  bits_per_value: {" + ", ".join(f"{t}: {b}" for t, b in bits.items()) + "}", "  einsums:"]
    for name, tens, out in einsums:
        lines += [f"  - name: {name}", "    tensor_accesses:"]
        for t in tens:
            o = ", output: true" if t == out else ""
            lines.append(f"    - {{name: {t}, projection: [{', '.join(tens[t])}]{o}}}")
    return lines


def _node_yaml(n, einsum="E", with_tolls=True, indent="  "):
    if n[0] == "S":
        return [f"{indent}- !Storage {{tensors: [{', '.join(n[2])}], component: {n[1]}}}"]
    if n[0] == "P":
        return [f"{indent}- !Toll {{tensors: [{', '.join(n[2])}], component: {n[1]}}}"] if with_tolls else []
    if n[0] == "T":
        return [f"{indent}- !Temporal {{rank_variable: {n[1]}, tile_shape: {n[2]}}}"]
    if n[0] == "C":
        return [f"{indent}- !Compute {{einsum: {n[2] if len(n) > 2 else einsum}, component: {n[1]}}}"]
    if n[0] == "SEQ":
        out = [f"{indent}- !Sequential", f"{indent}  nodes:"]
        for branch in n[1]:
            out += [f"{indent}  - !Nested", f"{indent}    nodes:"]
            for m in branch:
                out += _node_yaml(m, einsum, with_tolls, indent + "    ")
        return out
    raise ValueError(n)


def _spec_yaml(case, with_tolls=True):
    tens, out = WORKLOADS[case["workload"]]
    lines = _arch_yaml(case["arch"], with_tolls)
    lines += _workload_yaml([("E", {t: tens[t] for t in TENSORS}, out)], case["bounds"], {t: case["bits"][t] for t in TENSORS})
    lines += ["mapping:", "  nodes:"]
    for n in case["mapping"]:
        lines += _node_yaml(n, "E", with_tolls)
    return "\n".join(lines) + "\n"


# ------------------------------------------------------------------------------------ real code

_CAPTURE = {"installed": False, "last": []}


def _install_capture():
    """Records the reuse analysis result that run_model works with (observation only)."""
    if _CAPTURE["installed"]:
        return
    import accelforge.model.run_model as rm

    orig = rm.analyze_reuse_and_add_reservations_to_mapping

    def wrapped(*a, **k):
        r = orig(*a, **k)
        _CAPTURE["last"].append(r)
        return r

    rm.analyze_reuse_and_add_reservations_to_mapping = wrapped
    _CAPTURE["installed"] = True


def _single_process():
    """The harness budgets one core; accelforge otherwise starts one worker per CPU."""
    if not _CAPTURE.get("single"):
        from accelforge.util.parallel import set_n_parallel_jobs

        set_n_parallel_jobs(1)
        _CAPTURE["single"] = True


def _spec_from_text(text):
    from accelforge.frontend.spec import Spec

    with tempfile.NamedTemporaryFile("w", suffix=".yaml", delete=False) as f:
        f.write(text)
        path = f.name
    try:
        return Spec.from_yaml(path)
    finally:
        os.unlink(path)


def _num(x):
    try:
        return float(x)
    except Exception:
        return x


def _evaluate(text):
    """-> (the single result row as a dict, buffet statistics seen by run_model, the Mappings object)"""
    from accelforge.frontend.mapper.metrics import Metrics

    _install_capture()
    _single_process()
    spec = _spec_from_text(text)
    spec.model.metrics = Metrics.ENERGY | Metrics.LATENCY | Metrics.ACTIONS | Metrics.DETAILED_MEMORY_USAGE
    _CAPTURE["last"].clear()
    res = spec.evaluate_mapping()
    data = res.data
    if len(data) != 1:
        raise AssertionError(f"evaluate_mapping returned {len(data)} rows")
    row = {c: data.iloc[0][c] for c in data.columns}
    stats = []
    for reuse in _CAPTURE["last"]:
        for b, s in reuse.buffet_stats.items():
            stats.append((str(b.level), str(b.tensor), _num(s.max_occupancy), _num(s.total_write_actions), _num(s.net_total_write_actions()),
                          _num(s.net_total_read_actions())))
    _CAPTURE["last"].clear()
    return row, stats, res


# ------------------------------------------------------------------------------------ the independent walk

def _iterations(loops, bounds):
    """All iterations of the loop list (outermost first), in execution order, as var -> (start, extent)."""
    def rec(i, cur):
        if i == len(loops):
            yield cur
            return
        v, t = loops[i]
        s, e = cur[v]
        off = 0
        while off < e:
            nxt = dict(cur)
            nxt[v] = (s + off, min(t, e - off))
            yield from rec(i + 1, nxt)
            off += t
    yield from rec(0, {v: (0, b) for v, b in bounds.items()})


def _tile(proj, cur):
    return frozenset(itertools.product(*[range(cur[v][0], cur[v][0] + cur[v][1]) for v in proj]))


def _nested_uneven(loops, bounds):
    """True if some loop splits its extent unevenly (tile shape not dividing it) while another loop over the same
    variable is in the list.  For such nests the model's iteration counts are approximate for every holder, with or
    without Tolls (a remainder tile is counted like a full tile by the loops below it; a single-iteration loop followed
    by an uneven one gives a fractional iteration count).  That is not a statement about Tolls, so these loop nests are
    outside the family; an uneven loop that is the only loop over its variable above the holder is inside."""
    for i, (v, t) in enumerate(loops):
        if sum(1 for v2, _ in loops if v2 == v) < 2:
            continue
        for cur in _iterations(loops[:i], bounds):
            if cur[v][1] % t != 0:
                return True
    return False


def _crossings(tens, out, bounds, mp, skip_of, toll_idx, tensor):
    """(down, up): values of `tensor` crossing the Toll node at index toll_idx of the flat mapping mp.

    tens: tensor -> projection variables of the Einsum; out: its output tensor; skip_of: component ->
    skip_initial_output_write of that component."""
    child = None
    for j in range(toll_idx + 1, len(mp)):
        n = mp[j]
        if (n[0] == "S" and tensor in n[2]) or n[0] == "C":
            child = j
            break
    loops = [(n[1], n[2]) for n in mp[:child] if n[0] == "T"]
    skip_initial = skip_of.get(mp[child][1], True)
    down = up = 0
    seen = set()
    if _nested_uneven(loops, bounds):
        return None
    for cur in _iterations(loops, bounds):
        tile = _tile(tens[tensor], cur)
        if tensor == out:
            up += len(tile)
            down += len(tile) if not skip_initial else len(tile & seen)
            seen |= tile
        else:
            down += len(tile)
    return down, up


def _key_tensors(key, tens, out):
    """Tensors named by a key of a per-tensor dictionary (tensor names, Inputs, Outputs, All, unions with |)."""
    res = set()
    for part in key.split("|"):
        part = part.strip()
        if part == "All":
            res |= set(tens)
        elif part == "Inputs":
            res |= {t for t in tens if t != out}
        elif part == "Outputs":
            res |= {out}
        elif part in tens:
            res.add(part)
    return res


def _lookup(d, tensor, tens, out):
    for k, v in d.items():
        if tensor in _key_tensors(k, tens, out):
            return v
    raise KeyError(tensor)


def _values_per_action(toll, tensor, bits, tens, out):
    sc = toll.get("scale") or {"kind": "default"}
    if sc["kind"] in ("vpa", "action_vpa"):
        return Fraction(_lookup(sc["values"], tensor, tens, out))
    if sc["kind"] in ("bpa", "action_bpa"):
        return Fraction(sc["bits"], bits[tensor])
    return Fraction(1, bits[tensor])  # one bit per action unless told otherwise


def _direction(toll, tensor, tens, out):
    d = toll["direction"]
    return _lookup(d, tensor, tens, out) if isinstance(d, dict) else d


def _required_reads(tens, out, bounds, bits, arch, mp):
    """{(toll name, tensor): required read actions (Fraction)} for every Toll and every tensor of the Einsum."""
    skip_of = {c["name"]: c.get("skip_initial", True) for c in arch}
    req = {}
    for c in arch:
        if c["kind"] != "Toll":
            continue
        for t in tens:
            total = Fraction(0)
            for i, n in enumerate(mp):
                if n[0] == "P" and n[1] == c["name"] and t in n[2]:
                    cr = _crossings(tens, out, bounds, mp, skip_of, i, t)
                    if cr is None:  # loop nest outside the family for this holder (see _nested_uneven)
                        total = None
                        break
                    down, up = cr
                    d = _direction(c, t, tens, out)
                    v = (down if d in ("down", "up_and_down") else 0) + (up if d in ("up", "up_and_down") else 0)
                    total += Fraction(v) / _values_per_action(c, t, bits, tens, out)
            req[(c["name"], t)] = total
    return req


def _required(case):
    tens, out = WORKLOADS[case["workload"]]
    return _required_reads(tens, out, case["bounds"], case["bits"], case["arch"], case["mapping"])


# ------------------------------------------------------------------------------------ one model case

def _close(a, b):
    a, b = float(a), float(b)
    return abs(a - b) <= 1e-6 * max(1.0, abs(a), abs(b))  # some columns are stored in single precision


_REF_CACHE = {}


def _usage_columns(row, toll_names):
    out = {}
    for c, v in row.items():
        parts = c.split(SEP)
        if ("usage" in parts or parts[0] == "reservation") and not any(t in parts for t in toll_names):
            out[c] = _num(v)
    return out


def _reference(case, toll_names):
    text = _spec_yaml(case, with_tolls=False)
    if text not in _REF_CACHE:
        if len(_REF_CACHE) > 5000:
            _REF_CACHE.clear()
        try:
            r2, _, _ = _evaluate(text)
            _REF_CACHE[text] = _usage_columns(r2, toll_names)
        except Exception as ex:
            _REF_CACHE[text] = f"{type(ex).__name__}: {str(ex)[:200]}"
    return _REF_CACHE[text]


def _check_row(row, stats, req, toll_names, einsum, fail):
    for (g, t), want in req.items():
        if want is None:
            continue
        got = _num(row.get(f"{einsum}{SEP}action{SEP}{g}{SEP}{t}{SEP}read", 0))
        if not _close(got, want):
            return fail(got, float(want), f"read actions of Toll {g} for tensor {t} (Einsum {einsum})")
    for c, v in row.items():
        parts = c.split(SEP)
        if not any(g in parts for g in toll_names):
            continue
        if ("usage" in parts and "memory" in parts) or parts[0] == "reservation":
            if not _close(_num(v), 0):
                return fail(_num(v), 0, f"occupancy column {c}")
        if "action" in parts and parts[-1] != "read":
            if not _close(_num(v), 0):
                return fail(_num(v), 0, f"Toll action other than read: column {c}")
    for (level, tensor, occ, wr, netwr, netrd) in stats:
        if level in toll_names:
            if not (_close(occ, 0) and _close(wr, 0) and _close(netwr, 0)):
                return fail({"max_occupancy": occ, "total_write_actions": wr, "net_write_actions": netwr}, {"max_occupancy": 0, "total_write_actions": 0, "net_write_actions": 0},
                            f"buffet statistics of Toll {level} for tensor {tensor}")
            if req.get((level, tensor)) is not None and not _close(netrd, req[(level, tensor)]):
                return fail(netrd, float(req[(level, tensor)]), f"net read actions in the buffet statistics of Toll {level} for tensor {tensor}")
    return None


def _tolls_sit_on_holders(mp):
    """True if every run of Toll nodes is directly followed by a Storage node or the Compute.  The model lowers the
    reservation of a non-outermost Storage node through the fully relevant loops below it until it meets ANY further
    tensor-holder node (Storage or Toll alike); a Toll node that sits directly above a loop therefore ends the lowering
    of the Storage nodes above it, as a Storage node in the same place would.  That is the reading of node order, not
    an occupancy of the Toll, so the comparison with the Toll-free mapping is made only where the order cannot matter."""
    for i, n in enumerate(mp):
        if n[0] == "P" and mp[i + 1][0] == "T":
            return False
    return True


def _check(case, compare_without_toll=True):
    """(failure dict or None, 'ok' | 'rejected')."""
    toll_names = [c["name"] for c in case["arch"] if c["kind"] == "Toll"]
    req = _required(case)

    def fail(obs, reqd, what):
        return {"failed": True, "input": case, "observed": obs, "required": reqd, "what": what}

    try:
        row, stats, _ = _evaluate(_spec_yaml(case))
    except Exception as ex:
        ref = _reference(case, toll_names)
        if not isinstance(ref, dict):
            return None, "rejected"  # the mapping is not accepted even without the Toll: not an input of this property
        return fail(f"{type(ex).__name__}: {str(ex)[:300]}", {f"{k[0]}/{k[1]}": (None if v is None else float(v)) for k, v in req.items()},
                    "evaluate_mapping raised on a mapping that it accepts without the Toll"), "ok"
    bad = _check_row(row, stats, req, toll_names, "E", fail)
    if bad:
        return bad, "ok"
    if compare_without_toll and _tolls_sit_on_holders(case["mapping"]):
        ref = _reference(case, toll_names)
        if isinstance(ref, dict):
            mine = _usage_columns(row, toll_names)
            for k in sorted(set(ref) | set(mine)):
                a, b = mine.get(k, 0.0), ref.get(k, 0.0)
                if not _close(a, b):
                    return fail({k: a}, {k: b}, "occupancy / reservation of a Memory differs from the same mapping without the Toll"), "ok"
        else:
            return fail("evaluated", ref, "the mapping is accepted with the Toll but not without it"), "ok"
    return None, "ok"


# ------------------------------------------------------------------------------------ model cases: generators

def _arch(kind, dirs, scales=None, skip=None):
    """kind: 'one' (Main, G1, Buf), 'stacked' (Main, G1, G2, Buf), 'three' (Main, G1, Mid, G2, Buf)."""
    names = {"one": ["Main", "G1", "Buf"], "stacked": ["Main", "G1", "G2", "Buf"], "three": ["Main", "G1", "Mid", "G2", "Buf"]}[kind]
    arch, ti = [], 0
    for nme in names:
        if nme.startswith("G"):
            c = {"kind": "Toll", "name": nme, "direction": dirs[ti]}
            if scales and scales[ti]:
                c["scale"] = scales[ti]
            ti += 1
        else:
            c = {"kind": "Memory", "name": nme}
            if skip and nme in skip:
                c["skip_initial"] = False
        arch.append(c)
    c = {"kind": "Compute", "name": "MAC"}
    if skip and "MAC" in skip:
        c["skip_initial"] = False
    arch.append(c)
    return arch


def _emit(arch, loops, place, rnd=None):
    """place: tensor -> {holder name: position (number of loops above the node)}; Main holds everything at 0."""
    holders = [c for c in arch if c["kind"] in ("Memory", "Toll")]
    order = {c["name"]: i for i, c in enumerate(holders)}
    kind = {c["name"]: ("P" if c["kind"] == "Toll" else "S") for c in holders}
    mp = []
    for pos in range(len(loops) + 1):
        here = [(order[h], t, h) for t in place for h, p in place[t].items() if p == pos]
        here.sort()
        if rnd is not None and rnd.random() < 0.5:
            # another order that keeps, for each tensor, the architecture order of its holders
            keyed = [(rnd.random(), x) for x in here]
            keyed.sort()
            shuffled = [x for _, x in keyed]
            per_t = {}
            for x in sorted(shuffled, key=lambda x: x[0]):
                per_t.setdefault(x[1], []).append(x)
            here = [per_t[x[1]].pop(0) for x in shuffled]
        # merge neighbours on the same holder into one node
        for (_, t, h) in here:
            if mp and mp[-1][0] == kind[h] and mp[-1][1] == h and (rnd is None or rnd.random() < 0.7) and t not in mp[-1][2]:
                mp[-1][2].append(t)
            else:
                mp.append([kind[h], h, [t]])
        if pos < len(loops):
            mp.append(["T", loops[pos][0], loops[pos][1]])
    mp.append(["C", "MAC"])
    return mp


DIRS = ("up", "down", "up_and_down")


def _core_cases(tier):
    """Exhaustive core: matmul 2x2x2 on Main / G1 / Buf, every loop skeleton (loops above the Toll, loops between
    the Toll and Buf; disjoint ordered variable lists of length <= 1 (quick) / <= 2 (thorough)), and for every
    tensor every combination of (held by the Toll node, held by Buf, direction up / down / up_and_down); the way the
    values-per-action are given (default, values_per_action / bits_per_action on the component or on the action) rotates."""
    maxlen = 1 if tier == "quick" else 2
    vs = ["m", "k", "n"]
    seqs = [()] + [p for r in range(1, maxlen + 1) for p in itertools.permutations(vs, r)]
    combos = [(a, b, d) for a in (True, False) for b in (True, False) for d in DIRS]  # 12
    scales = [None, {"kind": "vpa", "values": {"A": 2, "B": 4, "Z": 8}}, {"kind": "bpa", "bits": 16}, {"kind": "action_bpa", "bits": 4},
              {"kind": "action_vpa", "values": {"A": 1, "B": 2, "Z": 5}}]
    k = 0
    for l0 in seqs:
        for l1 in seqs:
            if set(l0) & set(l1):
                continue
            k += 1
            rest = [v for v in vs if v not in l0 and v not in l1]
            loops = [(v, 1) for v in l0] + [(v, 1) for v in l1] + [(v, 1) for v in rest]
            for r in range(12):
                # rotate so that over the 12 rounds every tensor meets every combination
                sel = {"A": combos[r], "B": combos[(r + 4) % 12], "Z": combos[(r + 8) % 12]}
                place = {}
                for t in TENSORS:
                    in_toll, in_buf, _ = sel[t]
                    place[t] = {"Main": 0}
                    if in_toll:
                        place[t]["G1"] = len(l0)
                    if in_buf:
                        place[t]["Buf"] = len(l0) + len(l1)
                direction = {t: sel[t][2] for t in TENSORS}
                arch = _arch("one", [direction], [scales[(r + k) % 5]])
                yield {"workload": "matmul", "bounds": {"m": 2, "k": 2, "n": 2}, "bits": {"A": 8, "B": 8, "Z": 8}, "arch": arch,
                       "mapping": _emit(arch, loops, place)}


def _rand_direction(rnd):
    r = rnd.random()
    if r < 0.35:
        return rnd.choice(DIRS)
    if r < 0.7:
        return {t: rnd.choice(DIRS) for t in TENSORS}
    if r < 0.85:
        return {"Inputs": rnd.choice(DIRS), "Outputs": rnd.choice(DIRS)}
    return {"A | Z": rnd.choice(DIRS), "B": rnd.choice(DIRS)}


def _rand_scale(rnd, bits):
    r = rnd.random()
    if r < 0.3:
        return None
    if r < 0.5:
        return {"kind": "vpa", "values": {t: rnd.choice([1, 2, 3, 4, 8]) for t in TENSORS}}
    if r < 0.65:
        return {"kind": "action_vpa", "values": {t: rnd.choice([1, 2, 5]) for t in TENSORS}}
    if r < 0.85:
        return {"kind": "bpa", "bits": rnd.choice([4, 8, 16, 64])}
    return {"kind": "action_bpa", "bits": rnd.choice([2, 8, 32])}


def _rand_case(rnd, tier):
    wl = rnd.choice(["matmul", "matmul", "matvec", "outer"])
    tens, out = WORKLOADS[wl]
    vs = _vars_of({t: tens[t] for t in TENSORS})
    bmax = 4 if tier == "quick" else 5
    bounds = {v: rnd.choice([1, 2, 2, 3, 3, 4, bmax]) for v in vs}
    bits = {t: rnd.choice([8, 8, 4, 16]) for t in TENSORS}
    kind = rnd.choice(["one", "one", "stacked", "three"])
    ntoll = 1 if kind == "one" else 2
    skip = [x for x in ("Buf", "MAC", "Mid") if rnd.random() < 0.15]
    arch = _arch(kind, [_rand_direction(rnd) for _ in range(ntoll)], [_rand_scale(rnd, bits) for _ in range(ntoll)], skip)
    # loop chains: per variable decreasing tile shapes ending with 1
    chains = {}
    for v in vs:
        e, chain = bounds[v], []
        while e > 1 and len(chain) < 2 and rnd.random() < 0.55:
            # t == e: a loop with a single iteration; t not dividing e: uneven tiles
            t = rnd.choice([d for d in range(2, e + 1) if e % d == 0]) if rnd.random() < 0.6 else rnd.randint(2, e)
            chain.append(t)
            e = t
        if bounds[v] > 1 or rnd.random() < 0.3:
            chain.append(1)
        chains[v] = chain
    loops = []
    pending = {v: list(c) for v, c in chains.items() if c}
    while pending:
        v = rnd.choice(sorted(pending))
        loops.append((v, pending[v].pop(0)))
        if not pending[v]:
            del pending[v]
    n = len(loops)
    place = {}
    for t in TENSORS:
        place[t] = {"Main": 0}
        pos = 0
        for c in arch[1:-1]:
            p_hold = 0.8 if c["kind"] == "Toll" else 0.7
            if rnd.random() < p_hold:
                pos = rnd.randint(pos, n) if rnd.random() < 0.8 else pos
                place[t][c["name"]] = pos
    return {"workload": wl, "bounds": bounds, "bits": bits, "arch": arch, "mapping": _emit(arch, loops, place, rnd)}


def _has_toll_node(case):
    return any(n[0] == "P" for n in case["mapping"])


def _sample_text(case):
    def nd(n):
        if n[0] == "T":
            return f"{n[1]}:{n[2]}"
        if n[0] == "C":
            return "MAC"
        return f"{n[1]}[{''.join(n[2])}]"
    tolls = "; ".join(f"{c['name']} {c['direction']} {(c.get('scale') or {}).get('kind', 'bit/action')}" for c in case["arch"] if c["kind"] == "Toll")
    return f"{case['workload']} {case['bounds']} bits {case['bits']} | {' > '.join(nd(n) for n in case['mapping'])} | {tolls}"


# ------------------------------------------------------------------------------------ holder part (evaluate_mapping, two Einsums)

def _two_einsum_text(variant, toll_dir="up_and_down"):
    """Two matmuls E1: T1[m,n] = T0[m,k] W0[k,n]; E2: T2[m,p] = T1[m,n] W1[n,p] on Main / G1 / Buf / MAC.
    variant: where the Toll node of the shared tensor T1 sits relative to its Memory holders."""
    arch = [{"kind": "Memory", "name": "Main"}, {"kind": "Toll", "name": "G1", "direction": toll_dir}, {"kind": "Memory", "name": "Buf"}, {"kind": "Compute", "name": "MAC"}]
    e1 = [["S", "Buf", ["T0", "W0"]], ["T", "m", 1], ["T", "k", 1], ["T", "n", 1], ["C", "MAC", "E1"]]
    e2 = [["S", "Buf", ["W1", "T2"]], ["T", "m", 1], ["T", "n", 1], ["T", "p", 1], ["C", "MAC", "E2"]]
    top = {
        # bad: the Toll is the first holder of T1
        "bad_toll_then_buf": [["S", "Main", ["T0", "W0", "W1", "T2"]], ["P", "G1", ["T1"]], ["S", "Buf", ["T1"]]],
        "bad_toll_all": [["S", "Main", ["T0", "W0", "W1", "T2"]], ["P", "G1", ["T0", "T1", "T2"]], ["S", "Buf", ["T1"]]],
        "bad_toll_first": [["P", "G1", ["T1"]], ["S", "Main", ["T0", "W0", "W1", "T2"]], ["S", "Buf", ["T1"]]],
        "bad_toll_only": [["S", "Main", ["T0", "W0", "W1", "T2"]], ["P", "G1", ["T1"]]],
        # good: a Memory holds T1 above the Toll / no Toll node for T1
        "good_main_above": [["S", "Main", ["T0", "W0", "W1", "T2", "T1"]], ["P", "G1", ["T1"]], ["S", "Buf", ["T1"]]],
        "good_main_above_all": [["S", "Main", ["T0", "W0", "W1", "T2", "T1"]], ["P", "G1", ["T0", "T1", "T2"]], ["S", "Buf", ["T1"]]],
        "good_no_toll_node": [["S", "Main", ["T0", "W0", "W1", "T2"]], ["P", "G1", ["T0", "T2"]], ["S", "Buf", ["T1"]]],
    }[variant]
    lines = _arch_yaml(arch)
    lines += _workload_yaml([("E1", {"T0": ["m", "k"], "W0": ["k", "n"], "T1": ["m", "n"]}, "T1"), ("E2", {"T1": ["m", "n"], "W1": ["n", "p"], "T2": ["m", "p"]}, "T2")],
                            {"m": 2, "k": 2, "n": 2, "p": 2}, {"All": 8})
    lines += ["mapping:", "  nodes:"]
    for n in top + [["SEQ", [e1, e2]]]:
        lines += _node_yaml(n)
    return "\n".join(lines) + "\n", arch


HOLDER_VARIANTS = ["bad_toll_then_buf", "bad_toll_all", "bad_toll_first", "bad_toll_only", "good_main_above", "good_main_above_all", "good_no_toll_node"]


def _first_holder_is_toll(nodes, tensor, toll_names):
    """nodes: real mapping nodes (flat).  True if the first tensor holder of `tensor` is a Toll."""
    for n in nodes:
        cls = type(n).__name__
        if cls in ("Storage", "Toll") and tensor in [str(t) for t in n.tensors]:
            return cls == "Toll" or str(n.component) in toll_names
    return False


def _check_holder_variant(variant, toll_dir):
    text, arch = _two_einsum_text(variant, toll_dir)
    inp = {"two_einsum_mapping": variant, "toll_direction": toll_dir}
    try:
        row, stats, res = _evaluate(text)
    except Exception as ex:
        if variant.startswith("bad"):
            return None
        return {"failed": True, "input": inp, "observed": f"{type(ex).__name__}: {str(ex)[:300]}", "required": "a result (a Memory holds the shared tensor above the Toll)",
                "what": "evaluate_mapping rejected a mapping in which the Toll is not the outermost holder"}
    if variant.startswith("bad"):
        return {"failed": True, "input": inp, "observed": "evaluate_mapping returned a result", "required": "no returned mapping has a Toll as the outermost holder of the shared tensor T1",
                "what": "a mapping whose outermost holder of a shared tensor is a Toll was returned"}
    # good variants: also no write actions / occupancy for the Toll
    for c, v in row.items():
        parts = c.split(SEP)
        if "G1" in parts and ((("usage" in parts and "memory" in parts) or parts[0] == "reservation") or ("action" in parts and parts[-1] != "read")):
            if not _close(_num(v), 0):
                return {"failed": True, "input": inp, "observed": {c: _num(v)}, "required": 0, "what": "Toll occupancy / non-read action in a two-Einsum mapping"}
    for (level, tensor, occ, wr, netwr, netrd) in stats:
        if level == "G1" and not (_close(occ, 0) and _close(wr, 0)):
            return {"failed": True, "input": inp, "observed": {"max_occupancy": occ, "total_write_actions": wr}, "required": 0, "what": "Toll buffet statistics in a two-Einsum mapping"}
    return None


# ------------------------------------------------------------------------------------ mapper part

MAPPER_WORKLOADS = {
    "two_matmuls": [("E1", {"T0": ["m", "k"], "W0": ["k", "n"], "T1": ["m", "n"]}, "T1"), ("E2", {"T1": ["m", "n"], "W1": ["n", "p"], "T2": ["m", "p"]}, "T2")],
    "matmul_then_scale": [("E1", {"T0": ["m", "k"], "W0": ["k", "n"], "T1": ["m", "n"]}, "T1"), ("E2", {"T1": ["m", "n"], "W1": ["n"], "T2": ["m", "n"]}, "T2")],
    "three_matmuls": [("E1", {"T0": ["m", "k"], "W0": ["k", "n"], "T1": ["m", "n"]}, "T1"), ("E2", {"T1": ["m", "n"], "W1": ["n", "p"], "T2": ["m", "p"]}, "T2"),
                      ("E3", {"T2": ["m", "p"], "W2": ["p", "q"], "T3": ["m", "q"]}, "T3")],
}

MAPPER_WORKLOADS["one_matmul"] = [("E1", {"T0": ["m", "k"], "W0": ["k", "n"], "T1": ["m", "n"]}, "T1")]
MAPPER_WORKLOADS["one_matvec"] = [("E1", {"T0": ["m", "k"], "W0": ["k"], "T1": ["m"]}, "T1")]

MAPPER_ARCHS = {
    # name: list of components (tensors = the keep / may_keep text)
    "may_keep_main": [("Memory", "Main", "{keep: ~Intermediates, may_keep: All}"), ("Toll", "G1", "{keep: All}"), ("Memory", "Buf", "{keep: All}")],
    "no_intermediates_in_main": [("Memory", "Main", "{keep: ~Intermediates}"), ("Toll", "G1", "{keep: All}"), ("Memory", "Buf", "{keep: All}")],
    "toll_keeps_intermediates": [("Memory", "Main", "{keep: ~Intermediates, may_keep: All}"), ("Toll", "G1", "{keep: Intermediates, may_keep: All}"), ("Memory", "Buf", "{keep: All}")],
    "toll_may_keep": [("Memory", "Main", "{keep: All}"), ("Toll", "G1", "{may_keep: All}"), ("Memory", "Buf", "{keep: All}")],
    "two_tolls": [("Memory", "Main", "{keep: ~Intermediates, may_keep: All}"), ("Toll", "G1", "{keep: All}"), ("Toll", "G2", "{keep: All}"), ("Memory", "Buf", "{keep: All}")],
    "toll_under_buf": [("Memory", "Main", "{keep: ~Intermediates, may_keep: All}"), ("Memory", "Buf", "{keep: All}"), ("Toll", "G1", "{keep: All}")],
    "buf_refuses_intermediates": [("Memory", "Main", "{keep: All}"), ("Toll", "G1", "{keep: All}"), ("Memory", "Buf", "{keep: ~Intermediates}")],
    # no Memory may hold the shared tensor: the Toll is the only candidate holder, so no mapping may be returned at all
    "only_toll_may_hold": [("Memory", "Main", "{keep: ~Intermediates}"), ("Toll", "G1", "{keep: All}"), ("Memory", "Buf", "{keep: ~Intermediates}")],
    "three_levels": [("Memory", "Main", "{keep: ~Intermediates, may_keep: All}"), ("Toll", "G1", "{keep: All}"), ("Memory", "Mid", "{may_keep: All}"), ("Toll", "G2", "{keep: All}"),
                     ("Memory", "Buf", "{keep: All}")],
    # a Toll below (at least) two memory levels: used by the template-level part
    "toll_below_two": [("Memory", "Main", "{keep: ~Intermediates, may_keep: All}"), ("Memory", "Mid", "{may_keep: All}"), ("Toll", "G1", "{keep: All}"), ("Memory", "Buf", "{keep: All}")],
    "toll_below_two_keep": [("Memory", "Main", "{keep: ~Intermediates, may_keep: All}"), ("Memory", "Mid", "{keep: All}"), ("Toll", "G1", "{keep: All}"), ("Memory", "Buf", "{may_keep: All}")],
    "may_toll_below_two": [("Memory", "Main", "{keep: ~Intermediates, may_keep: All}"), ("Memory", "Mid", "{may_keep: All}"), ("Toll", "G1", "{may_keep: All}"), ("Memory", "Buf", "{keep: All}")],
    "two_tolls_below_two": [("Memory", "Main", "{keep: ~Intermediates, may_keep: All}"), ("Memory", "Mid", "{may_keep: All}"), ("Toll", "G1", "{keep: Inputs}"), ("Toll", "G2", "{keep: Outputs | Intermediates}"),
                            ("Memory", "Buf", "{keep: All}")],
    "loose_mid": [("Memory", "Main", "{keep: ~Intermediates, may_keep: All}"), ("Memory", "Mid", "{may_keep: All, force_memory_hierarchy_order: false}"), ("Toll", "G1", "{keep: All}"),
                  ("Memory", "Buf", "{keep: All, force_memory_hierarchy_order: false}")],
}

# mapper settings that change how storage / Toll nodes are ordered and which templates exist (accelforge/frontend/mapper/ffm.py)
MAPPER_OPTION_SETS = [
    {},
    {"force_memory_hierarchy_order": False},
    {"_can_lower_outermost_memory": True},
    {"force_memory_hierarchy_order": False, "_can_lower_outermost_memory": True},
    {"prioritize_reuse_of_unfused_tensors": True},
    {"force_memory_hierarchy_order": False, "prioritize_reuse_of_unfused_tensors": True},
    {"explore_loop_orders": False},
    {"_timeloop_style_even": True},
    {"_let_non_intermediate_tensors_respawn_in_backing_storage": True, "force_memory_hierarchy_order": False},
    {"max_fused_loops": 0, "force_memory_hierarchy_order": False},
]


def _mapper_case(rnd, tier, idx):
    quick = tier == "quick"
    archs = ["buf_refuses_intermediates", "may_keep_main", "only_toll_may_hold", "no_intermediates_in_main", "toll_keeps_intermediates", "two_tolls", "toll_may_keep", "toll_under_buf",
             "three_levels"]
    wls = ["two_matmuls", "matmul_then_scale"] + ([] if quick else ["three_matmuls"])
    an = archs[idx % len(archs)] if idx < len(archs) else rnd.choice(archs)
    wn = wls[idx % len(wls)] if idx < 2 * len(wls) else rnd.choice(wls)
    if an == "three_levels" and wn == "three_matmuls":
        wn = "two_matmuls"
    sizes = [1, 2, 2, 3] if quick else [1, 2, 2, 3, 4]
    vs = []
    for _, tens, _ in MAPPER_WORKLOADS[wn]:
        for v in _vars_of(tens):
            if v not in vs:
                vs.append(v)
    bounds = {v: rnd.choice(sizes) for v in vs}
    if wn == "three_matmuls":
        bounds = {v: min(b, 2) for v, b in bounds.items()}
    arch = []
    for kind, name, tensors in MAPPER_ARCHS[an]:
        c = {"kind": kind, "name": name, "tensors": tensors}
        if kind == "Toll":
            c["direction"] = rnd.choice(["up", "down", "up_and_down", "up_and_down", {"Inputs": rnd.choice(DIRS), "Outputs": rnd.choice(DIRS)}])
            c["energy"] = rnd.choice([0, 1, 50])
            sc = rnd.choice([None, None, {"kind": "bpa", "bits": 16}, {"kind": "action_bpa", "bits": 4}])
            if sc:
                c["scale"] = sc
        else:
            c["energy"] = 10 if name == "Main" else 1
            if name in ("Buf", "Mid"):
                c["size"] = rnd.choice([8192, 8192, 96, 64])
        arch.append(c)
    arch.append({"kind": "Compute", "name": "MAC"})
    metrics = rnd.choice(["ENERGY", "ENERGY|LATENCY", "ENERGY|LATENCY"])
    return {"mapper": True, "arch_name": an, "workload_name": wn, "bounds": bounds, "bits": 8, "arch": arch, "metrics": metrics}


def _fixed_mapper_case(rnd, an, wn, bounds, options, template):
    """A mapper case on architecture `an` with mapper settings `options`; template: None (whole mapper) or the value of the
    private setting spec.mapper._only_output_pmapping_with_index (one pmapping template per Einsum)."""
    arch = []
    for kind, name, tensors in MAPPER_ARCHS[an]:
        c = {"kind": kind, "name": name, "tensors": tensors}
        if kind == "Toll":
            c["direction"] = rnd.choice(["up", "down", "up_and_down", "up_and_down", {"Inputs": rnd.choice(DIRS), "Outputs": rnd.choice(DIRS)}])
            c["energy"] = rnd.choice([1, 50])
            sc = rnd.choice([None, None, {"kind": "bpa", "bits": 16}, {"kind": "action_bpa", "bits": 4}])
            if sc:
                c["scale"] = sc
        else:
            c["energy"] = 10 if name == "Main" else 1
        arch.append(c)
    arch.append({"kind": "Compute", "name": "MAC"})
    return {"mapper": True, "arch_name": an, "workload_name": wn, "bounds": dict(bounds), "bits": 8, "arch": arch, "metrics": "ENERGY", "options": dict(options), "template": template}


def _workload_vars(wn):
    vs = []
    for _, tens, _ in MAPPER_WORKLOADS[wn]:
        for v in _vars_of(tens):
            if v not in vs:
                vs.append(v)
    return vs


# whole-mapper runs with the settings that change the storage / Toll node order (two-level architectures: a run takes seconds)
OPTION_RUN_ARCHS = ["may_keep_main", "two_tolls", "toll_under_buf", "toll_keeps_intermediates", "no_intermediates_in_main", "toll_may_keep"]
QUICK_OPTION_SETS = [1, 4, 8, 5, 6, 7, 9]  # indices into MAPPER_OPTION_SETS that are cheap on two Einsums


def _option_cases(rnd, tier):
    n = 4 if tier == "quick" else 20
    start = rnd.randrange(100)
    for k in range(n):
        an = OPTION_RUN_ARCHS[(start + k) % len(OPTION_RUN_ARCHS)]
        wn = ["two_matmuls", "matmul_then_scale"][(start + k) % 2]
        oi = QUICK_OPTION_SETS[(start // 2 + k) % len(QUICK_OPTION_SETS)]
        opts = MAPPER_OPTION_SETS[oi]
        if tier != "quick" and k % 10 == 9:
            an, wn, opts = "toll_under_buf", "matmul_then_scale", MAPPER_OPTION_SETS[3]  # also lowers the outermost memory (slow elsewhere)
        bounds = {v: rnd.choice([1, 2, 2] if tier == "quick" else [1, 2, 2, 3]) for v in _workload_vars(wn)}
        yield _fixed_mapper_case(rnd, an, wn, bounds, opts, None)


# template-level part: (architecture with a Toll below at least two Memories, single-Einsum workload, mapper settings,
# number of pmapping templates seen on the unchanged tree (only used to spread the quick sample), quick sample size)
# and the stride of the thorough sweep (1: every template)
TEMPLATE_SWEEPS = [
    ("toll_below_two", "one_matvec", {"force_memory_hierarchy_order": False}, 90, 6, 2),
    ("two_tolls_below_two", "one_matvec", {"force_memory_hierarchy_order": False}, 90, 3, 3),
    ("loose_mid", "one_matmul", {}, 90, 3, 4),
    ("three_levels", "one_matvec", {}, 66, 2, 4),
    ("may_toll_below_two", "one_matvec", {"force_memory_hierarchy_order": False}, 720, 0, 36),
    ("toll_below_two_keep", "one_matvec", {"force_memory_hierarchy_order": False}, 222, 0, 12),
    ("toll_below_two", "one_matvec", {"force_memory_hierarchy_order": False, "_can_lower_outermost_memory": True}, 800, 0, 200),  # ~10 s per template
]
TEMPLATE_LIMIT = 800  # a sweep stops at the first index for which nothing is returned, at the latest here


def _template_indices(rnd, tier, n_est, n_quick, k):
    if tier != "quick":
        return None  # the whole range (with the stride of the sweep)
    if n_quick == 0:
        return []
    # spread over the range, the upper third (where the node orders differ most from the architecture order) twice as dense
    lo = [rnd.randrange(0, max(1, 2 * n_est // 3)) for _ in range(n_quick - (n_quick + 1) // 2)]
    hi = [rnd.randrange(2 * n_est // 3, n_est) for _ in range((n_quick + 1) // 2)]
    return sorted(set(lo + hi))


def _flat_nodes(real_nodes):
    """Real mapping nodes of one Einsum -> the flat form used by the walk (reservations dropped)."""
    mp = []
    for n in real_nodes:
        cls = type(n).__name__
        if cls == "Storage":
            mp.append(["S", str(n.component), [str(t) for t in n.tensors]])
        elif cls == "Toll":
            mp.append(["P", str(n.component), [str(t) for t in n.tensors]])
        elif cls == "Temporal":
            try:
                ts = float(n.tile_shape)
            except Exception:
                return None
            if ts != int(ts) or ts < 1 or getattr(n, "initial_tile_shape", None) is not None:
                return None  # symbolic / fractional / shifted first tile: not walked
            mp.append(["T", str(n.rank_variable), int(ts)])
        elif cls == "Compute":
            mp.append(["C", str(n.component), str(n.einsum)])
        elif cls == "Reservation":
            continue
        else:
            return None  # spatial loops etc.: not walked
    return mp


def _toll_order_violation(nodes, arch):
    """nodes: real mapping nodes of one Einsum.  A Toll node of tensor T must sit below every Storage / Toll node of T whose
    component is above the Toll in the architecture, and above every Storage / Toll node of T whose component is below it
    (the Toll is crossed on the way between the level above and the level below).  -> text of the first violation or None."""
    idx = {c["name"]: i for i, c in enumerate(arch)}
    holders = []
    for pos, n in enumerate(nodes):
        cls = type(n).__name__
        if cls in ("Storage", "Toll"):
            holders.append((pos, cls, str(n.component), [str(t) for t in n.tensors]))
    for pos, cls, comp, tensors in holders:
        if cls != "Toll":
            continue
        for t in tensors:
            for pos2, cls2, comp2, tensors2 in holders:
                if pos2 == pos or t not in tensors2 or comp2 == comp:
                    continue
                if idx[comp2] < idx[comp] and pos2 > pos:
                    return f"Toll node [{t} in {comp}] (node {pos}) is above [{t} in {comp2}] (node {pos2}) although {comp2} is above {comp} in the architecture"
                if idx[comp2] > idx[comp] and pos2 < pos:
                    return f"Toll node [{t} in {comp}] (node {pos}) is below [{t} in {comp2}] (node {pos2}) although {comp2} is below {comp} in the architecture"
    return None


def _toll_holds_what_it_must(nodes, case, einsum_tensors, out, shared):
    """A Toll whose `tensors` text is exactly {keep: All} must have a node for every tensor of the Einsum that a Memory above
    it holds (all of them reach the compute through it); a tensor that no Memory above it holds cannot have the Toll as its
    first holder and has no Toll node.  -> text or None."""
    held = {}
    for n in nodes:
        if type(n).__name__ == "Toll":
            held.setdefault(str(n.component), set()).update(str(t) for t in n.tensors)
    idx = {c["name"]: i for i, c in enumerate(case["arch"])}
    above = {}
    for n in nodes:
        if type(n).__name__ == "Storage":
            for t in n.tensors:
                above.setdefault(str(t), set()).add(str(n.component))
    for c in case["arch"]:
        if c["kind"] != "Toll" or c.get("tensors", "{keep: All}") != "{keep: All}":
            continue
        for t in einsum_tensors:
            if t in held.get(c["name"], set()):
                continue
            if not any(idx[m] < idx[c["name"]] for m in above.get(t, ())):
                continue  # no Memory above the Toll holds the tensor: the Toll cannot be its first holder, so it has no node for it
            return f"Toll {c['name']} (keep: All) has no node for tensor {t}"
    return None


def _check_mapper_case(case):
    """-> (failure or None, number of returned mappings, number of (Einsum, Toll, tensor) read counts compared)"""
    from accelforge.frontend.mapper.metrics import Metrics

    _single_process()
    einsums = MAPPER_WORKLOADS[case["workload_name"]]
    text = "\n".join(_arch_yaml(case["arch"]) + _workload_yaml(einsums, case["bounds"], {"All": case["bits"]})) + "\n"
    toll_names = [c["name"] for c in case["arch"] if c["kind"] == "Toll"]
    used = {}
    for _, tens, _ in einsums:
        for t in tens:
            used[t] = used.get(t, 0) + 1
    shared = sorted(t for t, k in used.items() if k > 1)

    def fail(obs, reqd, what):
        return {"failed": True, "input": case, "observed": obs, "required": reqd, "what": what}

    spec = _spec_from_text(text)
    m = Metrics.ENERGY
    if "LATENCY" in case["metrics"]:
        m = m | Metrics.LATENCY
    spec.mapper.metrics = m
    for k, v in (case.get("options") or {}).items():
        if not hasattr(spec.mapper, k):
            raise AttributeError(f"mapper setting {k} does not exist")
        setattr(spec.mapper, k, v)
    if case.get("template") is not None:
        spec.mapper._only_output_pmapping_with_index = case["template"]
    try:
        res = spec.map_workload_to_arch(print_progress=False)
    except Exception as ex:
        if case["arch_name"] == "only_toll_may_hold":
            return None, 0, 0  # nothing is returned, which is what the rule asks for here
        if case.get("template") is not None and isinstance(ex, ValueError) and "No pmappings" in str(ex):
            return None, -1, 0  # no template with this index (or it has no valid tile shape): nothing is returned
        return fail(f"{type(ex).__name__}: {str(ex)[:300]}", "mappings, none of which has a Toll as the outermost holder of a shared tensor",
                    "map_workload_to_arch raised on a small valid spec with a Toll"), 0, 0
    data = res.data
    compared = 0
    for ri in range(len(data)):
        row = {c: data.iloc[ri][c] for c in data.columns}
        for name, tens, out in einsums:
            mo = row.get(f"{name}{SEP}mapping")
            if mo is None:
                continue
            nodes = list(mo.nodes)
            for t in shared:
                if t in tens and _first_holder_is_toll(nodes, t, toll_names):
                    return fail(f"row {ri}, Einsum {name}: first holder of {t} is a Toll: " + " > ".join(n.compact_str() for n in nodes if type(n).__name__ != "Reservation"),
                                f"the first holder of the shared tensor {t} is a Memory", "outermost holder of a shared tensor in a mapping returned by the mapper"), len(data), compared
            text = " > ".join(n.compact_str() for n in nodes if type(n).__name__ != "Reservation")
            bad_order = _toll_order_violation(nodes, case["arch"])
            if bad_order:
                return fail(f"row {ri}, Einsum {name}: {bad_order}: {text}", "every Toll node of a tensor sits between the holders of that tensor above and below it in the architecture",
                            "position of a Toll node in a mapping returned by the mapper"), len(data), compared
            missing = _toll_holds_what_it_must(nodes, case, list(tens), out, shared)
            if missing:
                return fail(f"row {ri}, Einsum {name}: {missing}: {text}", "a Toll that keeps All is crossed by (has a node for) every tensor of the Einsum",
                            "a tensor bypasses a Toll that must keep it in a mapping returned by the mapper"), len(data), compared
            mp = _flat_nodes(nodes)
            if mp is None:
                continue
            bits = {t: case["bits"] for t in tens}
            req = _required_reads(tens, out, case["bounds"], bits, case["arch"], mp)
            bad = _check_row({c: v for c, v in row.items() if c.startswith(name + SEP) or c.split(SEP)[0] in ("reservation", "usage")}, [], req, toll_names, name,
                             lambda o, r, w: fail(o, r, w + f" | returned mapping row {ri}: " + " > ".join(n.compact_str() for n in nodes if type(n).__name__ != "Reservation")))
            if bad:
                return bad, len(data), compared
            compared += sum(1 for v in req.values() if v is not None)
    return None, len(data), compared


# ------------------------------------------------------------------------------------ entry points

def _sweep(p, tier, n_random, n_mapper):
    seed = int(p.get("seed", 0))
    # p["known"]: no input class of this property is recorded as a known finding (CLASSES is empty)
    rnd = random.Random(seed * 1000003 + (17 if tier == "quick" else 29))
    seen, samples = set(), []
    st = {"evaluations": 0, "rejected": 0, "core": 0, "random": 0, "holder": 0, "mapper_calls": 0, "mapper_rows": 0, "mapper_reads_compared": 0, "toll_tensor_checks": 0,
          "nonzero_required": 0, "zero_required": 0, "outside_family": 0, "compared_without_toll": 0, "option_calls": 0, "template_calls": 0, "template_rows": 0, "template_reads_compared": 0,
          "template_none": 0}

    def counters():
        return {"evaluations": st["evaluations"], "distinct": len(seen), "known_finding_hits": 0, "stats": dict(st)}

    def run(case, kind):
        key = repr(case)
        if key in seen:
            return None
        bad, status = _check(case)
        if status == "rejected":
            st["rejected"] += 1
            return None
        seen.add(key)
        st["evaluations"] += 1
        st[kind] += 1
        req = _required(case)
        st["toll_tensor_checks"] += len(req)
        st["nonzero_required"] += sum(1 for v in req.values() if v is not None and v != 0)
        st["zero_required"] += sum(1 for v in req.values() if v is not None and v == 0)
        st["outside_family"] += sum(1 for v in req.values() if v is None)
        st["compared_without_toll"] += 1 if _tolls_sit_on_holders(case["mapping"]) else 0
        if bad:
            bad.update(counters())
        return bad

    # 1. two-Einsum mappings: outermost holder rule at evaluate_mapping
    for variant in HOLDER_VARIANTS:
        for d in (("up_and_down",) if tier == "quick" else DIRS):
            bad = _check_holder_variant(variant, d)
            st["holder"] += 1
            st["evaluations"] += 1
            seen.add(("holder", variant, d))
            if bad:
                bad.update(counters())
                return bad

    # 2. exhaustive core
    for case in _core_cases(tier):
        bad = run(case, "core")
        if bad:
            return bad

    # 3. mapper
    for i in range(n_mapper):
        mc = _mapper_case(rnd, tier, i)
        bad, rows, compared = _check_mapper_case(mc)
        st["mapper_calls"] += 1
        st["mapper_rows"] += rows
        st["mapper_reads_compared"] += compared
        st["evaluations"] += 1
        seen.add(repr(mc))
        if len(samples) < 2:
            samples.append(f"mapper: {mc['workload_name']} {mc['bounds']} on {mc['arch_name']} ({rows} mappings returned)")
        if bad:
            bad.update(counters())
            return bad

    # 3b. mapper with the settings that change the order of storage / Toll nodes
    rnd2 = random.Random(seed * 7919 + (41 if tier == "quick" else 43))  # (own stream: the other parts see the same inputs as before)
    for mc in _option_cases(rnd2, tier):
        bad, rows, compared = _check_mapper_case(mc)
        st["option_calls"] += 1
        st["mapper_rows"] += max(rows, 0)
        st["mapper_reads_compared"] += compared
        st["evaluations"] += 1
        seen.add(repr(mc))
        if st["option_calls"] <= 1:
            samples.append(f"mapper {mc['options']}: {mc['workload_name']} {mc['bounds']} on {mc['arch_name']} ({rows} mappings returned)")
        if bad:
            bad.update(counters())
            return bad

    # 3c. template level: one pmapping template at a time (spec.mapper._only_output_pmapping_with_index)
    for k, (an, wn, opts, n_est, n_quick, stride) in enumerate(TEMPLATE_SWEEPS):
        idxs = _template_indices(rnd2, tier, n_est, n_quick, k)
        bounds = {v: 2 for v in _workload_vars(wn)}
        it = range((seed + k) % stride, TEMPLATE_LIMIT, stride) if idxs is None else idxs
        done = 0
        for i in it:
            mc = _fixed_mapper_case(rnd2, an, wn, bounds, opts, i)
            bad, rows, compared = _check_mapper_case(mc)
            if rows == -1:
                st["template_none"] += 1
                if idxs is None:
                    break
                continue
            done += 1
            st["template_calls"] += 1
            st["template_rows"] += rows
            st["template_reads_compared"] += compared
            st["evaluations"] += 1
            seen.add(repr(mc))
            if bad:
                bad.update(counters())
                return bad
        if done and len(samples) < 8:
            samples.append(f"templates {an} / {wn} / {opts}: {done} template(s) evaluated one at a time" + ("" if idxs is not None else f" (every {stride}. up to the last)"))

    # 4. seeded random mappings
    for i in range(n_random):
        case = _rand_case(rnd, tier)
        if not _has_toll_node(case):
            continue
        bad = run(case, "random")
        if bad:
            return bad
        if len(samples) < 8 and i % 7 == 0:
            samples.append(_sample_text(case))

    bmax = 4 if tier == "quick" else 5
    rule = (
        "REAL: Spec.evaluate_mapping (metrics ENERGY|LATENCY|ACTIONS|DETAILED_MEMORY_USAGE) on generated single-Einsum specs (Main > Toll(s) > [Mid >] Buf > MAC) and "
        "Spec.map_workload_to_arch on tiny 2-3 Einsum chains on nine Toll architectures; the per-tensor action columns, usage / reservation columns and the buffet statistics "
        "that run_model works with are read off. REQUIRED (computed here by walking the loop nest with explicit coordinate sets): Toll read actions == values crossing it in "
        "the configured direction(s) / values-per-action (down: the tile of the holder below is fetched on every iteration of the loops above that holder, for the output only "
        "coordinates already fetched before unless skip_initial_output_write is false; up: the output tile is written back on every iteration), 0 for tensors the Toll node does "
        "not hold or directions not configured; Toll write actions == 0, Toll occupancy / reservation == 0, Memory usage / reservation columns identical to the same mapping "
        "evaluated without the Toll; a mapping whose first holder of a shared tensor is a Toll is never returned (evaluate_mapping must refuse the four hand-written bad "
        "two-Einsum mappings and accept the three good ones; every Einsum mapping of every row returned by the mapper is inspected, and its Toll read actions are compared with "
        f"the walk of that returned mapping). This run: {st['holder']} two-Einsum mappings, {st['core']} core + {st['random']} random model mappings ({st['rejected']} generated "
        f"mappings rejected by evaluate_mapping with and without the Toll and not counted), {st['nonzero_required'] + st['zero_required']} (Toll, tensor) read counts compared "
        f"({st['nonzero_required']} non-zero, {st['zero_required']} zero), {st['mapper_calls']} + {st['option_calls']} mapper calls returning {st['mapper_rows']} mappings with "
        f"{st['mapper_reads_compared']} (Einsum, Toll, tensor) read counts compared (the {st['option_calls']} further calls with mapper settings that change the order of storage / Toll nodes: "
        "force_memory_hierarchy_order off (globally / per component), prioritize_reuse_of_unfused_tensors, _let_non_intermediate_tensors_respawn_in_backing_storage, explore_loop_orders off, "
        "_timeloop_style_even, max_fused_loops 0" + ("" if tier == "quick" else ", _can_lower_outermost_memory") + "). "
        f"TEMPLATE LEVEL: {st['template_calls']} single pmapping templates (spec.mapper._only_output_pmapping_with_index = i, so that a template cannot lose against a better one) of a 2x2(x2) "
        "matvec / matmul on architectures with a Toll below two Memories (Main > Mid > Toll(s) > Buf, Main > Toll > Mid > Toll > Buf), mostly with force_memory_hierarchy_order off, "
        f"returning {st['template_rows']} mappings with {st['template_reads_compared']} (Toll, tensor) read counts compared"
        + (" (every 2nd to 4th template of four sweeps, every 12th to 200th of three more; the offset depends on the seed)" if tier != "quick" else " (a seeded sample of the templates)") + ". "
        "In EVERY mapping returned by the mapper, additionally: every Toll node of a tensor sits below all holders of that tensor that are above the Toll in the architecture and above all "
        "holders of it that are below, and a Toll declared {keep: All} has a node for every tensor that a Memory above it holds. "
        f"excluded: {st['outside_family']} (Toll, tensor) read counts whose loop nest above the holder below the Toll has an uneven tile together with another loop over the same "
        "variable (the model's iteration counts for such nests are approximate for every holder, with or without a Toll; write actions and occupancy are still checked there). "
        f"The comparison of the Memory usage columns with the Toll-free mapping was made for the {st['compared_without_toll']} model mappings in which every Toll node sits directly "
        "above a Storage node or the Compute (a Toll node directly above a loop ends the lowering of the reservations of the Storage nodes above it exactly as a Storage node would, "
        "so the node order, not the Toll, decides there)."
    )
    return {
        "failed": False, **counters(), "rule": rule,
        "bound": (f"single Einsum (matmul / matvec / outer product), rank-variable bounds 1..{bmax}, <= 2 extra tile levels per variable (even, uneven and single-iteration tiles), "
                  "1-2 Tolls (one; two stacked; Toll-Memory-Toll), per-tensor holder choice and position, directions up/down/up_and_down as string or per-tensor dictionary, "
                  "values-per-action given as values_per_action / bits_per_action on the component or on the action or left at the default, bits per value 4/8/16; "
                  "mapper: 2-3 Einsum chains with bounds <= " + ("3" if tier == "quick" else "4") + ", no spatial fan-out; mapper settings from a list of 10 combinations; template level: "
                  "single Einsum, all bounds 2, " + ("a seeded sample of 14 template indices over 4 (architecture, settings) pairs" if tier == "quick" else "every 2nd-4th template of 4 (architecture, settings) pairs and every 12th-200th of 3 more")),
        "exhaustive": True, "samples": samples,
        "assumptions": ["single-variable rank projections only (tiles are equal or disjoint, no sliding windows)", "no spatial fan-out between the Memories"],
    }


def bounded(p):
    tier = p.get("tier", "quick")
    if tier not in ("quick", "thorough"):
        tier = "quick"
    if tier == "quick":
        return _sweep(p, "quick", n_random=110, n_mapper=2)
    return _sweep(p, "thorough", n_random=4000, n_mapper=24)


def crosscheck(p):
    q = dict(p)
    q["tier"] = "quick" if int(p.get("n", 200)) <= 200 else "thorough"
    return bounded(q)


def replay(p):
    q = dict(p)
    q["tier"] = "quick"
    r = bounded(q)
    if r.get("failed"):
        return {"failed": True, "input": r.get("input"), "observed": r.get("observed"), "required": r.get("required"), "what": r.get("what")}
    return {"failed": False, "tried": r["evaluations"]}


def witness(p):
    return {"failed": False}
