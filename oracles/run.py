"""Runs a property's executable oracle against the REAL code under /venv/bin/python.

usage: /venv/bin/python oracles/run.py <PID> <mode>   (payload as JSON on stdin)
modes: replay | witness | crosscheck     -> one JSON object on the last stdout line
"""
import importlib, json, os, sys

HERE = os.path.dirname(os.path.dirname(os.path.abspath(__file__)))
sys.path.insert(0, HERE)
repo = os.environ.get("VF_REPO", "/repo")
sys.path.insert(0, repo)


def main():
    pid, mode = sys.argv[1], sys.argv[2]
    payload = json.loads(sys.stdin.read() or "{}")
    mod = importlib.import_module(f"oracles.{pid}")
    res = getattr(mod, mode)(payload)
    print(json.dumps(res, default=str))


if __name__ == "__main__":
    main()
