"""Bounded run-time contract check for C21: spec expressions evaluate in dependency order with
lexical scoping, and every dependency cycle raises EvaluationError.

What is called on the REAL code
  (1) Spec._spec_eval_expressions() / Spec.calculate_component_costs() on small Spec objects built with the
      real API whose spec variables, arch variables, component attributes (declared fields and
      extra_attributes_for_component_model), action fields and action extra attributes are arithmetic
      expressions over integers that form a random DAG (or a graph with a cycle), in random key orders;
  (2) accelforge.util._basetypes._get_parsable_field_order directly on (field, value, validator) lists.

What it is compared with (all written here, nothing of the repository is used for a required value)
  * a reference evaluation of the generated expression trees (own evaluator over the tree, the string given
    to the repository is only a rendering of that tree) in topological order, names resolved lexically:
    the object the definition is in, then the enclosing objects from the inside out
        action extra attributes -> action -> component fields -> component extra attributes
                                -> arch variables -> spec variables
    (component extra attributes are part of the component's scope: they may use outer names and each other,
    the component's fields may use them; they never mention a component field name in this family);
    an object's fields that are not given keep their documented default (the *_scale fields and
    n_parallel_instances: 1) and shadow outer names like any other name of the object;
  * cycle detection by depth-first search on the same graph: a cycle => EvaluationError is required, any
    value or any other exception type is a failure; no cycle => no exception and every value equal
    (and of type int);
  * for (2): the result must contain the pre-ordered fields first, every field exactly once, and every
    whole-word mention (own scanner, not a regular expression) of another sortable field in a non-literal
    string value must come earlier; EvaluationError iff the mention graph among the sortable fields has a
    cycle (a field mentioning itself is not an edge: it refers to the outer scope's name).

Additions (strengthening round)
  (a) EDIT HISTORIES on one Spec object: build, evaluate, edit definitions IN PLACE (attribute / item assignment and
      deletion on spec.variables, arch.variables, arch.extra_attributes_for_all_component_models, component extra
      attributes and declared fields, action fields and extra attributes, the spatial fanout: change a value, add a
      definition (also one that shadows / is shadowed), remove one (also one that uncovers an outer definition; a
      declared field goes back to its default), introduce a dependency cycle and take it back), evaluate again
      with _spec_eval_expressions / calculate_component_costs, for different Einsums of a workload in between (the
      arch-level expressions then use len(All) / len(Inputs) / len(Outputs) / len(Tensors), whose value depends on
      the Einsum the evaluation is done for; no Einsum: empty sets for _spec_eval_expressions, the first Einsum for
      calculate_component_costs, as documented); the history may continue on copy.deepcopy / model_copy(deep=True)
      of the Spec or on the evaluated Spec.  After EVERY edit the required values are recomputed from scratch from
      the current definitions by reference(); EvaluationError iff the current definitions have a cycle; an earlier
      result must still show the values it was given.  arch.extra_attributes_for_all_component_models ("G") is a
      scope of its own in these cases: evaluated after the arch variables, inherited by every component's extra
      attributes that do not define the name themselves.
  (b) names the expression evaluator pre-binds (accelforge/util/_eval_expressions.py MATH_FUNCS: ceil ... map, the
      constants pi e tau inf nan, and a custom function registered through Config.expression_custom_functions) as
      names of USER definitions, used by compound expressions and by bare mentions in the same object and in every
      inner / sibling object: the user's definition must win wherever it is visible; where it is not visible
      (an outer or sibling object) min / max / abs / the custom function are still called as functions.

Not in the family (stated, not silently dropped): a definition that mentions its OWN name while an enclosing
object also defines that name (the repository reads the outer value on purpose: its own default
bits_per_action is written that way) - this includes a pre-bound name mentioned by its own definition with no
user definition outside (e: 'e + 1' reads the evaluator's e); component extra attributes that mention a declared
field of their component (the extra attributes are evaluated BEFORE the fields, so such a mention reads the outer
name); in-place edits of names starting with "_" (pydantic stores such an attribute as a plain instance
attribute, it never becomes a definition) and such names among the arch-level extra attributes (the repository
hands them to the components with setattr, so they are not inherited); on an EVALUATED Spec: calculate_component_costs
after an edit (it does not evaluate an evaluated Spec) and edits of the arch-level extra attributes (an evaluated
component does not inherit again); definitions that leave a used name undefined.

Known class C21-arch-extras-cached: see CLASSES / WITNESS.
"""
import itertools, random

# ---------------------------------------------------------------------------------------------- known classes

BIG = 2 ** 53


def _is_bigint_case(case):
    return bool(case.get("bigint"))


# Input classes for which the unchanged code does not give the required value.
CLASSES = {
    # integer literal (Python int or digit string) with |n| > 2**53: cast_to_numeric returns float(n)
    "C21-bigint-literal": _is_bigint_case,
}

WITNESS = {
    "C21-bigint-literal": {"S": [["a", 9007199254740993], ["b", "a + 1"]]},
}

# ---------------------------------------------------------------------------------------------- expression trees

FREE = ["a", "aa", "a1", "a_b", "b", "ba", "ab", "b2", "c", "x", "xx", "x1", "y", "_u", "k9", "zz"]
COMP_DEFAULTS = {"area_scale": 1, "leak_power_scale": 1, "energy_scale": 1, "actions_scale": 1,
                 "throughput_scale": 1, "n_parallel_instances": 1}
ACT_DEFAULTS = {"energy_scale": 1, "throughput_scale": 1}
COMP_MAND = {"Memory": ["area", "leak_power", "size"], "Compute": ["area", "leak_power"]}
ACT_MAND = ["energy", "throughput"]
# names of declared fields that may ALSO be used as plain variable names in the spec / arch variables
FIELD_VARS = list(COMP_DEFAULTS) + ["area", "leak_power", "energy", "throughput"]
LIMIT = 10 ** 12


class _Undefined(Exception):
    pass


def _ev(ast, look):
    k = ast[0]
    if k == "lit":
        return ast[1]
    if k == "ref":
        return look(ast[1])
    if k == "neg":
        return -_ev(ast[1], look)
    if k == "pow":
        return _ev(ast[1], look) ** ast[2]
    if k == "wl":  # len(<tensor set of the Einsum the evaluation is done for>)
        return look("#" + ast[1])
    if k == "call":
        args = [_ev(a, look) for a in ast[2]]
        return {"min": min, "max": max, "abs": lambda v: abs(v), "cf": lambda v: v + 3}[ast[1]](*args)
    l, r = _ev(ast[2], look), _ev(ast[3], look)
    op = ast[1]
    if op == "+":
        return l + r
    if op == "-":
        return l - r
    if op == "*":
        return l * r
    if op == "//":
        return l // r  # floor division of integers (r is a non-zero literal in this family)
    if op == "%":
        return l % r
    raise ValueError(op)


def _refs(ast, out=None):
    out = [] if out is None else out
    k = ast[0]
    if k == "ref":
        out.append(ast[1])
    elif k in ("neg", "pow"):
        _refs(ast[1], out)
    elif k == "call":
        for a in ast[2]:
            _refs(a, out)
    elif k == "bin":
        _refs(ast[2], out)
        _refs(ast[3], out)
    return out


def _calls(ast, out=None):
    """Names of the functions called in the tree."""
    out = [] if out is None else out
    k = ast[0]
    if k in ("neg", "pow"):
        _calls(ast[1], out)
    elif k == "call":
        out.append(ast[1])
        for a in ast[2]:
            _calls(a, out)
    elif k == "bin":
        _calls(ast[2], out)
        _calls(ast[3], out)
    return out


def _render(ast, rnd, top=True):
    """Text of the tree; every non-atomic operand is parenthesised, spacing and redundant parentheses vary."""
    k = ast[0]
    sp = rnd.choice(["", " ", " ", "  "])

    def operand(a):
        s = _render(a, rnd, top=False)
        atomic = a[0] in ("ref", "call", "wl") or (a[0] == "lit" and a[1] >= 0)
        if not atomic or rnd.random() < 0.15:
            return "(" + sp.strip() + s + ")"
        return s

    if k == "lit":
        return str(ast[1])
    if k == "ref":
        return ast[1]
    if k == "wl":
        return "len(" + sp.strip() + ast[1] + sp.strip() + ")"
    if k == "neg":
        return "-" + operand(ast[1])
    if k == "pow":
        b = _render(ast[1], rnd, top=False)
        return ("(" + b + ")" if ast[1][0] != "ref" or rnd.random() < 0.3 else b) + sp + "**" + sp + str(ast[2])
    if k == "call":
        return ast[1] + "(" + ("," + sp).join(_render(a, rnd, top=False) for a in ast[2]) + ")"
    return operand(ast[2]) + sp + ast[1] + sp + operand(ast[3])


def _gen_expr(rnd, names, depth, must=None, calls=("min", "max", "abs"), atoms=()):
    """Random tree over `names` (may be empty); mentions every name of `must`.  `calls`: the functions that
    may be called (a function whose name is a user definition visible here is not in it); `atoms`: extra leaves."""
    two = [f for f in ("min", "max") if f in calls]
    one = [f for f in ("abs", "cf") if f in calls]
    def lit():
        r = rnd.random()
        if r < 0.7:
            return ("lit", rnd.randint(-9, 20))
        if r < 0.9:
            return ("lit", rnd.choice([0, 1, -1, 2, 100, 255, 1024, -1000]))
        return ("lit", rnd.randint(-10 ** 6, 10 ** 6))

    def atom():
        if atoms and rnd.random() < 0.2:
            return rnd.choice(atoms)
        if names and rnd.random() < 0.7:
            return ("ref", rnd.choice(names))
        return lit()

    def go(d):
        if d <= 0 or rnd.random() < 0.25:
            return atom()
        r = rnd.random()
        if r < 0.30:
            return ("bin", "+", go(d - 1), go(d - 1))
        if r < 0.50:
            return ("bin", "-", go(d - 1), go(d - 1))
        if r < 0.68:
            return ("bin", "*", go(d - 1), ("lit", rnd.randint(-5, 5)) if rnd.random() < 0.6 else go(d - 1))
        if r < 0.76:
            return ("bin", "//", go(d - 1), ("lit", rnd.choice([1, 2, 3, 7, -2, -3, 10])))
        if r < 0.84:
            return ("bin", "%", go(d - 1), ("lit", rnd.choice([2, 3, 7, -3, 10, 97])))
        if r < 0.89:
            return ("neg", go(d - 1))
        if r < 0.93:
            return ("pow", go(d - 1), rnd.choice([0, 1, 2, 2, 3]))
        if r < 0.97:
            if not two:
                return atom()
            return ("call", rnd.choice(two), [go(d - 1), go(d - 1)])
        if not one:
            return atom()
        return ("call", one[0] if len(one) == 1 else rnd.choice(one), [go(d - 1)])

    t = go(depth)
    for m in must or []:
        if m not in _refs(t):
            t = ("bin", rnd.choice(["+", "-", "*"]), t, ("ref", m)) if rnd.random() < 0.5 else ("bin", "+", ("ref", m), t)
    return t


# ---------------------------------------------------------------------------------------------- cases (scope tree)
#
# case = {"tiers": {tid: {"defs": [[name, raw], ...] (key order), "defaults": {...}, "parents": [tid, ...]}},
#         "comps": [{"name", "kind", "actions": [aname, ...]}], "wrap": bool, "mode": str, ...}
# the expression tree of (tid, name) is in case["_ast"][tid][name] (dropped from the JSON form).


def _tier_ids(comps, g=False):
    ids = ["S", "A"] + (["G"] if g else [])
    for c in comps:
        ids += [c["name"] + ".X", c["name"] + ".F"]
        for a in c["actions"]:
            ids += [f"{c['name']}.{a}.T", f"{c['name']}.{a}.Y"]
        if c.get("spatial"):
            ids.append(c["name"] + ".sp.P")
    return ids


def _skeleton(comps, g=False):
    """g: the arch also has extra_attributes_for_all_component_models (tier "G"): every component's extra attributes
    inherit its definitions (evaluated after the arch variables), so it sits between a component's own extra
    attributes and the arch variables; the arch variables themselves do not see it."""
    up = (["G"] if g else []) + ["A", "S"]
    tiers = {"S": {"defs": [], "defaults": {}, "parents": []},
             "A": {"defs": [], "defaults": {}, "parents": ["S"]}}
    if g:
        tiers["G"] = {"defs": [], "defaults": {}, "parents": ["A", "S"]}
    for c in comps:
        n = c["name"]
        tiers[n + ".X"] = {"defs": [], "defaults": {}, "parents": list(up)}
        tiers[n + ".F"] = {"defs": [], "defaults": dict(COMP_DEFAULTS), "parents": [n + ".X"] + up}
        for a in c["actions"]:
            tiers[f"{n}.{a}.T"] = {"defs": [], "defaults": dict(ACT_DEFAULTS), "parents": [n + ".F", n + ".X"] + up}
            tiers[f"{n}.{a}.Y"] = {"defs": [], "defaults": {}, "parents": [f"{n}.{a}.T", n + ".F", n + ".X"] + up}
        if c.get("spatial"):  # one spatial fan-out object in the component's `spatial` list
            tiers[n + ".sp.P"] = {"defs": [], "defaults": {}, "parents": [n + ".F", n + ".X"] + up}
    return tiers


COMPS2 = [{"name": "Mem", "kind": "Memory", "actions": ["read", "write"]},
          {"name": "MAC", "kind": "Compute", "actions": ["compute"]}]


def _names_of(case, tid):
    t = case["tiers"][tid]
    return [d[0] for d in t["defs"]]


def _visible_outer(case, tid):
    """Names an expression of tier `tid` can take from its own defaults and from enclosing objects."""
    t = case["tiers"][tid]
    out = list(t["defaults"])
    for p in t["parents"]:
        out += _names_of(case, p) + list(case["tiers"][p]["defaults"])
    seen, res = set(), []
    for n in out:
        if n not in seen:
            seen.add(n)
            res.append(n)
    return res


def reference(case):
    """("ok", {tid: {name: value}}) or ("cycle", [tid, names...]) by lexical resolution + DFS, tier by tier."""
    vals = {}
    for tid in case["order"]:
        t = case["tiers"][tid]
        own = {d[0] for d in t["defs"]}
        asts = case["_ast"][tid]
        done, state = {}, {}

        def outer(name, t=t):
            if name in t["defaults"]:
                return t["defaults"][name]
            for p in t["parents"]:
                if name in vals[p]:
                    return vals[p][name]
                if name in case["tiers"][p]["defaults"]:
                    return case["tiers"][p]["defaults"][name]
            raise _Undefined(name)

        def visit(name, stack):
            if name in done:
                return done[name]
            if state.get(name) == 1:
                raise _Cycle(stack[stack.index(name):] + [name])
            state[name] = 1

            def look(n):
                if n.startswith("#"):  # number of tensors in a set of the Einsum the evaluation is done for
                    return (case.get("_ctx") or {}).get(n[1:], 0)
                if n in own:
                    return visit(n, stack + [name])
                return outer(n)

            v = _ev(asts[name], look)
            state[name] = 2
            done[name] = v
            return v

        try:
            for name in sorted(own):
                visit(name, [])
        except _Cycle as c:
            case["_partial"] = vals  # the tiers before the cyclic one
            return "cycle", [tid] + c.args[0]
        vals[tid] = done
    return "ok", vals


class _Cycle(Exception):
    pass


def _key_order(rnd, names, topo):
    r = rnd.random()
    if r < 0.35:
        k = list(names)
        rnd.shuffle(k)
        return k
    if r < 0.5:
        return list(topo)
    if r < 0.7:
        return list(reversed(topo))  # every definition before the ones it uses
    if r < 0.85:
        return sorted(names)
    return sorted(names, reverse=True)


def _raw(ast, rnd):
    if ast[0] == "lit":
        r = rnd.random()
        if r < 0.45:
            return ast[1]  # a Python int
        if r < 0.55:
            return " " + str(ast[1]) + " "
        return str(ast[1])
    return _render(ast, rnd)


# Names the expression evaluator binds before any user definition (accelforge/util/_eval_expressions.py MATH_FUNCS), as
# read from the source; prebound_names() adds whatever else the tree under test lists (names only, never a value).
PREBOUND = [
    "ceil", "comb", "copysign", "fabs", "factorial", "floor", "fmod", "frexp", "fsum", "gcd", "isclose", "isfinite",
    "isinf", "isnan", "isqrt", "ldexp", "modf", "perm", "prod", "remainder", "trunc", "exp", "expm1", "log", "log1p",
    "log2", "log10", "pow", "sqrt", "acos", "asin", "atan", "atan2", "cos", "dist", "hypot", "sin", "tan", "degrees",
    "radians", "acosh", "asinh", "atanh", "cosh", "sinh", "tanh", "erf", "erfc", "gamma", "lgamma", "pi", "e", "tau",
    "inf", "nan", "abs", "round", "sum", "range", "len", "min", "max", "float", "int", "str", "bool", "list", "tuple",
    "enumerate", "getcwd", "map",
]
_PRE_CACHE = []


def prebound_names():
    if not _PRE_CACHE:
        names = list(PREBOUND)
        try:
            from accelforge.util import _eval_expressions as ee
            names += sorted(n for n in getattr(ee, "MATH_FUNCS", {}) if isinstance(n, str) and n.isidentifier() and n not in names)
        except Exception:
            pass
        _PRE_CACHE.append(names)
    return _PRE_CACHE[0]


WL_SETS = ("All", "Inputs", "Outputs", "Tensors")
FUNCS = ("min", "max", "abs", "cf")


def _callable_here(case, tid, own_names):
    """The functions an expression of tier `tid` may call: those whose name is not a user definition visible there."""
    seen = set(own_names) | set(_visible_outer(case, tid))
    return [f for f in FUNCS if f not in seen and (f != "cf" or case.get("cf"))]


def _positive(ast, calls):
    if "abs" in calls:
        return ("bin", "+", ("call", "abs", [ast]), ("lit", 1))
    return ("bin", "+", ("pow", ast, 2), ("lit", 1))  # abs is a user definition here


def gen_case(rnd, size="normal", positive=False, pre=(), wl=None, cf=False, g=False):
    """pre: names the expression evaluator pre-binds, used here as names of user definitions; wl: a workload
    description (the arch-level expressions may then use len(<tensor set>)); cf: a custom function cf(x) = x + 3 is
    registered in the Spec's config."""
    comps = [dict(c) for c in COMPS2]
    for c in comps:
        if rnd.random() < 0.3:
            c["spatial"] = True
    case = {"tiers": _skeleton(comps, g), "comps": comps, "order": _tier_ids(comps, g), "_ast": {},
            "wrap": rnd.random() < 0.25, "bigint": False}
    if g:
        case["g"] = True
    if pre:
        case["pre"] = list(pre)
    if wl:
        case["wl"] = wl
    if cf:
        case["cf"] = True
    if positive:
        case["positive"] = True
    budget = rnd.randint(2, 12) if size == "normal" else rnd.randint(8, 14)
    free = (list(pre) + rnd.sample(FREE, 4)) if pre else FREE
    pool_sa = free + (FIELD_VARS if rnd.random() < 0.6 else [])
    used = []  # names already defined somewhere outside (to provoke shadowing)

    def pick(pool, k, reuse):
        got = []
        for _ in range(k):
            cand = [n for n in used if n in pool and n not in got] if (used and rnd.random() < reuse) else []
            cand = cand or [n for n in pool if n not in got]
            if not cand:
                break
            got.append(rnd.choice(cand))
        return got

    plan = {}
    for tid in case["order"]:
        kind = tid.rsplit(".", 1)[-1]
        if kind == "S":
            k = min(budget, rnd.choice([0, 1, 2, 3, 4, 5, 6]))
            names = pick(pool_sa, k, 0.0)
        elif kind == "A":
            k = min(budget, rnd.choice([0, 0, 1, 2, 3, 4]))
            names = pick(pool_sa, k, 0.6)
        elif kind == "G":
            k = min(budget, rnd.choice([0, 1, 2, 3]))
            names = pick([n for n in free if not n.startswith("_")], k, 0.5)  # see the note on "_" names in the docstring
        elif kind == "X":
            k = min(budget, rnd.choice([0, 0, 1, 2, 3]))
            names = pick(free, k, 0.6)
        elif kind == "Y":
            k = min(budget, rnd.choice([0, 0, 0, 1, 2]))
            names = pick(free, k, 0.6)
        elif kind == "P":
            k, names = 0, ["fanout"]
        elif kind == "F":
            ck = [c for c in comps if c["name"] == tid.split(".")[0]][0]["kind"]
            k = min(budget, rnd.choice([0, 0, 1, 2, 3]))
            names = COMP_MAND[ck] + rnd.sample(list(COMP_DEFAULTS), k)
        else:
            k = min(budget, rnd.choice([0, 0, 1, 2]))
            names = ACT_MAND + rnd.sample(list(ACT_DEFAULTS), k)
        budget -= k
        plan[tid] = names
        used += [n for n in names if n not in used]

    for tid in case["order"]:
        names = plan[tid]
        kind = tid.rsplit(".", 1)[-1]
        topo = list(names)
        rnd.shuffle(topo)
        asts = {}
        case["_ast"][tid] = asts
        outer_names = [n for n in _visible_outer(case, tid) if n not in names]
        if kind == "X":  # component extra attributes never mention a declared field name of the component
            outer_names = [n for n in outer_names if n in FREE or n in pre]
        mand = set(COMP_MAND["Memory"] + ACT_MAND)
        calls = _callable_here(case, tid, names) if (pre or cf) else ("min", "max", "abs")
        atoms = [("wl", w) for w in WL_SETS] if (wl and kind != "S") else ()
        for i, name in enumerate(topo):
            visible = topo[:i] + outer_names
            for attempt in range(8):
                if name in mand and kind in ("F", "T") and rnd.random() < 0.35:
                    ast = ("lit", rnd.randint(1, 20))
                elif rnd.random() < 0.2:
                    ast = ("lit", rnd.randint(-9, 30))
                else:
                    must = [rnd.choice(topo[:i])] if (i and rnd.random() < 0.6) else []
                    ast = _gen_expr(rnd, visible if attempt < 6 else [], rnd.choice([1, 2, 2, 3]), must if attempt < 6 else [],
                                    calls=calls, atoms=atoms)
                if kind == "P" or (positive and kind in ("F", "T")):
                    ast = _positive(ast, calls)
                asts[name] = ast
                # incremental value, only to keep magnitudes bounded (the check uses reference())
                case["tiers"][tid]["defs"] = [[n, None] for n in topo[:i + 1]]
                st, vals = reference({**case, "order": case["order"][:case["order"].index(tid) + 1]})
                v = vals[tid][name] if st == "ok" else None
                if v is not None and abs(v) <= LIMIT:
                    break
            else:
                asts[name] = ("lit", 3)
        keys = _key_order(rnd, names, topo)
        case["tiers"][tid]["defs"] = [[n, _raw(asts[n], rnd)] for n in keys]
    return case


def inject_cycle(rnd, case, kind=None):
    """Turns an acyclic case into one with a dependency cycle inside one object.  Returns a description."""
    kind = kind or rnd.choice(["self", "two", "two", "long", "long", "plus_rest"])
    tids = [t for t in case["order"] if case["tiers"][t]["defs"]]
    rnd.shuffle(tids)

    def outer_defines(tid, name):
        t = case["tiers"][tid]
        if name in t["defaults"] or name in prebound_names() or name in FUNCS:
            return True  # (a pre-bound name mentioned by its own definition reads the evaluator's binding: excluded)
        return any(name in _names_of(case, p) or name in case["tiers"][p]["defaults"] for p in t["parents"])

    chosen = None
    if kind == "self":
        for tid in tids:
            cand = [n for n in _names_of(case, tid) if not outer_defines(tid, n)]
            if cand:
                chosen = (tid, [rnd.choice(cand)])
                break
        if chosen is None:
            kind = "two"
    if chosen is None:
        need = 2 if kind == "two" else 3
        for tid in tids:
            names = _names_of(case, tid)
            if len(names) >= need:
                k = 2 if kind == "two" else rnd.randint(3, len(names)) if kind == "long" else rnd.randint(2, len(names))
                chosen = (tid, rnd.sample(names, k))
                break
    if chosen is None:
        for tid in tids:
            names = _names_of(case, tid)
            if len(names) >= 2:
                chosen = (tid, rnd.sample(names, 2))
                break
    if chosen is None:
        return None
    tid, ring = chosen
    asts = case["_ast"][tid]
    for i, n in enumerate(ring):
        nxt = ring[(i + 1) % len(ring)]
        old = asts[n]
        r = rnd.random()
        if r < 0.3:
            new = ("bin", "+", ("ref", nxt), ("lit", 1))
        elif r < 0.65:
            new = ("bin", rnd.choice(["+", "-", "*"]), old, ("ref", nxt))
        else:
            new = ("bin", "+", ("ref", nxt), old)
        asts[n] = new
        for d in case["tiers"][tid]["defs"]:
            if d[0] == n:
                d[1] = _render(new, rnd)
    if rnd.random() < 0.5:  # something acyclic that uses a member of the ring
        others = [n for n in _names_of(case, tid) if n not in ring]
        if others:
            o = rnd.choice(others)
            # only safe if it does not close another path; a second cycle is still a cycle, so no harm
            asts[o] = ("bin", "+", asts[o], ("ref", rnd.choice(ring)))
            for d in case["tiers"][tid]["defs"]:
                if d[0] == o:
                    d[1] = _render(asts[o], rnd)
    case["cycle"] = {"kind": kind, "tier": tid, "ring": ring}
    return case["cycle"]


def public(case):
    return {k: v for k, v in case.items() if not k.startswith("_") and k != "order"} | {
        "tiers": {t: case["tiers"][t]["defs"] for t in case["order"] if case["tiers"][t]["defs"]}}


# ---------------------------------------------------------------------------------------------- real code

def build(case):
    from accelforge.frontend.spec import Spec
    from accelforge.frontend.arch import Arch, Memory, Compute, Hierarchical

    T = case["tiers"]
    nodes = []
    for c in case["comps"]:
        n = c["name"]
        actions = []
        for a in c["actions"]:
            d = {"name": a}
            d.update({k: v for k, v in T[f"{n}.{a}.T"]["defs"]})
            y = {k: v for k, v in T[f"{n}.{a}.Y"]["defs"]}
            if y or case.get("always_extras"):
                d["extra_attributes_for_component_model"] = y
            actions.append(d)
        kw = {"name": n}
        kw.update({k: v for k, v in T[n + ".F"]["defs"]})
        kw["actions"] = actions
        x = {k: v for k, v in T[n + ".X"]["defs"]}
        if x:
            kw["extra_attributes_for_component_model"] = x
        if c.get("spatial"):
            kw["spatial"] = [{"name": "X", **{k: v for k, v in T[n + ".sp.P"]["defs"]}}]
        node = (Memory if c["kind"] == "Memory" else Compute)(**kw)
        if case.get("wrap") and c["kind"] == "Memory":
            node = Hierarchical(nodes=[node])
        nodes.append(node)
    akw = {"extra_attributes_for_all_component_models": {k: v for k, v in T["G"]["defs"]}} if "G" in T else {}
    arch = Arch(nodes=nodes, variables={k: v for k, v in T["A"]["defs"]}, **akw)
    kw = {}
    if case.get("wl"):
        from accelforge.frontend.workload import Workload
        kw["workload"] = Workload(einsums=list(case["wl"]["einsums"]), rank_sizes={"M": 4}, bits_per_value={"All": 8})
    if case.get("cf"):
        from accelforge.frontend.config import Config
        kw["config"] = Config(expression_custom_functions=[cf])
    return Spec(arch=arch, variables={k: v for k, v in T["S"]["defs"]}, **kw)


def cf(x):
    """The custom expression function registered for cases with case["cf"]."""
    return x + 3


def _tier_obj(spec, tid):
    """The object of the (evaluated or not) Spec that holds the definitions of tier `tid`."""
    parts = tid.split(".")
    if tid == "S":
        return spec.variables
    if tid == "A":
        return spec.arch.variables
    if tid == "G":
        return spec.arch.extra_attributes_for_all_component_models
    comp = spec.arch.find(parts[0])
    if parts[-1] == "P":
        return comp.spatial[0]
    if len(parts) == 2:
        return comp.extra_attributes_for_component_model if parts[1] == "X" else comp
    act = comp.actions[parts[1]]
    return act.extra_attributes_for_component_model if parts[2] == "Y" else act


def _names_by_tier(case):
    return {tid: _names_of(case, tid) for tid in case["order"] if case["tiers"][tid]["defs"]}


def observe_names(ev, names_by_tier):
    out = {}
    for tid, names in names_by_tier.items():
        obj = _tier_obj(ev, tid)
        if tid.rsplit(".", 1)[-1] in ("S", "A", "G", "X", "Y"):
            out[tid] = {k: obj[k] for k in names}
        else:
            out[tid] = {k: getattr(obj, k) for k in names}
    return out


def observe(ev, case):
    return observe_names(ev, _names_by_tier(case))


def _same(got, want):
    return type(got) is int and got == want


def _depends_on_big(case):
    """(tid, name) pairs whose value uses an integer literal beyond 2**53 (directly or through a name)."""
    tainted = set()
    for tid in case["order"]:
        t = case["tiers"][tid]
        own = set(_names_of(case, tid))
        asts = case["_ast"][tid]

        def has_big(ast):
            if ast[0] == "lit":
                return abs(ast[1]) > BIG
            if ast[0] in ("neg", "pow"):
                return has_big(ast[1])
            if ast[0] == "call":
                return any(has_big(a) for a in ast[2])
            if ast[0] == "bin":
                return has_big(ast[2]) or has_big(ast[3])
            return False

        changed = True
        while changed:
            changed = False
            for n in own:
                if (tid, n) in tainted:
                    continue
                hit = asts[n][0] == "lit" and abs(asts[n][1]) > BIG
                for r in _refs(asts[n]):
                    if r in own:
                        hit = hit or (tid, r) in tainted
                    elif r not in t["defaults"]:
                        for p in t["parents"]:
                            if r in _names_of(case, p):
                                hit = hit or (p, r) in tainted
                                break
                            if r in case["tiers"][p]["defaults"]:
                                break
                if hit:
                    tainted.add((tid, n))
                    changed = True
    return tainted


def check_case(case, known=None):
    """Returns (n_evaluations, known_hits, failure-or-None) for one case on the real code."""
    from accelforge.util.exceptions import EvaluationError

    status, want = reference(case)
    mode = case.get("mode", "eval")
    skip = set()
    hits = 0
    if case.get("bigint"):
        from oracles.common import in_known
        if in_known(case, known, CLASSES):
            skip = _depends_on_big(case)
            hits = 1
    n_eval = 0

    def fail(observed, required, **kw):
        return {"input": public(case), "observed": observed, "required": required, **kw}

    try:
        spec = build(case)
    except Exception as ex:  # construction must not fail for these inputs
        return 1, hits, fail(f"constructing the Spec raised {type(ex).__name__}: {str(ex)[:300]}", "a Spec object")

    runs = []
    if mode == "eval":
        runs = [("eval", lambda: spec._spec_eval_expressions(), None)]
    elif mode == "twice":
        runs = [("eval", lambda: spec._spec_eval_expressions(), None),
                ("eval again on the same Spec", lambda: spec._spec_eval_expressions(), None)]
    elif mode == "reeval":
        runs = [("eval of the evaluated Spec", lambda: spec._spec_eval_expressions()._spec_eval_expressions(), None)]
    elif mode == "costs":
        runs = [("calculate_component_costs", lambda: spec.calculate_component_costs(), ("S", "A", "X", "Y", "scales"))]
    for label, call, tiers in runs:
        n_eval += 1
        try:
            ev = call()
            exc = None
        except EvaluationError as ex:
            ev, exc = None, ex
        except Exception as ex:
            return n_eval, hits, fail(f"{label}: raised {type(ex).__name__}: {str(ex)[:300]}",
                                      "EvaluationError" if status == "cycle" else "no exception")
        if status == "cycle":
            if exc is None:
                got = observe(ev, case)
                return n_eval, hits, fail(f"{label}: returned values {got.get(want[0])}", f"EvaluationError (dependency cycle {want})")
            continue
        if exc is not None:
            return n_eval, hits, fail(f"{label}: raised EvaluationError: {str(exc)[:400]}", "no exception (the definitions are acyclic)")
        got = observe(ev, case)
        for tid, g in got.items():
            kind = tid.rsplit(".", 1)[-1]
            for name, v in g.items():
                if tiers is not None and kind in ("F", "T") and name not in COMP_DEFAULTS:
                    continue  # costs scale area / energy / ...: only the scale factors themselves are compared
                if (tid, name) in skip:
                    if asts_is_big_literal(case, tid, name) and not (float(v) == float(want[tid][name])):
                        return n_eval, hits, fail({f"{tid}:{name}": repr(v)}, {f"{tid}:{name}": want[tid][name]}, label=label)
                    continue
                if not _same(v, want[tid][name]):
                    return n_eval, hits, fail({f"{tid}:{name}": repr(v), "type": type(v).__name__},
                                              {f"{tid}:{name}": want[tid][name], "type": "int"}, label=label)
    return n_eval, hits, None


def asts_is_big_literal(case, tid, name):
    a = case["_ast"][tid][name]
    return a[0] == "lit" and abs(a[1]) > BIG



# ---------------------------------------------------------------------------------------------- edit histories
#
# One Spec object is built, evaluated, edited IN PLACE (attribute / item assignment and deletion on its variables,
# arch variables, arch-level extra attributes, component extra attributes and fields, action fields and extra
# attributes, spatial fanout), and evaluated again, several times.  The model of the history is the same `case` dict,
# mutated by the same edits; after every edit the required values are recomputed from scratch by reference().

def gen_wl(rnd):
    """A workload of 2-3 Einsums with different numbers of input tensors; counts by construction."""
    k = rnd.choice([2, 3])
    einsums, counts = [], {}
    for i, c in enumerate(rnd.sample([1, 2, 3, 4], k)):
        ins = sorted(rnd.sample(["I0", "I1", "I2", "I3", "I4"], c))
        einsums.append(f"T{i}[m] = " + " * ".join(f"{t}[m]" for t in ins))
        counts[f"T{i}"] = {"All": c + 1, "Tensors": c + 1, "Inputs": c, "Outputs": 1}
    return {"einsums": einsums, "names": [f"T{i}" for i in range(k)], "counts": counts}


def _ctx_of(case, call):
    """Tensor-set sizes visible to the arch for a call "eval", "eval@E", "costs", "costs@E"."""
    wl = case.get("wl")
    if not wl:
        return None
    kind, _, en = call.partition("@")
    if not en and kind == "costs":
        en = wl["names"][0]  # documented: calculate_component_costs uses the first Einsum when none is given
    return wl["counts"].get(en) if en else None  # no Einsum: the sets are empty


def _snapshot(case):
    return {tid: {n: r for n, r in case["tiers"][tid]["defs"]} for tid in case["order"]}


def _save_all(case):
    return ({tid: [list(d) for d in case["tiers"][tid]["defs"]] for tid in case["order"]},
            {tid: dict(case["_ast"][tid]) for tid in case["order"]})


def _restore_all(case, sv):
    for tid in case["order"]:
        case["tiers"][tid]["defs"] = [list(d) for d in sv[0][tid]]
        case["_ast"][tid] = dict(sv[1][tid])


def _set_def(case, tid, name, ast, rnd):
    case["_ast"][tid][name] = ast
    raw = _raw(ast, rnd)
    for d in case["tiers"][tid]["defs"]:
        if d[0] == name:
            d[1] = raw
            return
    case["tiers"][tid]["defs"].append([name, raw])


def _del_def(case, tid, name):
    case["tiers"][tid]["defs"] = [d for d in case["tiers"][tid]["defs"] if d[0] != name]
    del case["_ast"][tid][name]


def _state_ok(case):
    try:
        st, vals = reference(case)
    except _Undefined:
        return False
    return st == "ok" and all(abs(v) <= LIMIT for t in vals.values() for v in t.values())


def _inside(case, tid):
    """tid and every tier whose expressions can see the names of tid."""
    return [t for t in case["order"] if t == tid or tid in case["tiers"][t]["parents"]]


def _new_ast(rnd, case, tid, name, simple=False):
    kind = tid.rsplit(".", 1)[-1]
    asts = case["_ast"][tid]
    own = [n for n in _names_of(case, tid) if n != name]
    dep, changed = {name}, True
    while changed:  # the definitions of this object that use `name` (they must not be used by it)
        changed = False
        for n in own:
            if n not in dep and any(r in dep for r in _refs(asts[n])):
                dep.add(n)
                changed = True
    pre = case.get("pre", ())
    outer = [n for n in _visible_outer(case, tid) if n not in own and n != name]
    if kind == "X":
        outer = [n for n in outer if n in FREE or n in pre]
    names = [n for n in own if n not in dep] + outer
    calls = _callable_here(case, tid, own + [name])
    atoms = [("wl", w) for w in WL_SETS] if (case.get("wl") and tid != "S") else ()
    if simple or rnd.random() < 0.15:
        ast = ("lit", rnd.randint(1, 30))
    else:
        must = [rnd.choice(names)] if (names and rnd.random() < 0.6) else []
        ast = _gen_expr(rnd, names, rnd.choice([1, 2, 2, 3]), must, calls=calls, atoms=atoms)
    if kind == "P" or (case.get("positive") and kind in ("F", "T")):
        ast = _positive(ast, calls)
    return ast


def _try_def(rnd, case, tid, name):
    sv = _save_all(case)
    for attempt in range(6):
        _set_def(case, tid, name, _new_ast(rnd, case, tid, name, simple=attempt >= 4), rnd)
        if _state_ok(case):
            return True
        _restore_all(case, sv)
    return False


EXTRA_KINDS = ("S", "A", "G", "X", "Y")  # objects that take arbitrary names


def _editable(name):
    # pydantic stores an attribute whose name starts with "_" as a plain instance attribute, not as a definition:
    # such names cannot be added / changed in place, so the histories leave them alone
    return not name.startswith("_")


def op_set(rnd, case, frozen=()):
    cand = [(t, n) for t in case["order"] if t not in frozen for n in _names_of(case, t) if _editable(n)]
    cand = [c for c in cand if c[0] in ("S", "A", "G")] * 3 + cand  # outer definitions reach further
    if not cand:
        return None
    tid, name = rnd.choice(cand)
    return f"set {tid}:{name}" if _try_def(rnd, case, tid, name) else None


def op_add(rnd, case, frozen=()):
    tids = [t for t in case["order"] if t not in frozen and t.rsplit(".", 1)[-1] != "P"]
    tid = rnd.choice(tids)
    kind = tid.rsplit(".", 1)[-1]
    have = set(_names_of(case, tid))
    pre = list(case.get("pre", ()))
    if kind in ("F", "T"):
        pool = [n for n in case["tiers"][tid]["defaults"] if n not in have]
    else:
        pool = [n for n in FREE + pre + (FIELD_VARS if kind in ("S", "A") else []) if n not in have and _editable(n)]
        # prefer a name that expressions inside already use or that another object defines: the new definition
        # then takes over (or is shadowed)
        inside = _inside(case, tid)
        hot = {r for t in inside for a in case["_ast"][t].values() for r in _refs(a)}
        hot |= {n for t in case["order"] for n in _names_of(case, t)}
        if kind == "X":
            hot = {n for n in hot if n in FREE or n in pre}
        hotpool = [n for n in pool if n in hot]
        if hotpool and rnd.random() < 0.7:
            pool = hotpool
        called = {f for t in inside for a in case["_ast"][t].values() for f in _calls(a)}
        if case.get("wl"):
            called.add("len")
        pool = [n for n in pool if n not in called]
    if not pool:
        return None
    name = rnd.choice(pool)
    return f"add {tid}:{name}" if _try_def(rnd, case, tid, name) else None


def op_del(rnd, case, frozen=()):
    cand = []
    for t in case["order"]:
        if t in frozen:
            continue
        kind = t.rsplit(".", 1)[-1]
        for n in _names_of(case, t):
            if kind == "X" and "G" in frozen and "G" in case["tiers"] and n in _names_of(case, "G"):
                continue  # (an evaluated Spec: the inherited arch-level extra attributes are left alone)
            if (kind in EXTRA_KINDS and _editable(n)) or (kind in ("F", "T") and n in case["tiers"][t]["defaults"]):
                cand.append((t, n))
    rnd.shuffle(cand)
    for tid, name in cand[:4]:
        sv = _save_all(case)
        _del_def(case, tid, name)
        if _state_ok(case):
            return f"del {tid}:{name}"
        _restore_all(case, sv)
    return None


def op_cycle(rnd, case, frozen=()):
    sv = _save_all(case)
    cyc = inject_cycle(rnd, case)
    if cyc is None or cyc["tier"] in frozen or not all(_editable(n) for n in cyc["ring"]) or \
            _snapshot(case) == {t: {n: r for n, r in sv[0][t]} for t in case["order"]}:
        _restore_all(case, sv)
        case.pop("cycle", None)
        return None
    try:
        st = reference(case)[0]
    except _Undefined:
        st = None
    if st != "cycle" or not _only_editable_changes(case, sv):
        _restore_all(case, sv)
        case.pop("cycle", None)
        return None
    case["_backup"] = sv
    return f"cycle {cyc['kind']} in {cyc['tier']}"


def _only_editable_changes(case, sv):
    for t in case["order"]:
        old = {n: r for n, r in sv[0][t]}
        for n, r in case["tiers"][t]["defs"]:
            if old.get(n, None) != r and not _editable(n):
                return False
    return True


def _diff(case, before, rnd):
    """The in-place operations that turn the definitions `before` into the current ones."""
    edits = []
    for tid in case["order"]:
        kind = tid.rsplit(".", 1)[-1]
        old, new = before[tid], {n: r for n, r in case["tiers"][tid]["defs"]}
        for n in old:
            if n not in new:
                if kind in EXTRA_KINDS:
                    edits.append({"tier": tid, "name": n, "op": "del", "via": rnd.choice(["item", "attr"])})
                else:  # a declared field goes back to its default
                    edits.append({"tier": tid, "name": n, "op": "set", "raw": case["tiers"][tid]["defaults"][n],
                                  "via": rnd.choice(["item", "attr"])})
        for n, r in new.items():
            if n not in old or old[n] != r or type(old[n]) is not type(r):
                edits.append({"tier": tid, "name": n, "op": "set", "raw": r, "via": rnd.choice(["item", "attr"])})
    return edits


def _apply(spec, edits):
    for e in edits:
        obj = _tier_obj(spec, e["tier"])
        if e["op"] == "del":
            if e["via"] == "item":
                del obj[e["name"]]
            else:
                delattr(obj, e["name"])
        elif e["via"] == "item":
            obj[e["name"]] = e["raw"]
        else:
            setattr(obj, e["name"], e["raw"])


def _literalize(case, want):
    """The definitions of the EVALUATED Spec: every name is its value; component extra attributes also hold the
    arch-level extra attributes they inherited."""
    for tid in case["order"]:
        for d in case["tiers"][tid]["defs"]:
            d[1] = want[tid][d[0]]
            case["_ast"][tid][d[0]] = ("lit", d[1])
    if "G" in case["tiers"]:
        for tid in case["order"]:
            if tid.endswith(".X"):
                have = set(_names_of(case, tid))
                for n in _names_of(case, "G"):
                    if n not in have:
                        case["tiers"][tid]["defs"].append([n, want["G"][n]])
                        case["_ast"][tid][n] = ("lit", want["G"][n])


def _mismatch(got, want, costs):
    for tid, g in got.items():
        kind = tid.rsplit(".", 1)[-1]
        for name, v in g.items():
            if costs and kind in ("F", "T") and name not in COMP_DEFAULTS:
                continue  # costs scale area / energy / ...: only the scale factors themselves are compared
            if not _same(v, want[tid][name]):
                return ({f"{tid}:{name}": repr(v), "type": type(v).__name__}, {f"{tid}:{name}": want[tid][name], "type": "int"})
    return None


def _inherited(case, want):
    """Required values of the arch-level extra attributes as seen in every component's extra attributes."""
    out = {}
    if "G" in case["tiers"] and _names_of(case, "G"):
        for tid in case["order"]:
            if tid.endswith(".X"):
                have = set(_names_of(case, tid))
                names = [n for n in _names_of(case, "G") if n not in have]
                if names:
                    out[tid] = {n: want["G"][n] for n in names}
    return out


def _is_stale_extras_history(h):
    return bool(h.get("stale_arch_extras"))


CLASSES["C21-arch-extras-cached"] = _is_stale_extras_history
WITNESS["C21-arch-extras-cached"] = {
    "build": "Spec(variables={'a': 1}, arch=Arch(variables={'x': 'a+10'}, extra_attributes_for_all_component_models={'t': 'x+a'}, "
             "nodes=[Memory(name='Mem', area='t+1', leak_power=1, size=8, actions=[read, write with energy=1, throughput=1]), "
             "Compute(name='MAC', area=1, leak_power=1, actions=[compute])]))",
    "history": ["evaluate (t = 12, Mem.area = 13)", "spec.variables.a = 5", "evaluate again on the same Spec"],
}


class _Lineage:
    """What earlier evaluations of the same Spec object (or of copies made from it) have seen: per component and
    arch-level extra attribute, the values it had.  Only used to decide whether an evaluation belongs to the known
    class C21-arch-extras-cached (a value differs from an earlier one / the attribute is gone)."""

    def __init__(self):
        self.seen = {}

    def affected(self, case, want_g):
        bad = set()
        for tid in case["order"]:
            if not tid.endswith(".X"):
                continue
            have = set(_names_of(case, tid))
            for (c, n), vals in self.seen.items():
                if c == tid and n not in have and (n not in want_g or any(v != want_g[n] for v in vals)):
                    bad.add(tid.split(".")[0])
        return bad

    def record(self, case, want_g):
        for tid in case["order"]:
            if tid.endswith(".X"):
                have = set(_names_of(case, tid))
                for n, v in want_g.items():
                    if n not in have:
                        self.seen.setdefault((tid, n), []).append(v)


def run_history(rnd, known, case, nsteps, plan=None, allow_switch=True):
    """Runs one edit history on the real code.  plan: optional list of (edit function, call) for the enumerated core,
    otherwise the edits are random.  Returns (n_evaluations, known_hits, failure or None, history description)."""
    import copy
    from accelforge.util.exceptions import EvaluationError
    from oracles.common import in_known

    import json
    hist = {"initial": json.loads(json.dumps(public(case))), "steps": []}
    n_eval = hits = 0
    known_open = in_known({"stale_arch_extras": True}, known, CLASSES) == "C21-arch-extras-cached"

    def fail(observed, required, **kw):
        return {"input": dict(hist), "observed": observed, "required": required, **kw}

    try:
        spec = build(case)
    except Exception as ex:
        return 1, 0, fail(f"constructing the Spec raised {type(ex).__name__}: {str(ex)[:300]}", "a Spec object"), hist
    lineage = _Lineage()
    prev = None  # (label, evaluated object, names by tier, required values, costs?, inherited)
    last_ok = None  # (evaluated object, required values) of the last plain evaluation, for the switch
    on_evaluated = False
    wl = case.get("wl")
    steps = plan if plan is not None else [None] * nsteps
    for k, planned in enumerate(steps):
        before = _snapshot(case)
        ops, switch = [], None
        if planned is not None:
            edit, call = planned
            if edit is not None:
                ops.append(edit(case))
        else:
            frozen = ("G",) if on_evaluated else ()
            if k > 0 and allow_switch and not case.get("_backup"):
                r = rnd.random()
                if r < 0.10:
                    switch = rnd.choice(["deepcopy", "model_copy(deep=True)"])
                elif r < 0.20 and last_ok is not None:
                    switch = "the evaluated Spec"
            if switch == "the evaluated Spec":
                _literalize(case, last_ok[1])
                before = _snapshot(case)
                frozen = ("G",)
            if k > 0:
                if case.get("_backup"):
                    _restore_all(case, case.pop("_backup"))
                    case.pop("cycle", None)
                    ops.append("undo the cycle")
                    if rnd.random() < 0.3:
                        ops.append(op_set(rnd, case, frozen))
                elif rnd.random() < 0.2:
                    ops.append(op_cycle(rnd, case, frozen))
                elif rnd.random() < 0.9:
                    for _ in range(rnd.choice([1, 1, 2, 3])):
                        ops.append(rnd.choice([op_set, op_set, op_add, op_add, op_del])(rnd, case, frozen))
            kinds = ["eval", "eval", "costs"] if not (on_evaluated or switch == "the evaluated Spec") else ["eval"]
            call = rnd.choice(kinds)
            if wl and rnd.random() < 0.75:
                call += "@" + rnd.choice(wl["names"])
        edits = _diff(case, before, rnd)
        step = {"edits": edits, "ops": [o for o in ops if o], "call": call}
        if switch:
            step["continue_on"] = switch
        hist["steps"].append(step)
        # ---- the real objects
        try:
            if switch == "deepcopy":
                spec = copy.deepcopy(spec)
            elif switch == "model_copy(deep=True)":
                spec = spec.model_copy(deep=True)
            elif switch == "the evaluated Spec":
                spec, on_evaluated, prev = last_ok[0], True, None
                lineage = _Lineage()
            _apply(spec, edits)
        except Exception as ex:
            return n_eval, hits, fail(f"step {k}: the in-place edit raised {type(ex).__name__}: {str(ex)[:300]}", "the edit is accepted"), hist
        case["_ctx"] = _ctx_of(case, call)
        status, want = reference(case)
        kind, _, en = call.partition("@")
        n_eval += 1
        try:
            if kind == "eval":
                ev = spec._spec_eval_expressions(einsum_name=en or None)
            else:
                ev = spec.calculate_component_costs(einsum_name=en or None)
            exc = None
        except EvaluationError as ex:
            ev, exc = None, ex
        except Exception as ex:
            return n_eval, hits, fail(f"step {k} ({call}): raised {type(ex).__name__}: {str(ex)[:300]}",
                                      "EvaluationError" if status == "cycle" else "no exception"), hist
        label = f"step {k} ({call})"
        # which components are in the known class at this evaluation
        want_g = (want if status == "ok" else case.get("_partial", {})).get("G") if "G" in case["tiers"] else None
        skip_comps = set()
        if want_g is not None and not on_evaluated:
            aff = lineage.affected(case, want_g)
            if aff and known_open:
                skip_comps = aff
                hits += 1
            # (with the class not open the comparison below reports the deviation)
        last_ok = None
        if status == "cycle":
            if exc is None:
                got = observe(ev, case)
                return n_eval, hits, fail(f"{label}: returned values {got.get(want[0])}", f"EvaluationError (dependency cycle {want})"), hist
        else:
            if exc is not None:
                return n_eval, hits, fail(f"{label}: raised EvaluationError: {str(exc)[:400]}", "no exception (the definitions are acyclic)"), hist
            names = {t: ns for t, ns in _names_by_tier(case).items() if t in ("S", "A", "G") or t.split(".")[0] not in skip_comps}
            inh = {t: v for t, v in _inherited(case, want).items() if t.split(".")[0] not in skip_comps} if not on_evaluated else {}
            bad = _mismatch(observe_names(ev, names), want, kind == "costs")
            if bad is None and inh:
                bad = _mismatch(observe_names(ev, {t: list(v) for t, v in inh.items()}), inh, False)
                if bad:
                    bad = ({"inherited " + k2: v for k2, v in bad[0].items()}, bad[1])
            if bad:
                return n_eval, hits, fail(bad[0], bad[1], label=label), hist
            # an earlier result must still show the values it was given
            if prev is not None:
                pbad = _mismatch(observe_names(prev[1], prev[2]), prev[3], prev[4])
                if pbad:
                    return n_eval, hits, fail({"the result of " + prev[0] + " now shows": pbad[0]}, pbad[1], label=label), hist
            prev = (label, ev, names, want, kind == "costs")
            if kind == "eval" and not skip_comps:
                last_ok = (ev, want)
        if want_g is not None and not on_evaluated:  # the evaluation got as far as the components (or may have)
            lineage.record(case, want_g)
    return n_eval, hits, None, hist


# ---------------------------------------------------------------------------------------------- enumerated cores

def _simple_case(tier_defs, asts, mode="eval", **kw):
    comps = [dict(c) for c in COMPS2]
    for c in comps:
        if c["name"] in kw.get("spatial", ()):
            c["spatial"] = True
    g = bool(kw.get("g"))
    case = {"tiers": _skeleton(comps, g), "comps": comps, "order": _tier_ids(comps, g), "_ast": {}, "wrap": False,
            "bigint": False, "mode": mode}
    case.update(kw)
    base = {"Mem.F": [("area", 1), ("leak_power", 1), ("size", 8)], "MAC.F": [("area", 1), ("leak_power", 1)],
            "Mem.read.T": [("energy", 1), ("throughput", 1)], "Mem.write.T": [("energy", 1), ("throughput", 1)],
            "MAC.compute.T": [("energy", 1), ("throughput", 1)]}
    for tid in case["order"]:
        case["_ast"][tid] = {}
        given = [d[0] for d in tier_defs.get(tid, [])]
        for n, v in base.get(tid, []):
            if n not in given:
                case["_ast"][tid][n] = ("lit", v)
                case["tiers"][tid]["defs"].append([n, v])
        for n, raw in tier_defs.get(tid, []):
            case["_ast"][tid][n] = asts[(tid, n)]
            case["tiers"][tid]["defs"].append([n, raw])
    return case


def core_graph_cases(where="S"):
    """Every directed graph (no self loops) on the names a, aa, a_a placed in one object, in all 6 key orders."""
    names = ["a", "aa", "a_a"]
    pairs = [(i, j) for i in range(3) for j in range(3) if i != j]
    for mask in range(64):
        edges = [pairs[b] for b in range(6) if mask >> b & 1]
        asts, raws = {}, {}
        for i, n in enumerate(names):
            t = ("lit", i + 2)
            s = str(i + 2)
            for (u, v) in edges:
                if u == i:
                    t = ("bin", "+", t, ("bin", "*", ("ref", names[v]), ("lit", 10)))
                    s = s + " + " + names[v] + "*10"
            asts[(where, n)] = t
            raws[n] = s if t[0] != "lit" else (i + 2)
        for perm in itertools.permutations(range(3)):
            defs = {where: [(names[k], raws[names[k]]) for k in perm]}
            if where != "S":  # the same names with other values outside: must be shadowed
                defs["S"] = [(n, 500 + k) for k, n in enumerate(names)]
                for k, n in enumerate(names):
                    asts[("S", n)] = ("lit", 500 + k)
            yield _simple_case(defs, asts)


def core_scope_cases():
    """A name x defined in every subset of {spec vars, arch vars, Mem extras, Mem.read fields(energy_scale), ...}
    and read from a probe in every object; plus x in the sibling component (must not leak)."""
    levels = ["S", "A", "Mem.X", "Mem.read.Y", "MAC.X"]
    for mask in range(1, 32):
        if not mask & 1:
            continue  # x is always defined at the spec level so that every probe resolves
        defs, asts = {}, {}
        for b, tid in enumerate(levels):
            if mask >> b & 1:
                defs.setdefault(tid, []).append(("x", 10 ** b))
                asts[(tid, "x")] = ("lit", 10 ** b)
        probe = ("bin", "+", ("ref", "x"), ("lit", 7))
        for tid, pname in [("S", "pS"), ("A", "pA"), ("Mem.X", "pX"), ("Mem.F", "area"), ("Mem.read.T", "energy"),
                           ("Mem.read.Y", "pY"), ("Mem.write.T", "throughput"), ("Mem.write.Y", "pW"),
                           ("MAC.X", "pM"), ("MAC.F", "leak_power"), ("MAC.compute.T", "energy"), ("MAC.compute.Y", "pC")]:
            defs.setdefault(tid, []).append((pname, "x + 7" if (mask + len(pname)) % 2 else "7+x"))
            asts[(tid, pname)] = probe
        for mode in ("eval", "costs"):
            yield _simple_case(defs, asts, mode=mode)
    # declared-field names as variable names: energy_scale at spec / arch / component / action level
    lv = ["S", "A", "Mem.F", "Mem.read.T"]
    for mask in range(16):
        defs, asts = {}, {}
        for b, tid in enumerate(lv):
            if mask >> b & 1:
                defs.setdefault(tid, []).append(("energy_scale", 2 + b))
                asts[(tid, "energy_scale")] = ("lit", 2 + b)
        probe = ("bin", "*", ("ref", "energy_scale"), ("lit", 100))
        for tid, pname in [("Mem.F", "area"), ("Mem.read.T", "energy"), ("Mem.read.Y", "pY"), ("Mem.write.T", "energy"),
                           ("MAC.F", "area"), ("MAC.compute.T", "throughput")]:
            defs.setdefault(tid, []).append((pname, "energy_scale*100"))
            asts[(tid, pname)] = probe
        yield _simple_case(defs, asts)


def core_cycle_cases():
    """self loop / 2-cycle / 3-cycle / cycle plus acyclic rest in every kind of object."""
    spots = {
        "S": ["a", "b", "c", "x"], "A": ["a", "b", "c", "x"], "Mem.X": ["a", "b", "c", "x"], "MAC.X": ["a", "b", "c", "x"],
        "Mem.F": ["area", "leak_power", "size", "area_scale"], "MAC.F": ["area", "leak_power", "energy_scale", "actions_scale"],
        "Mem.read.T": ["energy", "throughput", "energy_scale", "throughput_scale"],
        "MAC.compute.T": ["energy", "throughput", "energy_scale", "throughput_scale"],
        "Mem.write.Y": ["a", "b", "c", "x"],
    }
    for tid, ns in spots.items():
        shapes = {
            "two": {ns[0]: [ns[1]], ns[1]: [ns[0]]},
            "three": {ns[0]: [ns[1]], ns[1]: [ns[2]], ns[2]: [ns[0]]},
            "three_plus_rest": {ns[0]: [ns[1]], ns[1]: [ns[2]], ns[2]: [ns[0]], ns[3]: []},
            "two_feeding": {ns[0]: [ns[1]], ns[1]: [ns[0]], ns[2]: [ns[0]], ns[3]: []},
            "two_fed": {ns[0]: [ns[1], ns[3]], ns[1]: [ns[0]], ns[3]: []},
            "four": {ns[0]: [ns[1]], ns[1]: [ns[2]], ns[2]: [ns[3]], ns[3]: [ns[0]]},
        }
        # a self loop is a cycle only where no enclosing object (and no default) defines the name
        if ns[0] in ("a", "area", "energy"):
            shapes["self"] = {ns[0]: [ns[0]]}
            shapes["self_plus_rest"] = {ns[0]: [ns[0]], ns[1]: [], ns[2]: [ns[1]]}
        for shape, g in shapes.items():
            for rev in (False, True):
                defs, asts = {}, {}
                items = list(g.items())
                if rev:
                    items.reverse()
                for n, deps in items:
                    t, s = ("lit", 1), "1"
                    for d in deps:
                        t, s = ("bin", "+", t, ("ref", d)), s + " + " + d
                    defs.setdefault(tid, []).append((n, s if deps else 1))
                    asts[(tid, n)] = t
                # the same names exist outside for the multi-node shapes (a cycle inside must still be an error)
                if shape in ("two", "three") and tid in ("A", "Mem.X", "Mem.write.Y"):
                    for n in g:
                        defs.setdefault("S", []).append((n, 9))
                        asts[("S", n)] = ("lit", 9)
                yield _simple_case(defs, asts, mode="costs" if (rev and shape == "two") else "eval", cycle={"kind": shape, "tier": tid})


def bigint_cases():
    for n in (BIG + 1, -(BIG + 1), 2 ** 63 + 1, 10 ** 20 + 1, 12345678901234567891):
        for raw in (n, str(n)):
            for tid in ("S", "A", "Mem.X"):
                defs = {tid: [("a", raw), ("b", "a + 1")]}
                asts = {(tid, "a"): ("lit", n), (tid, "b"): ("bin", "+", ("ref", "a"), ("lit", 1))}
                yield _simple_case(defs, asts, bigint=True)
    # the boundary itself is exact
    for n in (BIG, -BIG, BIG - 1):
        defs = {"S": [("a", n), ("b", "a - 1")]}
        asts = {("S", "a"): ("lit", n), ("S", "b"): ("bin", "-", ("ref", "a"), ("lit", 1))}
        yield _simple_case(defs, asts)



# ---------------------------------------------------------------------------------------------- cores of the additions

def _R(n):
    return ("ref", n)


def _L(v):
    return ("lit", v)


def _B(op, a, b):
    return ("bin", op, a, b)


CORE_WL = {"einsums": ["T0[m] = I0[m] * I1[m]", "T1[m] = I0[m] * I2[m] * I3[m]"], "names": ["T0", "T1"],
           "counts": {"T0": {"All": 3, "Tensors": 3, "Inputs": 2, "Outputs": 1}, "T1": {"All": 4, "Tensors": 4, "Inputs": 3, "Outputs": 1}}}


def _case_from_asts(asts, **kw):
    """asts: {(tid, name): tree} in key order; the text given to the repository is a rendering of the tree."""
    import random as _r
    rr = _r.Random(len(asts))
    defs = {}
    for (tid, n), a in asts.items():
        defs.setdefault(tid, []).append((n, _raw(a, rr)))
    return _simple_case(defs, dict(asts), **kw)


def _chain_base(g=False):
    """One definition chain through every kind of object (a -> b -> x -> w -> area -> energy -> z)."""
    asts = {
        ("S", "a"): _L(2), ("S", "b"): _B("+", _R("a"), _L(1)),
        ("A", "x"): _B("*", _R("b"), _L(2)), ("A", "y"): _L(5), ("A", "nt"): ("wl", "All"),
        ("Mem.X", "w"): _B("+", _R("x"), _R("a")),
        ("Mem.F", "area"): _B("+", _R("w"), _L(1)), ("Mem.F", "leak_power"): _B("+", _R("nt"), _L(1)), ("Mem.F", "size"): _L(8),
        ("Mem.read.T", "energy"): _B("+", _R("area"), _R("x")), ("Mem.read.T", "throughput"): _L(1),
        ("Mem.read.Y", "z"): _B("+", _R("energy"), _R("w")),
        ("MAC.X", "m"): _B("+", _R("y"), _R("a")),
        ("MAC.F", "area"): _B("*", _R("m"), _L(2)), ("MAC.F", "leak_power"): _L(1),
        ("MAC.sp.P", "fanout"): _B("+", _R("m"), _R("b")),
    }
    if g:
        asts[("G", "t")] = _B("+", _R("x"), _R("a"))
        asts[("G", "t2")] = _B("+", _R("nt"), _L(1))
        asts[("Mem.X", "w")] = _B("+", _R("x"), _R("t"))
        asts[("MAC.F", "area")] = _B("+", _B("*", _R("m"), _L(2)), _R("t2"))
    return asts


CHAIN_EDITS = [
    [("S", "a", _L(3))], [("S", "b", _B("*", _R("a"), _L(5)))], [("S", "c", _B("+", _R("a"), _R("b")))], [("S", "y", _L(70))],
    [("A", "x", _B("+", _R("a"), _L(100)))], [("A", "a", _L(50))], [("A", "b", _B("+", _R("y"), _L(1)))],
    [("A", "nt", _B("*", ("wl", "Inputs"), _L(2)))],
    [("Mem.X", "x", _L(7))], [("Mem.X", "w", _B("*", _R("a"), _L(4)))],
    [("Mem.F", "area", _B("*", _R("w"), _L(3)))], [("Mem.F", "area_scale", _L(2))], [("Mem.F", "energy_scale", _R("w"))],
    [("Mem.read.T", "energy", _B("+", _R("x"), _L(1)))], [("Mem.read.T", "energy_scale", _L(3))],
    [("Mem.read.Y", "z", _B("*", _R("w"), _L(2)))], [("Mem.read.Y", "w", _L(9))],
    [("MAC.X", "m", _B("+", _R("a"), _R("a")))], [("MAC.X", "y", _L(1))], [("MAC.sp.P", "fanout", _B("*", _R("y"), _L(2)))],
    # dependency cycles (toggled like every other edit: applied again they are taken back)
    [("S", "a", _R("b"))],
    [("A", "y", _B("+", _R("x"), _L(1))), ("A", "x", _R("y"))],
    [("Mem.F", "size", _B("+", _R("area"), _L(1))), ("Mem.F", "area", _R("size"))],
    [("Mem.X", "w", _R("q")), ("Mem.X", "q", _B("+", _R("w"), _L(1)))],
    [("Mem.read.T", "energy", _B("+", _R("throughput"), _L(1))), ("Mem.read.T", "throughput", _R("energy"))],
]
CHAIN_EDITS_G = [
    [("G", "t", _L(9))], [("G", "t", _B("*", _R("a"), _L(3)))], [("G", "u", _L(4))], [("S", "a", _L(3))],
    [("A", "nt", _B("*", ("wl", "Inputs"), _L(2)))], [("Mem.X", "t", _L(1))], [("G", "t2", _L(6))],
    [("G", "t", _R("t2")), ("G", "t2", _B("+", _R("t"), _L(1)))],
]
CALL_PATTERNS = [("eval", "eval"), ("costs", "costs"), ("eval@T1", "eval@T0"), ("eval", "costs@T1"), ("costs@T0", "eval@T1")]


def _toggle(base, triples):
    """An edit function: sets the given definitions, or takes them back if they are already in place."""
    import random as _r

    def edit(case):
        on = case["_ast"][triples[0][0]].get(triples[0][1]) == triples[0][2]
        for tid, n, a in triples:
            if not on:
                _set_def(case, tid, n, a, _r.Random(7))
            elif (tid, n) in base:
                _set_def(case, tid, n, base[(tid, n)], _r.Random(7))
            elif n in case["_ast"][tid]:
                _del_def(case, tid, n)
        return ("undo " if on else "do ") + "; ".join(f"{t}:{n}" for t, n, _ in triples)
    return edit


def core_history_plans(thorough, g=False):
    """(case, plan) for: every elementary edit alone under every call pattern, and ordered pairs of elementary edits
    (all of them in the thorough tier, one in four otherwise)."""
    edits = CHAIN_EDITS_G if g else CHAIN_EDITS
    for i, e in enumerate(edits):
        for c0, c1 in CALL_PATTERNS:
            base = _chain_base(g)
            case = _case_from_asts(base, wl=CORE_WL, positive=True, g=g, spatial=["MAC"])
            yield case, [(None, c0), (_toggle(base, e), c1)]
    calls3 = ["eval", "eval@T0", "costs", "eval@T1", "costs@T1"]
    for i, e1 in enumerate(edits):
        for j, e2 in enumerate(edits):
            if not thorough and (i * 7 + j) % 4:
                continue
            base = _chain_base(g)
            case = _case_from_asts(base, wl=CORE_WL, positive=True, g=g, spatial=["MAC"])
            yield case, [(None, calls3[(i + j) % 5]), (_toggle(base, e1), calls3[(i + 2 * j + 1) % 5]),
                         (_toggle(base, e2), calls3[(2 * i + j + 2) % 5])]


PROBE_TIERS = ["S", "A", "Mem.X", "Mem.F", "Mem.read.T", "Mem.read.Y", "Mem.write.T", "MAC.X", "MAC.F", "MAC.compute.T", "MAC.compute.Y"]


def core_prebound_cases(levels, every_costs=3):
    """Each pre-bound name as a user definition (4 names at a time; one of the four defined by an expression over
    another, written first) in each kind of object, with the same names defined differently at the spec level, used
    by compound expressions and by bare mentions in the same object and in every object inside / beside it."""
    names = prebound_names() + ["cf"]  # cf: the custom function registered through the Spec's config
    idx = 0
    for lv in levels:
        for c in range(0, len(names), 4):
            ch = (names[c:c + 4] + names[:4])[:4]
            asts = {}
            if lv != "S":
                for j, n in enumerate(ch):
                    asts[("S", n)] = _L(500 + j)
            asts[(lv, ch[2])] = _B("+", _B("*", _R(ch[0]), _L(3)), _L(1))
            asts[(lv, ch[0])] = _L(7 + c % 5)
            asts[(lv, ch[1])] = _L(11 + c % 3)
            asts[(lv, ch[3])] = _B("+", _R(ch[1]), _R(ch[2]))
            for tid in PROBE_TIERS + (["G"] if lv == "G" else []):
                kind = tid.rsplit(".", 1)[-1]
                if kind in ("F", "T"):
                    fields = ["area", "leak_power", "size"] if tid == "Mem.F" else ["area", "leak_power"] if kind == "F" else ["energy", "throughput"]
                    for j, f in enumerate(fields):
                        asts[(tid, f)] = _B("+", _B("*", _R(ch[(j + c) % 4]), _L(2)), _L(1)) if j % 2 == 0 else _B("+", _R(ch[(j + c) % 4]), _R(ch[(j + c + 1) % 4]))
                else:
                    for j, n in enumerate(ch):
                        asts[(tid, f"p{j}")] = _B("+", _B("*", _R(n), _L(2)), _L(1))
                    asts[(tid, "r")] = _R(ch[(c // 4) % 4])
            idx += 1
            kw = {"cf": True} if "cf" in ch else {}
            yield _case_from_asts(asts, mode="costs" if idx % every_costs == 0 else "eval", g=(lv == "G"), pre=list(ch), **kw)


def core_prebound_cycle_cases():
    for tr in [("e", "pi", "tau"), ("log", "sqrt", "ceil"), ("min", "max", "abs"), ("sum", "round", "gamma"),
               ("int", "float", "len"), ("inf", "nan", "pow")]:
        for tid in ("S", "A", "Mem.X"):
            a, b, c = tr
            two = {(tid, a): _B("+", _R(b), _L(1)), (tid, b): _B("*", _R(a), _L(2)), (tid, c): _B("+", _R(a), _L(1))}
            three = {(tid, a): _B("+", _R(b), _L(1)), (tid, c): _B("+", _R(a), _L(1)), (tid, b): _B("*", _R(c), _L(2))}
            for sh, asts in (("two_feeding", two), ("three", three)):
                yield _case_from_asts(dict(asts), pre=list(tr), cycle={"kind": sh, "tier": tid})


# ---------------------------------------------------------------------------------------------- _get_parsable_field_order

def _word_mentions(name, text):
    """True iff `name` occurs in `text` not glued to another letter, digit or underscore on either side."""
    def w(ch):
        return ch.isalnum() or ch == "_"
    i = text.find(name)
    while i != -1:
        before = text[i - 1] if i > 0 else " "
        after = text[i + len(name)] if i + len(name) < len(text) else " "
        if not w(before) and not w(after):
            return True
        i = text.find(name, i + 1)
    return False


def check_order(order, fields):
    """fields: list of {"f": name, "kind": ..., "text": str|None, "val": json-able}.  kind:
       expr (EvalsTo, str value), lit (EvalsTo, LiteralString value), quoted (EvalsTo, ruamel quoted scalar),
       num (EvalsTo, int value), none (EvalsTo, None), plain (validator str, str value), plainint (validator int),
       obj (an Evalable value with a plain validator), any (EvalsTo[Any], str value)."""
    from typing import Any
    from accelforge.util._basetypes import _get_parsable_field_order, EvalsTo, EvalExtras, LiteralString
    from accelforge.util.exceptions import EvaluationError
    from ruamel.yaml.scalarstring import DoubleQuotedScalarString

    triples, sortable, texts = [], [], {}
    for d in fields:
        k, f = d["kind"], d["f"]
        if k == "expr":
            triples.append((f, d["text"], EvalsTo[int]))
        elif k == "any":
            triples.append((f, d["text"], EvalsTo[Any]))
        elif k == "lit":
            triples.append((f, LiteralString(d["text"]), EvalsTo[int]))
        elif k == "quoted":
            triples.append((f, DoubleQuotedScalarString(d["text"]), EvalsTo[Any]))
        elif k == "num":
            triples.append((f, d["val"], EvalsTo[int]))
        elif k == "none":
            triples.append((f, None, EvalsTo[int | None]))
        elif k == "plain":
            triples.append((f, d["text"], str))
        elif k == "plainint":
            triples.append((f, d["val"], int))
        elif k == "obj":
            triples.append((f, EvalExtras(), EvalExtras))
        else:
            raise ValueError(k)
        if f not in order and k not in ("plain", "plainint"):
            sortable.append(f)
            if k in ("expr", "any"):
                texts[f] = d["text"]
    deps = {f: [g for g in sortable if g != f and f in texts and _word_mentions(g, texts[f])] for f in sortable}
    # cycle among the sortable fields (DFS)
    state, cyc = {}, []

    def dfs(f, stack):
        if state.get(f) == 2 or cyc:
            return
        if state.get(f) == 1:
            cyc.append(stack[stack.index(f):] + [f])
            return
        state[f] = 1
        for g in deps[f]:
            dfs(g, stack + [f])
        state[f] = 2

    for f in sortable:
        dfs(f, [])
    inp = {"order": list(order), "fields": [{k: v for k, v in d.items()} for d in fields]}
    try:
        got = _get_parsable_field_order(tuple(order), triples)
    except EvaluationError as ex:
        if cyc:
            return None
        return {"input": inp, "observed": f"EvaluationError: {str(ex)[:200]}", "required": "an order (the mention graph has no cycle)"}
    except Exception as ex:
        return {"input": inp, "observed": f"{type(ex).__name__}: {str(ex)[:200]}", "required": "EvaluationError" if cyc else "an order"}
    if cyc:
        return {"input": inp, "observed": list(got), "required": f"EvaluationError (cycle {cyc[0]})"}
    got = list(got)
    allf = list(order) + [d["f"] for d in fields if d["f"] not in order]
    if sorted(got) != sorted(allf):
        return {"input": inp, "observed": got, "required": f"every one of {allf} exactly once"}
    if got[: len(order)] != list(order):
        return {"input": inp, "observed": got, "required": f"the pre-ordered fields {list(order)} first"}
    pos = {f: i for i, f in enumerate(got)}
    for f in sortable:
        for g in deps[f]:
            if pos[g] > pos[f]:
                return {"input": inp, "observed": got, "required": f"{g} before {f} ({f} = {texts[f]!r} mentions {g})"}
    return None


def core_order_cases(n4=True):
    """all digraphs WITH optional self mentions on (a, aa, a_a) x all 6 list orders; all loop-free digraphs on 4 names."""
    names = ["a", "aa", "a_a"]
    pairs = [(i, j) for i in range(3) for j in range(3)]
    for mask in range(512):
        texts = []
        for i in range(3):
            ms = [names[j] for b, (u, j) in enumerate(pairs) if u == i and mask >> b & 1]
            texts.append(" + ".join(["1"] + ms))
        for perm in itertools.permutations(range(3)):
            yield (), [{"f": names[k], "kind": "expr", "text": texts[k]} for k in perm]
    if n4:
        names = ["p", "pq", "q", "q1"]
        pairs = [(i, j) for i in range(4) for j in range(4) if i != j]
        for mask in range(4096):
            texts = []
            for i in range(4):
                ms = [names[j] for b, (u, j) in enumerate(pairs) if u == i and mask >> b & 1]
                texts.append("*".join(ms + ["2"]))
            rot = mask % 4
            idx = [(k + rot) % 4 for k in range(4)]
            if mask % 3 == 0:
                idx.reverse()
            yield (), [{"f": names[k], "kind": "any" if (mask + k) % 5 == 0 else "expr", "text": texts[k]} for k in idx]


ORDER_NAMES = FREE + ["area", "area_scale", "size", "n", "nn", "n_n", "v10", "v1", "v"]


def rand_order_case(rnd, cyclic=None):
    n = rnd.randint(1, 12)
    names = rnd.sample(ORDER_NAMES, n)
    topo = list(names)
    rnd.shuffle(topo)
    fields = {}
    for i, f in enumerate(topo):
        r = rnd.random()
        earlier = topo[:i]
        ms = rnd.sample(earlier, min(len(earlier), rnd.choice([0, 1, 1, 2, 3])))
        # decoys: longer names that CONTAIN a later field's name must not count as a mention
        later = topo[i + 1:]
        decoys = [rnd.choice([d + "1", "z" + d, d + "_", "_" + d, d + d]) for d in rnd.sample(later, min(len(later), rnd.choice([0, 0, 1, 2])))]
        decoys = [d for d in decoys if d not in names]
        parts = ms + decoys + [str(rnd.randint(0, 9))]
        rnd.shuffle(parts)
        ops = [rnd.choice([" + ", "*", "-", " // ", ", ", "("]) for _ in parts]
        text = "".join(p + (o if j < len(parts) - 1 else "") for j, (p, o) in enumerate(zip(parts, ops)))
        if r < 0.55:
            fields[f] = {"f": f, "kind": "expr", "text": text}
        elif r < 0.65:
            fields[f] = {"f": f, "kind": "any", "text": text}
        elif r < 0.72:  # a literal string that mentions anything: never a dependency
            fields[f] = {"f": f, "kind": rnd.choice(["lit", "quoted"]), "text": " + ".join(rnd.sample(names, min(n, 2)))}
        elif r < 0.80:
            fields[f] = {"f": f, "kind": "num", "val": rnd.randint(-3, 99)}
        elif r < 0.84:
            fields[f] = {"f": f, "kind": "none"}
        elif r < 0.91:  # not evaluated at all: may mention anything
            fields[f] = {"f": f, "kind": "plain", "text": " ".join(rnd.sample(names, min(n, 3)))}
        elif r < 0.95:
            fields[f] = {"f": f, "kind": "plainint", "val": rnd.randint(0, 9)}
        else:
            fields[f] = {"f": f, "kind": "obj"}
    want_cycle = rnd.random() < 0.4 if cyclic is None else cyclic
    ev = [f for f in topo if fields[f]["kind"] in ("expr", "any")]
    if want_cycle and ev:
        k = rnd.choice([1, 2, 2, 3, 4, len(ev)])
        ring = rnd.sample(ev, min(k, len(ev)))
        for i, f in enumerate(ring):  # k == 1: a self mention, which is NOT a cycle
            fields[f]["text"] = fields[f]["text"] + rnd.choice([" + ", "*", " - ("]) + ring[(i + 1) % len(ring)]
    lst = [fields[f] for f in names]
    r = rnd.random()
    if r < 0.3:
        lst = [fields[f] for f in topo]
    elif r < 0.6:
        lst = [fields[f] for f in reversed(topo)]
    order = ()
    r = rnd.random()
    if r < 0.25:
        order = tuple(rnd.sample(names, min(n, rnd.randint(1, 2))))
    elif r < 0.32:
        order = ("not_a_field",) + tuple(rnd.sample(names, 1))
    return order, lst


# ---------------------------------------------------------------------------------------------- sweep

def _describe(case):
    t = public(case)["tiers"]
    s = "; ".join(f"{tid}{{{', '.join(f'{n}: {r!r}' for n, r in d)}}}" for tid, d in t.items()
                  if not all(isinstance(r, int) for _, r in d) or tid in ("S", "A"))
    return (("cycle " + case["cycle"]["kind"] + " in " + case["cycle"]["tier"] + " | ") if case.get("cycle") else "") + f"[{case.get('mode', 'eval')}] " + s[:260]


def _sweep(seed, tier, known):
    rnd = random.Random(seed * 1000003 + (17 if tier == "thorough" else 0))
    thorough = tier == "thorough"
    n_rand_spec = 20000 if thorough else 900
    n_rand_order = 100000 if thorough else 3000
    n_rand_pre = 6000 if thorough else 250
    n_hist, n_hist_g = (3000, 1500) if thorough else (110, 50)
    ev = hits = 0
    seen, samples = set(), []
    stats = {"spec_cases": 0, "spec_cyclic": 0, "spec_acyclic": 0, "order_calls": 0, "core_spec": 0, "core_order": 0,
             "prebound_cases": 0, "histories": 0, "history_evaluations": 0, "core_histories": 0}

    def run_hist(case, nsteps, plan=None):
        nonlocal ev, hits
        n, h, bad, hist = run_history(rnd, known, case, nsteps, plan=plan)
        ev += n
        hits += h
        stats["histories"] += 1
        stats["history_evaluations"] += n
        seen.add(repr(hist))
        return bad, hist

    def rand_hist(g):
        wl = gen_wl(rnd) if rnd.random() < 0.5 else None
        pre = ()
        if rnd.random() < 0.4:
            pre = tuple(rnd.sample([n for n in prebound_names() if not (wl and n == "len")], rnd.randint(2, 6)))
        cf_ = rnd.random() < 0.2
        if cf_ and rnd.random() < 0.5:
            pre = pre + ("cf",)  # the name of the registered custom function as a user definition
        case = gen_case(rnd, size="normal" if rnd.random() < 0.8 else "large", positive=True, pre=pre, wl=wl, cf=cf_, g=g)
        return run_hist(case, rnd.randint(3, 6))

    def run_spec(case):
        nonlocal ev, hits
        seen.add(repr(public(case)))
        st = reference(case)[0]
        stats["spec_cases"] += 1
        stats["spec_cyclic" if st == "cycle" else "spec_acyclic"] += 1
        n, h, bad = check_case(case, known)
        ev += n
        hits += h
        return bad

    def run_order(order, fields):
        nonlocal ev
        ev += 1
        stats["order_calls"] += 1
        seen.add(repr((order, fields)))
        return check_order(order, fields)

    # enumerated cores
    gens = [core_graph_cases("S"), core_graph_cases("A"), core_scope_cases(), core_cycle_cases()]
    if thorough:
        gens += [core_graph_cases("Mem.X"), core_graph_cases("MAC.compute.Y")]
    for g in gens:
        for case in g:
            stats["core_spec"] += 1
            bad = run_spec(case)
            if bad:
                return ev, len(seen), hits, bad, stats, samples
    for order, fields in core_order_cases():
        stats["core_order"] += 1
        bad = run_order(order, fields)
        if bad:
            return ev, len(seen), hits, bad, stats, samples
    # the additions: pre-bound names as user definitions (enumerated), edit histories (enumerated)
    for g in (core_prebound_cases(["S", "A", "G", "Mem.X", "Mem.read.Y"]), core_prebound_cycle_cases()):
        for case in g:
            stats["core_spec"] += 1
            stats["prebound_cases"] += 1
            bad = run_spec(case)
            if bad:
                return ev, len(seen), hits, bad, stats, samples
    for case, plan in core_history_plans(thorough):
        stats["core_histories"] += 1
        bad, _ = run_hist(case, 0, plan)
        if bad:
            return ev, len(seen), hits, bad, stats, samples
    # seeded random part
    for i in range(n_rand_spec):
        mode = rnd.choice(["eval", "eval", "eval", "twice", "reeval", "costs"])
        case = gen_case(rnd, size="normal" if rnd.random() < 0.8 else "large", positive=(mode == "costs"))
        case["mode"] = mode
        if rnd.random() < 0.4:
            inject_cycle(rnd, case)
        bad = run_spec(case)
        if bad:
            return ev, len(seen), hits, bad, stats, samples
        if len(samples) < 6 and i % 37 == 5:
            samples.append(_describe(case))
    for i in range(n_rand_pre):
        mode = rnd.choice(["eval", "eval", "eval", "twice", "reeval", "costs"])
        pre = tuple(rnd.sample(prebound_names(), rnd.randint(2, 6)))
        cf_ = rnd.random() < 0.2
        if cf_ and rnd.random() < 0.5:
            pre = pre + ("cf",)
        case = gen_case(rnd, size="normal" if rnd.random() < 0.8 else "large", positive=(mode == "costs"), pre=pre,
                        cf=cf_, g=rnd.random() < 0.3)
        case["mode"] = mode
        if rnd.random() < 0.35:
            inject_cycle(rnd, case)
        stats["prebound_cases"] += 1
        bad = run_spec(case)
        if bad:
            return ev, len(seen), hits, bad, stats, samples
        if i == 3:
            samples.append("pre-bound names: " + _describe(case))
    for i in range(n_hist):
        bad, hist = rand_hist(False)
        if bad:
            return ev, len(seen), hits, bad, stats, samples
        if i == 2:
            samples.append(_describe_hist(hist))
    for i in range(n_rand_order):
        order, fields = rand_order_case(rnd)
        bad = run_order(order, fields)
        if bad:
            return ev, len(seen), hits, bad, stats, samples
        if len(samples) < 8 and i % 501 == 7:
            samples.append("field order: order=" + repr(order) + " " + "; ".join(f"{d['f']}[{d['kind']}]={d.get('text', d.get('val'))!r}" for d in fields)[:220])
    # integer literals around 2**53 (last: a recorded finding must not hide anything else)
    for case in bigint_cases():
        stats["core_spec"] += 1
        bad = run_spec(case)
        if bad:
            return ev, len(seen), hits, bad, stats, samples
    # histories with arch-level extra attributes (after everything else: the known class C21-arch-extras-cached lives here)
    for case, plan in core_history_plans(thorough, g=True):
        stats["core_histories"] += 1
        bad, _ = run_hist(case, 0, plan)
        if bad:
            return ev, len(seen), hits, bad, stats, samples
    for i in range(n_hist_g):
        bad, hist = rand_hist(True)
        if bad:
            return ev, len(seen), hits, bad, stats, samples
    return ev, len(seen), hits, None, stats, samples


def _describe_hist(hist):
    parts = []
    for k, st in enumerate(hist["steps"]):
        e = ", ".join((f"del {x['tier']}:{x['name']}" if x["op"] == "del" else f"{x['tier']}:{x['name']}={x['raw']!r}") for x in st["edits"])
        parts.append((f"[on {st['continue_on']}] " if st.get("continue_on") else "") + (e + " -> " if e else "") + st["call"])
    return ("history: " + " | ".join(parts))[:300]


BOUND_ADD = ("; edit histories: <= 6 evaluations of one Spec object (<= 14 + 13 definitions, 7 kinds of objects incl. arch-level extra attributes, "
             "<= 3 Einsums) with <= 3 edits (set / add / delete / cycle / undo) between two evaluations, enumerated: every one of 25 "
             "elementary edits of a 7-object definition chain under 5 call patterns and ordered pairs of them (all 625 in the thorough "
             "tier, one in four otherwise), 8 edits around the arch-level extra attributes likewise; pre-bound names: each of the "
             "76 names (75 of MATH_FUNCS + a custom function) in each of 5 kinds of objects (4 names per Spec), 36 cycles among them, "
             "and 2-7 of them mixed into random Specs")
BOUND = ("<= 14 optional definitions plus the 11-13 mandatory fields (area / leak_power / size / energy / throughput / spatial fanout; <= ~20 "
         "of all these are expressions, the rest integer literals) per Spec, spread over spec variables, arch variables, the extra attributes "
         "and declared fields of a Memory (sometimes inside a nested Hierarchical) and a Compute, the fields and extra attributes of their "
         "actions and the fanout of their spatial entry (6 nesting levels); integer arithmetic (+ - * // % ** unary-minus min max abs), literals |n| <= 10**6, values "
         "|v| <= 10**12; field-order function: <= 12 fields" + BOUND_ADD)


def _result(seed, tier, known):
    ev, distinct, hits, bad, stats, samples = _sweep(seed, tier, known)
    if bad:
        return {"failed": True, "input": bad["input"], "observed": bad["observed"], "required": bad["required"],
                "evaluations": ev, **({"label": bad["label"]} if "label" in bad else {})}
    rule = (
        "Spec objects are built with the real API; Spec._spec_eval_expressions (also twice on the same Spec, and again on the evaluated "
        "Spec) and Spec.calculate_component_costs are called and EVERY evaluated value (spec variables, arch variables, component extra "
        "attributes, component fields, action fields, action extra attributes; after calculate_component_costs: all but the scaled "
        "area/leak_power/energy/throughput fields) is compared, value and type int, with a reference evaluation of the generated "
        "expression trees in topological order with lexical name resolution (own object, then enclosing objects inside-out, spec variables "
        "last; unset *_scale / n_parallel_instances fields count as defined with their default 1); if the generated graph has a cycle "
        "inside an object (self loop with no outer definition, 2-cycle, long cycle, cycle plus acyclic rest, with or without the same "
        "names defined outside) an EvaluationError is required from both entry points. Enumerated core: every directed graph on the names "
        "(a, aa, a_a) as spec variables and as arch variables shadowing spec variables, in all 6 key orders; a name defined in every subset "
        "of {spec, arch, Mem extras, Mem.read extras, MAC extras} / energy_scale in every subset of {spec, arch, Mem, Mem.read} probed from "
        "every object of both components (sibling components must not see each other's names); every cycle shape in every kind of object. "
        "_get_parsable_field_order is called directly: all mention graphs with self mentions on 3 prefix-related names in all 6 list "
        "orders, all loop-free graphs on 4 names, and seeded random lists of <= 12 fields (expressions, literal / quoted strings, "
        "numbers, None, non-evaluated fields, Evalable values, pre-ordered fields, decoy identifiers that contain a field name); the result "
        "must list the pre-ordered fields first, every field once, every whole-word-mentioned sortable field before its user, or raise "
        "EvaluationError iff the mention graph (own scanner + DFS) has a cycle. "
        f"This run: {stats['spec_cases']} Specs ({stats['spec_acyclic']} acyclic, {stats['spec_cyclic']} with a cycle; {stats['core_spec']} "
        f"from the enumerated cores), {stats['order_calls']} field-order calls ({stats['core_order']} enumerated). "
        "ADDITIONS. (a) Edit histories: ONE Spec object is built, evaluated, edited in place through attribute / item assignment and deletion "
        "(spec variables, arch variables, arch-level extra attributes, component extra attributes and fields, action fields and extra "
        "attributes, spatial fanout: set, add - also shadowing -, delete - also uncovering an outer definition -, make a cycle, undo it) and "
        "evaluated again by _spec_eval_expressions / calculate_component_costs, for different Einsums in between (arch expressions use "
        "len(All|Inputs|Outputs|Tensors), whose required value is the number of tensors of the Einsum by construction of the workload), "
        "optionally continuing on copy.deepcopy / model_copy(deep=True) / the evaluated Spec; after every edit the required values are "
        "recomputed from the current definitions by the same reference evaluation, EvaluationError iff they now have a cycle, and the "
        "previous result object must still show its values. (b) Each name the expression evaluator pre-binds (MATH_FUNCS and a registered "
        "custom function) is used as the name of a user definition in every kind of object and read by compound expressions and bare "
        "mentions in the same and in all inner and sibling objects; the user's value is required wherever the definition is visible, cycles "
        f"among such names require EvaluationError. This run: {stats['histories']} histories ({stats['core_histories']} enumerated) with "
        f"{stats['history_evaluations']} evaluations, {stats['prebound_cases']} Specs with pre-bound names as definitions. "
        "excluded: a definition mentioning its own name while an enclosing object defines that name (reads the outer value by design, e.g. "
        "spec a: 5, arch a: 'a+1' gives 6); component extra attributes mentioning a declared field of their component (they are evaluated "
        "before the fields, so area_scale: 3 with extra w: 'area_scale+1' and spec variable area_scale: 100 gives w = 101, never generated); "
        "a pre-bound name mentioned by its own definition (e: 'e+1' reads the evaluator's e); in-place edits of names starting with '_' "
        "(pydantic keeps them as plain attributes) and such names among the arch-level extra attributes; on an evaluated Spec: "
        "calculate_component_costs after an edit and edits of the arch-level extra attributes; integer literals beyond 2**53 when the known "
        "class C21-bigint-literal is open; the component-level values of an evaluation in the known class C21-arch-extras-cached (a component "
        "inherits an arch-level extra attribute whose value differs from the one at an earlier evaluation of the same object) when that class is open."
    )
    return {"failed": False, "evaluations": ev, "distinct": distinct, "known_finding_hits": hits, "bound": BOUND, "rule": rule,
            "exhaustive": True, "samples": samples, "stats": stats}


def crosscheck(p):
    tier = "quick" if int(p.get("n", 200)) <= 200 else "thorough"
    return _result(int(p.get("seed", 0)), tier, p.get("known"))


def bounded(p):
    tier = p.get("tier", "quick")
    return _result(int(p.get("seed", 0)), tier if tier in ("quick", "thorough") else "quick", p.get("known"))


def replay(p):
    r = _result(int(p.get("seed", 0)), "quick", p.get("known"))
    if r["failed"]:
        return {"failed": True, "input": r["input"], "observed": r["observed"], "required": r["required"]}
    return {"failed": False, "tried": r["evaluations"]}


def _witness_arch_extras():
    from accelforge.frontend.spec import Spec
    from accelforge.frontend.arch import Arch, Memory, Compute
    act = lambda n: {"name": n, "energy": 1, "throughput": 1}
    spec = Spec(variables={"a": 1},
                arch=Arch(variables={"x": "a+10"}, extra_attributes_for_all_component_models={"t": "x+a"},
                          nodes=[Memory(name="Mem", area="t+1", leak_power=1, size=8, actions=[act("read"), act("write")]),
                                 Compute(name="MAC", area=1, leak_power=1, actions=[act("compute")])]))
    try:
        first = spec._spec_eval_expressions()
        spec.variables.a = 5
        second = spec._spec_eval_expressions()
        got = {"first": {"t": first.arch.extra_attributes_for_all_component_models["t"], "Mem.area": first.arch.find("Mem").area},
               "second": {"t": second.arch.extra_attributes_for_all_component_models["t"],
                          "Mem.t": second.arch.find("Mem").extra_attributes_for_component_model["t"],
                          "Mem.area": second.arch.find("Mem").area}}
    except Exception as ex:
        return {"failed": True, "input": WITNESS["C21-arch-extras-cached"], "observed": f"{type(ex).__name__}: {str(ex)[:200]}", "required": "values"}
    want = {"first": {"t": 12, "Mem.area": 13}, "second": {"t": 20, "Mem.t": 20, "Mem.area": 21}}
    return {"failed": got != want, "input": WITNESS["C21-arch-extras-cached"], "observed": got, "required": want}


def witness(p):
    ent = (p or {}).get("finding") or {}
    cid = ent.get("class_id")
    if cid not in WITNESS:
        return {"failed": False}
    if cid == "C21-arch-extras-cached":
        return _witness_arch_extras()
    from accelforge.frontend.spec import Spec
    try:
        ev = Spec(variables={k: v for k, v in WITNESS[cid]["S"]})._spec_eval_expressions()
        got = {k: ev.variables[k] for k in ("a", "b")}
        obs = {k: f"{v!r} ({type(v).__name__})" for k, v in got.items()}
    except Exception as ex:
        got, obs = None, f"{type(ex).__name__}: {str(ex)[:200]}"
    want = {"a": 9007199254740993, "b": 9007199254740994}
    ok = got is not None and all(type(got[k]) is int and got[k] == want[k] for k in want)
    return {"failed": not ok, "input": WITNESS[cid], "observed": obs, "required": want}
