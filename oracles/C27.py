"""Executable oracle for C27: call histories of calculate_component_costs on real Specs.

Family (see BOUND below):
  A. (original family) random flat architectures with explicit numbers, histories of 2-3 calls on the
     returned spec, all kinds or random flag subsets.
  B. exhaustive core: an explicit architecture under every history (F1, F2, F1) over all 16 flag subsets
     (thorough: every (F1, F2, F3)) and a composite architecture (explicit + model-backed + mixed components
     under a Container, two-Einsum workload) under (F1, F2, F1) over 8 subsets (thorough: all 16), so every
     "computed, switched off, requested again" pattern occurs.
  C. seeded random histories of 1-4 calls over random architectures whose components take their costs
     from explicit numbers, from a hwcomponents model (component_class, value omitted) or from both, with
     non-unit scale factors / n_parallel_instances, 0 / 2 / 3 Einsums; every call picks its target (last
     returned spec, the original spec, any earlier returned spec), a copy mode (none, copy.copy,
     copy.deepcopy, model_copy, model_copy(deep=True)), a flag subset and an Einsum name; the fan-out of a
     Container above the components is changed before some calls (totals may follow, per-instance values
     may not).
"""
import copy, itertools, math, os, random, tempfile

KINDS = ("area", "energy", "throughput", "leak")
ALL = dict(area=True, energy=True, throughput=True, leak=True)
CLASSES = {}  # no open known-finding class for C27 (F6 is repaired)

# hwcomponents models that load in this sandbox (CACTI-backed ones such as SRAM / SmartBufferSRAM and the
# NeuroSim ones do not); Dummy takes the `_is_dummy` path (0 / inf) and is scaled like the others
MEM_MODELS = [("RaaamEDRAM", {}), ("AladdinRegister", {}), ("JiaShiftAdd", {}), ("AladdinCounter", {}), ("Dummy", {})]
CMP_MODELS = [("IntMAC", {"multiplier_width": 8, "adder_width": 16}), ("IntMAC", {"multiplier_width": 4, "adder_width": 8}), ("Dummy", {})]
COPY_MODES = ("none", "copy", "deepcopy", "model_copy", "model_copy_deep")

BOUND = ("A: 25 (quick) / 250 (thorough) random flat architectures (1-3 memories + compute, explicit numbers), histories of 2-3 calls; "
         "B (exhaustive core): an explicit architecture (Main, Container PE x2 [Buf x2, MAC x4]) under all 256 flag histories (F1, F2, F1) over the 16 flag "
         "subsets (thorough: all 4096 (F1, F2, F3)), and a composite architecture (Main explicit, PE x2 [Buf RaaamEDRAM, Reg JiaShiftAdd mixed, MAC IntMAC], "
         "2 Einsums) under the 64 histories (F1, F2, F1) over 8 subsets {all, one kind off, area only, energy only, none} (thorough: all 256 (F1, F2, F1) "
         "and 240 (F1, F2, F2)); "
         "C: 220 (quick) / 2200 (thorough) seeded random histories of 1-4 calls, architectures of 1-3 memories + compute (+ optional Container), "
         "each component explicit / model-backed / mixed (models: RaaamEDRAM, AladdinRegister, JiaShiftAdd, AladdinCounter, IntMAC, Dummy), "
         "scale factors and n_parallel_instances from {0.5, 1, 2, 3, 4, 5, 7}, workloads of 0 / 2 / 3 Einsums, targets {last, original, earlier returned}, "
         "5 copy modes, 16 flag subsets, Einsum names {None, each Einsum}, the Container's fan-out changed before a call with probability 0.2; "
         "plus 14 core histories in which the Container's fan-out changes between the calls")
RULE = ("The real Spec.calculate_component_costs is called along a history of calls on real Specs parsed from YAML. The oracle tracks, per spec object, which cost "
        "kinds (area, leak, energy, throughput) earlier calls have computed. Required after every call on a target T returning R: (1) for every component and "
        "every kind already computed in T, R has exactly T's value from before the call (per-instance area, leak_power, per-action energy, per-action "
        "throughput; total_area / total_leak_power are not compared) -- also when the kind is switched off in this call and requested again later, when T "
        "is a copy (copy.copy / deepcopy / model_copy / model_copy(deep=True)) of a costed spec, and when the call names another Einsum than the call "
        "that computed the kind: only architectures whose attributes do not depend on the workload are used, so a changed einsum_name must not change any "
        "value, and when the fan-out of a Container above the components was changed between the calls; (2) T's own computed values are not altered by the call; (3) a kind computed for the first time by this call (late in a history, after "
        "copies, on the original spec again) has the value a direct calculation gives: explicit number, or the model's value obtained once from an unscaled "
        "one-component spec, times the scale factors and n_parallel_instances written out in the oracle (rel. tol. 1e-9); (4) no call raises. "
        "A call with every flag off must return the spec unchanged.")


# ---------------------------------------------------------------------------------------------- yaml
def _fmt(v):
    return "inf" if v == math.inf else repr(v) if isinstance(v, float) else str(v)


def _yaml(rnd, comps, container=None, einsums=0):
    """comps: list of component dicts (see _rand_comps / _rand_comps2); values that are None are omitted
    (they then come from the component model named by 'cls')"""
    lines = ["arch:"]
    if any(c.get("cls") for c in comps):
        lines.append("  extra_attributes_for_all_component_models: {tech_node: 16e-9}")
    lines.append("  nodes:")
    for i, c in enumerate(comps):
        kind, name, f = c["kind"], c["name"], c
        if container and container["before"] == i:
            lines.append(f"  - !Container {{name: {container['name']}, spatial: [{{name: Y, fanout: {container['fan']}}}]}}")
        acts = []
        for a in f["energy"]:
            parts = [f"name: {a}"]
            if f["energy"][a] is not None:
                parts.append(f"energy: {_fmt(f['energy'][a])}")
            if f["thr"][a] is not None:
                parts.append(f"throughput: {_fmt(f['thr'][a])}")
            parts += [f"energy_scale: {f['aes'][a]}", f"throughput_scale: {f['ats'][a]}"]
            acts.append("{" + ", ".join(parts) + "}")
        acts = ", ".join(acts)
        extra = ""
        if kind == "Memory":
            extra = "size: 1024, " if f.get("cls") else "size: inf, "
        if f.get("cls"):
            extra += f"component_class: {f['cls']}, "
            if f.get("attrs"):
                extra += "extra_attributes_for_component_model: {" + ", ".join(f"{k}: {v}" for k, v in f["attrs"].items()) + "}, "
        if f["area"] is not None:
            extra += f"area: {_fmt(f['area'])}, "
        if f["leak"] is not None:
            extra += f"leak_power: {_fmt(f['leak'])}, "
        sp = f", spatial: [{{name: X, fanout: {f['fan']}}}]" if f["fan"] > 1 else ""
        lines.append(f"  - !{kind} {{name: {name}, {extra}area_scale: {f['as']}, leak_power_scale: {f['ls']}, energy_scale: {f['es']}, throughput_scale: {f['ts']}, n_parallel_instances: {f['np']}, actions: [{acts}]{sp}}}")
    if einsums:
        lines += ["workload:", "  iteration_space_shape:", "    m: 0 <= m < 4"]
        lines += [f"    n{i}: 0 <= n{i} < {2 + i}" for i in range(einsums + 1)]
        lines += ["  bits_per_value: {All: 8}", "  einsums:"]
        for i in range(einsums):
            lines += [f"  - name: E{i}", "    tensor_accesses:", f"    - {{name: T{i}, projection: [m, n{i}]}}", f"    - {{name: W{i}, projection: [n{i}, n{i + 1}]}}",
                      f"    - {{name: T{i + 1}, projection: [m, n{i + 1}], output: True}}"]
    return "\n".join(lines)


def _parse(y):
    from accelforge.frontend.spec import Spec

    with tempfile.NamedTemporaryFile("w", suffix=".yaml", delete=False) as f:
        f.write(y)
        path = f.name
    try:
        return Spec.from_yaml(path)
    finally:
        os.unlink(path)


def _rand_comps(rnd):
    vals = [1, 2, 3, 0.5, 5, 7, 1, 1]
    comps = []
    n_mem = rnd.randint(1, 3)
    for i in range(n_mem + 1):
        kind = "Memory" if i < n_mem else "Compute"
        acts = ["read", "write"] if kind == "Memory" else ["compute"]
        comps.append(dict(kind=kind, name=f"N{i}", area=rnd.choice([0, 1, 10, 2.5]), leak=rnd.choice([0, 1, 3]), fan=rnd.choice([1, 1, 2, 4]),
                          **{"as": rnd.choice(vals), "ls": rnd.choice(vals), "es": rnd.choice(vals), "ts": rnd.choice(vals), "np": rnd.choice([1, 1, 2, 4])},
                          energy={a: rnd.choice([0, 1, 2.5]) for a in acts}, thr={a: rnd.choice([1, 2, 8]) for a in acts},
                          aes={a: rnd.choice(vals) for a in acts}, ats={a: rnd.choice(vals) for a in acts}))
    return comps


def _rand_comps2(rnd):
    """like _rand_comps, each component explicit / model-backed / mixed"""
    comps = _rand_comps(rnd)
    for c in comps:
        src = rnd.choice(["explicit", "model", "model", "mixed"])
        c["src"] = src
        if src == "explicit":
            continue
        c["cls"], c["attrs"] = rnd.choice(MEM_MODELS if c["kind"] == "Memory" else CMP_MODELS)
        drop = (lambda: True) if src == "model" else (lambda: rnd.random() < 0.5)
        if drop():
            c["area"] = None
        if drop():
            c["leak"] = None
        for a in c["energy"]:
            if drop():
                c["energy"][a] = None
            if drop():
                c["thr"][a] = None
    return comps


# ---------------------------------------------------------------------------------------------- reference values
_RAW = {}


def _raw(kind, cls, attrs):
    """the model's own values: one real calculation of an unscaled one-component spec (cached)"""
    key = (kind, cls, tuple(sorted(attrs.items())))
    if key not in _RAW:
        acts = ["read", "write"] if kind == "Memory" else ["compute"]
        one = {a: 1 for a in acts}
        none = {a: None for a in acts}
        c = dict(kind=kind, name="X", cls=cls, attrs=attrs, area=None, leak=None, fan=1, **{"as": 1, "ls": 1, "es": 1, "ts": 1, "np": 1}, energy=dict(none), thr=dict(none), aes=one, ats=one)
        comps = [c]
        if kind == "Memory":
            comps.append(dict(kind="Compute", name="C", area=1, leak=1, fan=1, **{"as": 1, "ls": 1, "es": 1, "ts": 1, "np": 1}, energy={"compute": 1}, thr={"compute": 1}, aes={"compute": 1}, ats={"compute": 1}))
        s = _parse(_yaml(None, comps)).calculate_component_costs()
        x = s.arch.find("X")
        _RAW[key] = dict(area=x.area, leak=x.leak_power, energy={a.name: a.energy for a in x.actions}, thr={a.name: a.throughput for a in x.actions})
    return _RAW[key]


def _reference(comps):
    """what one direct calculation gives, written out: value x scale factors x n_parallel_instances
    (area, leak power and throughput count the parallel instances; energy per action does not)"""
    ref = {}
    for c in comps:
        raw = _raw(c["kind"], c["cls"], c["attrs"]) if c.get("cls") else None
        pick = lambda v, r: v if v is not None else r
        area = pick(c["area"], raw and raw["area"]) * c["as"] * c["np"]
        leak = pick(c["leak"], raw and raw["leak"]) * c["ls"] * c["np"]
        en = {a: pick(c["energy"][a], raw and raw["energy"][a]) * c["es"] * c["aes"][a] for a in c["energy"]}
        th = {a: pick(c["thr"][a], raw and raw["thr"][a]) * c["ts"] * c["ats"][a] * c["np"] for a in c["thr"]}
        ref[c["name"]] = dict(area=area, leak=leak, energy=en, throughput=th)
    return ref


def _close(a, b):
    if a is None or b is None:
        return a is b
    if a == b:
        return True
    try:
        return abs(a - b) <= 1e-9 * max(abs(a), abs(b))
    except TypeError:
        return False


def _snap(spec, names):
    out = {}
    for n in names:
        c = spec.arch.find(n)
        out[n] = dict(area=c.area, leak=c.leak_power, energy={a.name: a.energy for a in c.actions}, throughput={a.name: a.throughput for a in c.actions})
    return out


def _copy_of(s, mode):
    if mode == "copy":
        return copy.copy(s)
    if mode == "deepcopy":
        return copy.deepcopy(s)
    if mode == "model_copy":
        return s.model_copy()
    if mode == "model_copy_deep":
        return s.model_copy(deep=True)
    return s


# ---------------------------------------------------------------------------------------------- one history
def _history(desc, history):
    """desc: {comps, container, einsums}; history: list of steps {on: index into the list of specs so far (0 = the
    original, k = the spec returned by call k), copy: mode, flags: {kind: bool}, einsum: None | name, bump: None | new
    fan-out of the Container, set on the target just before the call}.
    Returns (ok, info, number of real calls)"""
    comps = desc["comps"]
    y = _yaml(None, comps, desc.get("container"), desc.get("einsums", 0))
    names = [c["name"] for c in comps]
    calls = 0

    def fail(step, comp, what, observed, required):
        return False, {"yaml": y, "history": history, "call": step + 1, "component": comp, "what": what, "observed": str(observed), "required": str(required)}, calls

    try:
        ref = _reference(comps)
        specs = [_parse(y)]
    except Exception as e:  # the family only contains well-formed specs whose models load
        return fail(-1, None, "setup", f"{type(e).__name__}: {str(e)[:300]}", "the spec parses and its models load")
    done = [set()]
    for step, st in enumerate(history):
        flags = st["flags"]
        T = specs[st["on"]]
        dT = done[st["on"]]
        try:
            if st.get("copy", "none") != "none":
                before_copy = _snap(T, names)
                T = _copy_of(T, st["copy"])
                if _snap(T, names) != before_copy:
                    return fail(step, None, f"{st['copy']} of the spec", _snap(T, names), before_copy)
            if st.get("bump") and desc.get("container"):
                # the hierarchy above the components changes between two calls: totals may follow it, the
                # per-instance values may not
                T.arch.find(desc["container"]["name"]).spatial[0].fanout = st["bump"]
            pre = _snap(T, names)
            calls += 1
            R = T.calculate_component_costs(einsum_name=st.get("einsum"), **flags)
            post = _snap(T, names)
            cur = _snap(R, names)
        except Exception as e:
            return fail(step, None, "call", f"{type(e).__name__}: {str(e)[:300]}", "no exception")
        on = {k for k in KINDS if flags[k]}
        if not on and R is not T:
            return fail(step, None, "all flags off", "a different object", "the spec itself, unchanged")
        for n in names:
            for k in KINDS:
                if k in dT:
                    if cur[n][k] != pre[n][k]:
                        return fail(step, n, k, cur[n][k], f"unchanged (computed by an earlier call): {pre[n][k]}")
                    if post[n][k] != pre[n][k]:
                        return fail(step, n, k + " of the spec the call was made on", post[n][k], f"unchanged: {pre[n][k]}")
                elif k in on:
                    want, got = ref[n][k], cur[n][k]
                    same = all(_close(got.get(a), want[a]) for a in want) if isinstance(want, dict) else _close(got, want)
                    if not same:
                        return fail(step, n, k + " (first computed by this call)", got, f"value of a direct calculation: {want}")
        specs.append(R)
        done.append(set(dT) | on)
    return True, None, calls


# ---------------------------------------------------------------------------------------------- original family (A)
def _case(comps, history):
    """history: list of flag dicts, every call on the spec returned by the previous one"""
    ok, info, _ = _history({"comps": comps}, [{"on": i, "copy": "none", "flags": f, "einsum": None} for i, f in enumerate(history)])
    return ok, info


WITNESS_F6 = [dict(kind="Memory", name="Main", area=10, leak=1, fan=1, **{"as": 2, "ls": 3, "es": 5, "ts": 7, "np": 2},
                   energy={"read": 1, "write": 1}, thr={"read": 1, "write": 1}, aes={"read": 1, "write": 1}, ats={"read": 1, "write": 1}),
              dict(kind="Compute", name="MAC", area=1, leak=0, fan=1, **{"as": 1, "ls": 1, "es": 1, "ts": 1, "np": 1},
                   energy={"compute": 1}, thr={"compute": 1}, aes={"compute": 1}, ats={"compute": 1})]


def witness(p):
    ok, info = _case(WITNESS_F6, [ALL, ALL, ALL])
    return {"failed": not ok, "observed": info and info["observed"], "case": info}


def _sweep(rnd, n):
    seen = set()
    for k in range(n):
        comps = _rand_comps(rnd)
        L = rnd.randint(2, 3)
        if rnd.random() < 0.5:
            hist = [ALL] * L
        else:
            hist = [{f: rnd.random() < 0.6 for f in ALL} for _ in range(L)]
            hist = [h if any(h.values()) else ALL for h in hist]
        seen.add(repr((comps, hist)))
        ok, info = _case(comps, hist)
        if not ok:
            return k + 1, len(seen), info
    return n, len(seen), None


# ---------------------------------------------------------------------------------------------- exhaustive core (B)
def _core_desc(explicit=False):
    u2 = {"read": 1, "write": 1}
    if explicit:
        comps = [
            dict(WITNESS_F6[0]),
            dict(kind="Memory", name="Buf", area=2.5, leak=3, fan=2, **{"as": 2, "ls": 3, "es": 5, "ts": 0.5, "np": 2},
                 energy={"read": 2.5, "write": 0}, thr={"read": 8, "write": 2}, aes={"read": 3, "write": 1}, ats={"read": 1, "write": 7}),
            dict(kind="Compute", name="MAC", area=1, leak=1, fan=4, **{"as": 2, "ls": 7, "es": 5, "ts": 0.5, "np": 3},
                 energy={"compute": 2.5}, thr={"compute": 2}, aes={"compute": 2}, ats={"compute": 3}),
        ]
        return {"comps": comps, "container": {"before": 1, "name": "PE", "fan": 2}, "einsums": 0}
    comps = [
        dict(WITNESS_F6[0]),
        dict(kind="Memory", name="Buf", cls="RaaamEDRAM", attrs={}, area=None, leak=None, fan=2, **{"as": 2, "ls": 3, "es": 5, "ts": 0.5, "np": 2},
             energy={"read": None, "write": None}, thr={"read": None, "write": None}, aes={"read": 3, "write": 1}, ats={"read": 1, "write": 7}),
        dict(kind="Memory", name="Reg", cls="JiaShiftAdd", attrs={}, area=2.5, leak=None, fan=1, **{"as": 3, "ls": 2, "es": 1, "ts": 2, "np": 4},
             energy={"read": 2.5, "write": None}, thr={"read": None, "write": 8}, aes={"read": 2, "write": 5}, ats=dict(u2)),
        dict(kind="Compute", name="MAC", cls="IntMAC", attrs={"multiplier_width": 8, "adder_width": 16}, area=None, leak=None, fan=4, **{"as": 2, "ls": 7, "es": 5, "ts": 0.5, "np": 3},
             energy={"compute": None}, thr={"compute": None}, aes={"compute": 2}, ats={"compute": 3}),
    ]
    return {"comps": comps, "container": {"before": 1, "name": "PE", "fan": 2}, "einsums": 2}


SUBSETS = [dict(zip(KINDS, bits)) for bits in itertools.product([True, False], repeat=4)]  # ALL first, all-off last
# ALL, each kind switched off, area only, energy only, all off
SUBSETS8 = [ALL] + [{**ALL, k: False} for k in KINDS] + [{x: x == k for x in KINDS} for k in ("area", "energy")] + [SUBSETS[-1]]


def _core(thorough):
    """every history is run on a fresh parse of the architecture"""
    ev = cases = 0
    aba = lambda S: [(a, b, a) for a in S for b in S]
    plan = [(_core_desc(True), itertools.product(SUBSETS, repeat=3) if thorough else aba(SUBSETS)),
            (_core_desc(False), aba(SUBSETS) + [(a, b, b) for a in SUBSETS for b in SUBSETS if a != b] if thorough else aba(SUBSETS8))]
    for desc, hists in plan:
        for hist in hists:
            ok, info, calls = _history(desc, [{"on": i, "copy": "none", "flags": f, "einsum": None} for i, f in enumerate(hist)])
            ev += calls
            cases += 1
            if not ok:
                return ev, cases, info
    for desc in (_core_desc(True), _core_desc(False)):  # the Container's fan-out changes between the calls
        for f in SUBSETS8[:-1]:
            ok, info, calls = _history(desc, [{"on": 0, "copy": "none", "flags": ALL, "einsum": None}, {"on": 1, "copy": "none", "flags": f, "einsum": None, "bump": 5},
                                              {"on": 2, "copy": "none", "flags": ALL, "einsum": None, "bump": 1}])
            ev += calls
            cases += 1
            if not ok:
                return ev, cases, info
    return ev, cases, None


# ---------------------------------------------------------------------------------------------- random histories (C)
def _rand_history(rnd, einsums):
    L = rnd.choice([1, 2, 3, 3, 4, 4])
    names = [None] + [f"E{i}" for i in range(einsums)]
    hist = []
    for i in range(L):
        r = rnd.random()
        on = i if r < 0.6 else 0 if r < 0.8 else rnd.randint(0, i)
        r = rnd.random()
        flags = dict(ALL) if r < 0.35 else rnd.choice(SUBSETS) if r < 0.45 else {k: rnd.random() < 0.6 for k in KINDS}
        hist.append({"on": on, "copy": rnd.choice(COPY_MODES) if rnd.random() < 0.45 else "none", "flags": flags, "einsum": rnd.choice(names),
                     "bump": rnd.choice([1, 4, 5]) if rnd.random() < 0.2 else None})
    return hist


# fixed histories: every third random architecture gets the next one (round-robin), so each pattern named in the
# property's strengthening occurs whatever the seed
def _fixed_histories(einsums):
    e = [None] + [f"E{i}" for i in range(einsums)]
    off = lambda k: {**ALL, k: False}
    only = lambda k: {x: x == k for x in KINDS}
    H = lambda *steps: [{"on": on, "copy": cp, "flags": fl, "einsum": e[en % len(e)]} for on, cp, fl, en in steps]
    out = []
    for k in KINDS:
        out.append(H((0, "none", ALL, 0), (1, "none", off(k), 0), (2, "none", ALL, 0)))  # computed, switched off, requested again
        out.append(H((0, "none", only(k), 0), (1, "none", off(k), 1), (2, "none", ALL, 2), (3, "none", only(k), 1)))
    for cp in COPY_MODES[1:]:
        out.append(H((0, "none", ALL, 0), (1, cp, ALL, 0), (2, cp, ALL, 0)))
        out.append(H((0, "none", only("area"), 0), (1, cp, only("energy"), 1), (2, cp, ALL, 2), (1, cp, ALL, 0)))
    out.append(H((0, "none", ALL, 0), (1, "none", ALL, 1), (2, "none", ALL, 2), (0, "none", ALL, 1)))  # Einsum changes; original again
    out.append(H((0, "none", ALL, 1), (0, "none", ALL, 2), (0, "none", ALL, 0), (1, "none", ALL, 2)))  # original three times, then the first result
    out.append(H((0, "none", only("throughput"), 2), (1, "none", only("leak"), 1), (2, "none", ALL, 0), (3, "deepcopy", ALL, 2)))
    for h in (H((0, "none", ALL, 0), (1, "none", ALL, 0), (2, "none", only("area"), 1)), H((0, "none", only("area"), 0), (1, "model_copy", ALL, 0), (0, "none", ALL, 0), (2, "none", off("area"), 0))):
        for st, b in zip(h[1:], (5, 1, 4)):  # the Container's fan-out changes before the later calls
            st["bump"] = b
        out.append(h)
    return out


def _random(rnd, n):
    ev = 0
    seen = set()
    samples = []
    for k in range(n):
        comps = _rand_comps2(rnd)
        einsums = rnd.choice([0, 2, 2, 3])
        container = {"before": rnd.randint(0, len(comps) - 1), "name": "PE", "fan": rnd.choice([2, 3])} if rnd.random() < 0.4 else None
        desc = {"comps": comps, "container": container, "einsums": einsums}
        if k % 3 == 2:
            fx = _fixed_histories(einsums)
            hist = fx[(k // 3) % len(fx)]
            if any(h.get("bump") for h in hist) and not container:
                container = desc["container"] = {"before": 0, "name": "PE", "fan": 2}
        else:
            hist = _rand_history(rnd, einsums)
        seen.add(repr((desc, hist)))
        if len(samples) < 6 and k % 7 == 0:
            samples.append("; ".join(f"{c['name']}:{c.get('src', 'explicit')}{'/' + c['cls'] if c.get('cls') else ''}" for c in comps) + f" | {einsums} einsums | " +
                           " -> ".join(f"on{h['on']}{'' if h['copy'] == 'none' else '.' + h['copy']}{'.fanout=' + str(h['bump']) if h.get('bump') else ''}({','.join(x for x in KINDS if h['flags'][x]) or 'none'};{h['einsum']})" for h in hist))
        ok, info, calls = _history(desc, hist)
        ev += calls
        if not ok:
            return ev, len(seen), info, samples
    return ev, len(seen), None, samples


# ---------------------------------------------------------------------------------------------- modes
def _failed(info):
    return {"failed": True, "input": info, "observed": info["observed"], "required": info["required"]}


def _run(seed, thorough):
    import logging

    prev = logging.root.manager.disable
    logging.disable(logging.CRITICAL)  # the modeling log messages of ~1500 calculations are not wanted on stderr
    try:
        return _run_(seed, thorough)
    finally:
        logging.disable(prev)


def _run_(seed, thorough):
    rnd = random.Random(seed)
    ev, distinct, bad = _sweep(rnd, 250 if thorough else 25)
    if bad:
        return _failed(bad)
    ok, info = _case(WITNESS_F6, [ALL, ALL, ALL])
    if not ok:
        return _failed(info)
    ev_b, cases_b, bad = _core(thorough)
    if bad:
        return _failed(bad)
    ev_c, distinct_c, bad, samples = _random(random.Random(seed * 7919 + 1), 2200 if thorough else 220)
    if bad:
        return _failed(bad)
    samples = ["F6 witness: Memory area 10, area_scale 2, n_parallel_instances 2; three calls", f"core: {cases_b} flag histories on Main PE[Buf MAC] (explicit) and Main(explicit) PE[Buf(RaaamEDRAM) Reg(JiaShiftAdd, mixed) MAC(IntMAC)]"] + samples
    return {"failed": False, "evaluations": ev + 1 + ev_b + ev_c, "distinct": distinct + 1 + cases_b + distinct_c, "known_finding_hits": 0, "bound": BOUND, "rule": RULE,
            "exhaustive": True, "samples": samples[:8]}


def crosscheck(p):
    return _run(p.get("seed", 0), p.get("n", 200) > 200)


def bounded(p):
    return _run(p.get("seed", 0), p.get("tier", "quick") == "thorough")


def replay(p):
    ok, info = _case(WITNESS_F6, [ALL, ALL, ALL])
    if not ok:
        return _failed(info)
    tried = 1
    ev, _, bad = _sweep(random.Random(p.get("seed", 0)), 30)
    if bad:
        return _failed(bad)
    tried += ev
    desc = _core_desc()
    for hist in _fixed_histories(2):
        ok, info, _ = _history(desc, hist)
        tried += 1
        if not ok:
            return _failed(info)
    ev, n, bad, _ = _random(random.Random(p.get("seed", 0) * 7919 + 1), 40)
    if bad:
        return _failed(bad)
    return {"failed": False, "tried": tried + n}
