"""Executable oracle for C27: call histories of calculate_component_costs on real Specs."""
import os, random, tempfile


def _yaml(rnd, comps):
    lines = ["arch:", "  nodes:"]
    for c in comps:
        kind, name, f = c["kind"], c["name"], c
        acts = ", ".join(f"{{name: {a}, energy: {f['energy'][a]}, throughput: {f['thr'][a]}, energy_scale: {f['aes'][a]}, throughput_scale: {f['ats'][a]}}}" for a in f["energy"])
        extra = "size: inf, " if kind == "Memory" else ""
        sp = f", spatial: [{{name: X, fanout: {f['fan']}}}]" if f["fan"] > 1 else ""
        lines.append(f"  - !{kind} {{name: {name}, {extra}area: {f['area']}, leak_power: {f['leak']}, area_scale: {f['as']}, leak_power_scale: {f['ls']}, energy_scale: {f['es']}, throughput_scale: {f['ts']}, n_parallel_instances: {f['np']}, actions: [{acts}]{sp}}}")
    return "\n".join(lines)


def _rand_comps(rnd):
    vals = [1, 2, 3, 0.5, 5, 7, 1, 1]
    comps = []
    n_mem = rnd.randint(1, 3)
    for i in range(n_mem + 1):
        kind = "Memory" if i < n_mem else "Compute"
        acts = ["read", "write"] if kind == "Memory" else ["compute"]
        comps.append(dict(kind=kind, name=f"N{i}", area=rnd.choice([0, 1, 10, 2.5]), leak=rnd.choice([0, 1, 3]), fan=rnd.choice([1, 1, 2, 4]),
                          **{"as": rnd.choice(vals), "ls": rnd.choice(vals), "es": rnd.choice(vals), "ts": rnd.choice(vals), "np": rnd.choice([1, 1, 2, 4])},
                          energy={a: rnd.choice([0, 1, 2.5]) for a in acts}, thr={a: rnd.choice([1, 2, 8]) for a in acts},
                          aes={a: rnd.choice(vals) for a in acts}, ats={a: rnd.choice(vals) for a in acts}))
    return comps


def _snapshot(spec, names):
    out = {}
    for n in names:
        c = spec.arch.find(n)
        out[n] = (c.area, c.leak_power, c.total_area, c.total_leak_power, tuple((a.name, a.energy, a.throughput) for a in c.actions))
    return out


def _case(comps, history):
    """history: list of flag dicts; after a kind has been calculated once, later calls must not change it"""
    from accelforge.frontend.spec import Spec

    y = _yaml(None, comps)
    with tempfile.NamedTemporaryFile("w", suffix=".yaml", delete=False) as f:
        f.write(y)
        path = f.name
    try:
        s = Spec.from_yaml(path)
    finally:
        os.unlink(path)
    names = [c["name"] for c in comps]
    done = set()
    prev = None
    for step, flags in enumerate(history):
        s = s.calculate_component_costs(**flags)
        cur = _snapshot(s, names)
        if prev is not None:
            for n in names:
                a0, l0, ta0, tl0, acts0 = prev[n]
                a1, l1, ta1, tl1, acts1 = cur[n]
                bad = []
                if "area" in done and (a0, ta0) != (a1, ta1):
                    bad.append(("area", (a0, ta0), (a1, ta1)))
                if "leak" in done and (l0, tl0) != (l1, tl1):
                    bad.append(("leak_power", (l0, tl0), (l1, tl1)))
                if "energy" in done and [(x[0], x[1]) for x in acts0] != [(x[0], x[1]) for x in acts1]:
                    bad.append(("energy", acts0, acts1))
                if "throughput" in done and [(x[0], x[2]) for x in acts0] != [(x[0], x[2]) for x in acts1]:
                    bad.append(("throughput", acts0, acts1))
                if bad:
                    return False, {"yaml": y, "history": history, "call": step + 1, "component": n, "observed": str(bad[0][2]), "required": f"{bad[0][0]} unchanged: {bad[0][1]}"}
        done |= {k for k, v in flags.items() if v}
        prev = cur
    return True, None


ALL = dict(area=True, energy=True, throughput=True, leak=True)
WITNESS_F6 = [dict(kind="Memory", name="Main", area=10, leak=1, fan=1, **{"as": 2, "ls": 3, "es": 5, "ts": 7, "np": 2},
                   energy={"read": 1, "write": 1}, thr={"read": 1, "write": 1}, aes={"read": 1, "write": 1}, ats={"read": 1, "write": 1}),
              dict(kind="Compute", name="MAC", area=1, leak=0, fan=1, **{"as": 1, "ls": 1, "es": 1, "ts": 1, "np": 1},
                   energy={"compute": 1}, thr={"compute": 1}, aes={"compute": 1}, ats={"compute": 1})]


def witness(p):
    ok, info = _case(WITNESS_F6, [ALL, ALL, ALL])
    return {"failed": not ok, "observed": info and info["observed"], "case": info}


def _sweep(rnd, n):
    seen = set()
    for k in range(n):
        comps = _rand_comps(rnd)
        L = rnd.randint(2, 3)
        if rnd.random() < 0.5:
            hist = [ALL] * L
        else:
            hist = [{f: rnd.random() < 0.6 for f in ALL} for _ in range(L)]
            hist = [h if any(h.values()) else ALL for h in hist]
        seen.add(repr((comps, hist)))
        ok, info = _case(comps, hist)
        if not ok:
            return k + 1, len(seen), info
    return n, len(seen), None


def replay(p):
    ok, info = _case(WITNESS_F6, [ALL, ALL, ALL])
    if not ok:
        return {"failed": True, "input": info, "observed": info["observed"], "required": info["required"]}
    ev, _, bad = _sweep(random.Random(p.get("seed", 0)), 30)
    if bad:
        return {"failed": True, "input": bad, "observed": bad["observed"], "required": bad["required"]}
    return {"failed": False, "tried": ev + 1}


def crosscheck(p):
    n = 25 if p.get("n", 200) <= 200 else 250
    ev, distinct, bad = _sweep(random.Random(p.get("seed", 0)), n)
    if bad:
        return {"failed": True, "input": bad, "observed": bad["observed"], "required": bad["required"]}
    ok, info = _case(WITNESS_F6, [ALL, ALL, ALL])
    if not ok:
        return {"failed": True, "input": info, "observed": info["observed"], "required": info["required"]}
    return {"failed": False, "evaluations": ev + 1, "distinct": distinct + 1, "rule": "random architectures (1-3 memories + compute) with random area / leak / energy / throughput, scale factors and n_parallel_instances; call histories of length 2-3 of the real Spec.calculate_component_costs (all kinds, or random flag subsets); a kind calculated by an earlier call must keep its values"}
