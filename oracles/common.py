import re
from fractions import Fraction


def model_get(model, base, default=None, conv=None):
    """Value of the z3 constant whose name is `base` or `base!<n>` in a printed model."""
    if not model:
        return default
    best = None
    for k, v in model.items():
        if k == base or re.fullmatch(re.escape(base) + r"![0-9]+", k):
            best = v
            break
    if best is None:
        return default
    return conv(best) if conv else best


def num(s):
    s = str(s).strip().replace("?", "")
    if s.startswith("(- ") and s.endswith(")"):
        return -num(s[3:-1])
    if "/" in s:
        a, b = s.split("/")
        return Fraction(int(a), int(b))
    if "." in s:
        return Fraction(s)
    return int(s)


def in_known(case, known, classes):
    """True if `case` falls in the input class of an open known finding."""
    for e in known or []:
        pred = classes.get(e["class_id"])
        if pred and pred(case):
            return e["class_id"]
    return None
