"""Bounded run-time contract check for C24: workload geometry vs enumeration of the iteration space.

The REAL functions (Workload.n_computes / get_tensor_size, _isl.get_rank_variable_bounds,
_symbolic.get_stride_and_halo[_of_einsum], _symbolic.compute_dense_tile_occupancy) are called on
small generated workloads and compared with a brute-force enumeration of the iteration box that
is written here (no function of the repository is used to compute a required value).

Required values, per workload:
  1. rank-variable bounds == the generated bounds; n_computes(e) == |box(e)|; n_computes() == sum.
  2. tensor size == |intersection over the canonical accesses of {proj(p) | p in box}| (canonical =
     the writers of the tensor, or all readers if it is never written: the rule documented in
     get_tensor_data_space), OR an explicit RuntimeError/ValueError when that image is not a box.
     A number different from the count is a failure; an error is a failure when every canonical
     image and their intersection are (non-empty) boxes.
  3. for each access, rank and rank variable with a non-zero coefficient: stride == the (constant)
     change of the rank coordinate when only that variable is increased by one; halo == max - min of
     the rank coordinate over the box with that variable pinned to its lowest value.
  4. compute_dense_tile_occupancy(projection, bounds) == prod over ranks of (largest coordinate + 1).
Strengthened families (same required values, same known-finding handling):
  a. rank sizes at BOTH levels (workload rank_sizes and Einsum rank_sizes for the same rank, different / equal values, disjoint ranks,
     unused ranks): the documentation is silent about precedence, so the behaviour of the unchanged code is required: the Einsum-level
     size REPLACES the workload-level size of the same rank for that Einsum only; other ranks / other Einsums keep the workload-level size.
  b. images with HOLES inside a bounding box (a*p + b*r + c with a, b in 0..4): exact count or explicit error, never the box size.
  c. call patterns of get_stride_and_halo / get_stride_and_halo_of_einsum: one bounds dict object passed to many calls in several orders,
     modified by the caller between calls; plain use (P: p) next to compound use (H: a*p + b*r) across tensors whose names sort both ways.
"""
import itertools, math, random

VARS = ["m", "n", "k", "p", "q"]
COEFFS = [(a, b, c) for a in (0, 1, 2) for b in (0, 1, 2) for c in (0, 1) if (a, b, c) != (0, 0, 0)]

# Input classes for which the unchanged code does not give the value required above.  They are
# excluded from the comparison named in the entry (and only from that one); everything else of the
# same workload is still checked.  witness(p) / strict=True re-enables the comparison.
CLASSES = {
    "C24-halo-offset": "rank projection with a constant term c != 0: reported halo is b*(Y-1)+c "
                       "(largest coordinate with the variable pinned at 0) instead of the extra extent b*(Y-1)",
    "C24-rank-order": "tensor whose canonical accesses (several writers, or several readers of a never-written "
                      "tensor) list the same ranks in different orders: images are intersected by position, not by rank name",
}

WITNESS = {
    "C24-halo-offset": {
        "bits_per_value": {"All": 8},
        "einsums": [{"name": "E0", "iteration_space_shape": ["0 <= m < 2", "0 <= n < 3"],
                     "tensor_accesses": [{"name": "A0", "projection": {"A0R0": "m + n + 1"}},
                                         {"name": "Z0", "projection": ["m", "n"], "output": True}]}],
    },
    "C24-rank-order": {
        "bits_per_value": {"All": 8},
        "einsums": [{"name": "E0", "iteration_space_shape": ["0 <= m < 2", "0 <= n < 4"],
                     "tensor_accesses": [{"name": "A", "projection": {"R0": "m", "R1": "n"}},
                                         {"name": "Z0", "projection": ["m", "n"], "output": True}]},
                    {"name": "E1", "iteration_space_shape": ["0 <= m < 2", "0 <= n < 4"],
                     "tensor_accesses": [{"name": "A", "projection": {"R1": "n", "R0": "m"}},
                                         {"name": "Z1", "projection": ["m", "n"], "output": True}]}],
    },
}


# ------------------------------------------------------------------ case -> Workload kwargs / text

def _term(coef, var):
    return var if coef == 1 else f"{coef}*{var}"


def _proj_str(r, style=0):
    """r = {"a":..,"x":..,"b":..,"y":..,"c":..}; style picks one of a few equivalent spellings."""
    terms = []
    if r["a"]:
        terms.append(_term(r["a"], r["x"]))
    if r["b"]:
        terms.append(_term(r["b"], r["y"]))
    if style & 1:
        terms.reverse()
    if r["c"] or not terms:
        terms.append(str(r["c"]))
    sep = " + " if style & 2 else "+"
    return sep.join(terms)


def _coeffs(r):
    """{var: coefficient} of the non-zero variable terms of a rank record."""
    d = {}
    if r["a"]:
        d[r["x"]] = d.get(r["x"], 0) + r["a"]
    if r["b"]:
        d[r["y"]] = d.get(r["y"], 0) + r["b"]
    return d


def _einsum_vars(e):
    """Rank variables of an Einsum in order of first appearance (the order the real code uses)."""
    out = []
    for t in e["tensors"]:
        for r in t["ranks"]:
            for v in ([r["x"]] if r["a"] else []) + ([r["y"]] if r["b"] else []):
                if v not in out:
                    out.append(v)
    return out


def _b(case, e, v):
    """bound of rank variable v in Einsum e: the Einsum's own value (family a: Einsum-level rank size) or the workload-wide one"""
    return e.get("bounds", {}).get(v, case["bounds"][v])


def _kwargs(case):
    """Keyword arguments of accelforge.frontend.workload.Workload for a generated case."""
    kw = {"bits_per_value": {"All": 8}, "einsums": []}
    w_shape, w_sizes = {}, {}
    for e in case["einsums"]:
        ent = {"name": e["name"], "tensor_accesses": []}
        for t in e["tensors"]:
            if t.get("list_form"):
                proj = [r["x"] if r["a"] else r["y"] for r in t["ranks"]]
            else:
                proj = {r["rank"]: _proj_str(r, r.get("style", 0)) for r in t["ranks"]}
            acc = {"name": t["name"], "projection": proj}
            if t["output"]:
                acc["output"] = True
            ent["tensor_accesses"].append(acc)
        shape, sizes = [], {}
        for v in _einsum_vars(e):
            b = _b(case, e, v)
            mode = e["modes"].get(v, "einsum_shape")
            if mode == "einsum_shape":
                shape.append(f"0 <= {v} < {b}")
            elif mode == "workload_shape":
                w_shape[v] = f"0 <= {v} < {b}"
            elif mode == "einsum_rank_size":
                sizes[v.upper()] = b
            elif mode == "workload_rank_size":
                w_sizes[v.upper()] = b
            elif mode == "both_rank_size":  # Einsum-level value b, workload-level value case["bounds"][v] for the same rank
                sizes[v.upper()] = b
                w_sizes[v.upper()] = case["bounds"][v]
        sizes.update(e.get("extra_rank_sizes", {}))  # ranks this Einsum does not have
        if shape:
            ent["iteration_space_shape"] = shape
        if sizes:
            ent["rank_sizes"] = sizes
        kw["einsums"].append(ent)
    if w_shape:
        kw["iteration_space_shape"] = w_shape
    w_sizes.update(case.get("extra_rank_sizes", {}))  # workload-level sizes of ranks that no Einsum bounds by them
    if w_sizes:
        kw["rank_sizes"] = w_sizes
    return kw


# ------------------------------------------------------------------ brute force (written here)

def _box(case, e):
    vs = _einsum_vars(e)
    return vs, [dict(zip(vs, pt)) for pt in itertools.product(*[range(_b(case, e, v)) for v in vs])]


def _value(r, pt):
    return r["a"] * (pt[r["x"]] if r["a"] else 0) + r["b"] * (pt[r["y"]] if r["b"] else 0) + r["c"]


def _image(case, e, t):
    """Set of tensor coordinates (ordered by sorted rank name) touched by access t of Einsum e."""
    _, pts = _box(case, e)
    ranks = sorted(t["ranks"], key=lambda r: r["rank"])
    return {tuple(_value(r, pt) for r in ranks) for pt in pts}


def _is_box(points):
    if not points:
        return False  # empty intersection: 0 or an explicit error are both accepted
    n = len(next(iter(points)))
    vol = 1
    for i in range(n):
        col = [p[i] for p in points]
        vol *= max(col) - min(col) + 1
    return vol == len(points)


def _tensor_required(case, stats=None):
    """{tensor: (count, is_box, rank_order_differs)} with the documented canonical-access rule."""
    acc = {}
    for e in case["einsums"]:
        for t in e["tensors"]:
            acc.setdefault(t["name"], []).append((e, t))
    out = {}
    for name, lst in acc.items():
        writers = [(e, t) for e, t in lst if t["output"]]
        canon = writers if writers else lst
        img, all_box = None, True
        for e, t in canon:
            s = _image(case, e, t)
            all_box = all_box and _is_box(s)
            img = s if img is None else (img & s)
        orders = {tuple(r["rank"] for r in t["ranks"]) for _, t in canon}
        if stats is not None:
            stats["tensors_in_several_einsums"] += len(lst) > 1
            stats["tensors_with_several_canonical_accesses"] += len(canon) > 1
        # an explicit error is allowed as soon as one of the projected images (or their intersection) is not a box
        out[name] = (len(img), all_box and _is_box(img), len(orders) > 1)
    return out


def _stride_halo_required(case, e, t):
    """{(rank, var): (stride or None if unobservable, extent_halo, origin_halo, coefficient, c)}."""
    vs, pts = _box(case, e)
    res = {}
    for r in t["ranks"]:
        for v, coef in _coeffs(r).items():
            diffs = set()
            for pt in pts:
                if pt[v] + 1 < _b(case, e, v):
                    nxt = dict(pt)
                    nxt[v] += 1
                    diffs.add(_value(r, nxt) - _value(r, pt))
            stride = None
            if diffs:
                stride = diffs.pop() if len(diffs) == 1 else ("not constant", sorted(diffs))
            pinned = [_value(r, pt) for pt in pts if pt[v] == 0]
            res[(r["rank"], v)] = (stride, max(pinned) - min(pinned), max(pinned), coef, r["c"])
    return res


# ------------------------------------------------------------------ one case against the real code

def _new_stats():
    return {"einsums": 0, "tensors": 0, "sizes_returned": 0, "explicit_errors_nonbox": 0, "box_images": 0,
            "nonbox_images": 0, "pairs": 0, "pairs_stride_unobservable": 0, "known_finding_hits": 0,
            "excluded_halo_pairs": 0, "excluded_rank_order_tensors": 0, "occupancies": 0, "tensors_in_several_einsums": 0,
            "tensors_with_several_canonical_accesses": 0,
            "ranksize_cases": 0, "einsum_level_replaces_workload_level": 0, "both_levels_equal": 0, "hole_cases": 0, "hole_family_nonbox_images": 0,
            "hole_family_explicit_errors": 0, "call_cases": 0, "call_pattern_calls": 0}


def _as_int(x):
    try:
        if int(x) == x:
            return int(x)
    except Exception:
        pass
    return str(x)


def _check(case, stats, strict=False, known_ids=frozenset(('C24-halo-offset', 'C24-rank-order'))):
    # a finding class is tolerated only while it is listed as an open known finding
    strict_order = strict or 'C24-rank-order' not in known_ids
    strict_halo = strict or 'C24-halo-offset' not in known_ids
    """Returns None if the real code satisfies the contract on this case, else a failure dict."""
    from accelforge.frontend.workload import Workload
    from accelforge.frontend._workload_isl import _isl, _symbolic

    kw = _kwargs(case)

    def fail(what, observed, required):
        return {"failed": True, "input": kw, "what": what, "observed": observed, "required": required}

    try:
        w = Workload(**_kwargs(case))
    except Exception as ex:  # a well-formed workload must be accepted
        return fail("Workload(**input)", f"{type(ex).__name__}: {str(ex)[:300]}", "a Workload object")

    # 1. bounds and operation counts
    total = 0
    for e in case["einsums"]:
        stats["einsums"] += 1
        vs, pts = _box(case, e)
        want = {v: _b(case, e, v) for v in vs}
        try:
            got = {str(k): _as_int(v) for k, v in _isl.get_rank_variable_bounds(w, e["name"]).items()}
        except Exception as ex:
            return fail(f"get_rank_variable_bounds({e['name']})", f"{type(ex).__name__}: {str(ex)[:300]}", want)
        if got != want:
            return fail(f"get_rank_variable_bounds({e['name']})", got, want)
        try:
            n = w.n_computes(e["name"])
        except Exception as ex:
            return fail(f"n_computes({e['name']})", f"{type(ex).__name__}: {str(ex)[:300]}", len(pts))
        if n != len(pts) or len(pts) != math.prod(want.values()):
            return fail(f"n_computes({e['name']})", _as_int(n), len(pts))
        total += len(pts)
    try:
        n = w.n_computes()
    except Exception as ex:
        return fail("n_computes()", f"{type(ex).__name__}: {str(ex)[:300]}", total)
    if n != total:
        return fail("n_computes()", _as_int(n), total)

    # 2. tensor sizes
    for name, (count, is_box, order_differs) in _tensor_required(case, stats).items():
        stats["tensors"] += 1
        stats["box_images" if is_box else "nonbox_images"] += 1
        if order_differs and not strict_order:
            stats["excluded_rank_order_tensors"] += 1
            stats["known_finding_hits"] += 1
            continue
        try:
            size = w.get_tensor_size(name)
        except (RuntimeError, ValueError) as ex:
            if is_box:
                return fail(f"get_tensor_size({name})", f"{type(ex).__name__}: {str(ex)[:200]}",
                            f"{count} (the image is a box, no error is allowed)")
            stats["explicit_errors_nonbox"] += 1
            continue
        except Exception as ex:
            return fail(f"get_tensor_size({name})", f"{type(ex).__name__}: {str(ex)[:300]}",
                        f"{count}" + ("" if is_box else " or an explicit RuntimeError/ValueError (image is not a box)"))
        if isinstance(size, bool) or size != count:
            return fail(f"get_tensor_size({name})", _as_int(size),
                        f"{count}" + ("" if is_box else " or an explicit error (image is not a box)"))
        stats["sizes_returned"] += 1

    # 3. stride and halo, 4. dense occupancy
    try:
        sh_all = _symbolic.get_stride_and_halo(w)
    except Exception as ex:
        return fail("get_stride_and_halo(workload)", f"{type(ex).__name__}: {str(ex)[:300]}", "a dictionary")
    for e in case["einsums"]:
        vs, pts = _box(case, e)
        given = {v: _b(case, e, v) for v in vs}
        passed = dict(given)
        try:
            sh_one = _symbolic.get_stride_and_halo_of_einsum(e["name"], w, passed)
        except Exception as ex:
            return fail(f"get_stride_and_halo_of_einsum({e['name']}, bounds)", f"{type(ex).__name__}: {str(ex)[:300]}", "a dictionary")
        if passed != given:
            return fail(f"get_stride_and_halo_of_einsum({e['name']}, bounds): bounds argument after the call", passed, given)
        for t in e["tensors"]:
            req = _stride_halo_required(case, e, t)
            for label, table in (("get_stride_and_halo", sh_all.get((e["name"], t["name"]))), ("get_stride_and_halo_of_einsum", sh_one.get(t["name"]))):
                where = f"{label}[{e['name']},{t['name']}]"
                if table is None:
                    return fail(where, "missing", "an entry")
                got_keys = sorted((str(a), str(b)) for a, b in table)
                if got_keys != sorted(req):
                    return fail(where + " keys", got_keys, sorted(req))
                for (rank, v), (stride, ext_halo, org_halo, coef, c) in req.items():
                    g = [x for k, x in table.items() if (str(k[0]), str(k[1])) == (rank, v)][0]
                    g = (_as_int(g[0]), _as_int(g[1]))
                    want_stride = coef if stride is None else stride
                    want_halo = ext_halo
                    if c != 0 and not strict_halo:
                        want_halo = org_halo  # class C24-halo-offset, see CLASSES
                    if label == "get_stride_and_halo":
                        stats["pairs"] += 1
                        stats["pairs_stride_unobservable"] += stride is None
                        if c != 0 and not strict_halo:
                            stats["excluded_halo_pairs"] += 1
                            stats["known_finding_hits"] += 1
                    if g != (want_stride, want_halo):
                        return fail(f"{where}[({rank},{v})] (stride, halo)", list(g), [want_stride, want_halo])
            # 4. dense occupancy of the full tile == bounding box anchored at the origin
            want_occ = math.prod(max(_value(r, pt) for pt in pts) + 1 for r in t["ranks"])
            try:
                occ = _symbolic.compute_dense_tile_occupancy(_symbolic.get_projection_expr(w.einsums[e["name"]], t["name"]), dict(given))
            except Exception as ex:
                return fail(f"compute_dense_tile_occupancy[{e['name']},{t['name']}]", f"{type(ex).__name__}: {str(ex)[:300]}", want_occ)
            stats["occupancies"] += 1
            if _as_int(occ) != want_occ:
                return fail(f"compute_dense_tile_occupancy[{e['name']},{t['name']}]", _as_int(occ), want_occ)
    return None


# ------------------------------------------------------------------ the family

def _rand_rank(rnd, evars, p_c=0.3):
    while True:
        x = rnd.choice(evars)
        y = rnd.choice([v for v in evars if v != x]) if len(evars) > 1 else x
        a = rnd.choice((0, 1, 1, 2))
        b = rnd.choice((0, 0, 1, 2)) if y != x else 0
        c = 1 if rnd.random() < p_c else 0
        if (a, b, c) != (0, 0, 0):
            return {"a": a, "x": x, "b": b, "y": y, "c": c, "style": rnd.randrange(4)}


def _rand_tensor(rnd, name, evars, output, private, n_ranks=None, rank_names=None):
    n = n_ranks or rnd.choice((1, 2, 2, 2, 3))
    ranks = []
    for j in range(n):
        r = _rand_rank(rnd, evars)
        bare = (r["a"], r["b"], r["c"]) in ((1, 0, 0), (0, 1, 0))
        if rank_names is not None:
            r["rank"] = rank_names[j]
        else:
            v = r["x"] if r["a"] else r["y"]
            if private and bare and rnd.random() < 0.6 and v.upper() not in [q["rank"] for q in ranks]:
                r["rank"] = v.upper()
            else:
                r["rank"] = f"{name}R{j}"
        ranks.append(r)
    t = {"name": name, "output": output, "ranks": ranks}
    if all(r["rank"] == (r["x"] if r["a"] else r["y"]).upper() and (r["a"], r["b"], r["c"]) in ((1, 0, 0), (0, 1, 0)) for r in ranks) and rnd.random() < 0.5:
        t["list_form"] = True
    return t


def _rand_case(rnd, tier):
    bmax, emax = (4, 2) if tier == "quick" else (6, 3)
    bounds = {v: rnd.randint(1, bmax) for v in VARS}
    n_e = rnd.randint(1, emax)
    einsums, shareable = [], []
    for i in range(n_e):
        evars = rnd.sample(VARS, rnd.randint(1, 3))
        tensors = []
        n_in = rnd.randint(1, 2)
        for j in range(n_in):
            if shareable and rnd.random() < 0.5:
                src = rnd.choice(shareable)
                if src["name"] not in [t["name"] for t in tensors]:
                    names = [r["rank"] for r in src["ranks"]]  # same order: see CLASSES["C24-rank-order"]
                    tensors.append(_rand_tensor(rnd, src["name"], evars, False, False, len(names), names))
                    continue
            tensors.append(_rand_tensor(rnd, "AB"[j] + str(i), evars, False, rnd.random() < 0.7))
        tensors.append(_rand_tensor(rnd, f"Z{i}", evars, True, i == n_e - 1 or rnd.random() < 0.4))
        e = {"name": f"E{i}", "tensors": tensors, "modes": {}}
        names_here = {r["rank"] for t in tensors for r in t["ranks"]}
        for v in _einsum_vars(e):
            modes = ["einsum_shape", "einsum_shape", "workload_shape"]
            if v.upper() in names_here:
                modes += ["einsum_rank_size", "einsum_rank_size", "workload_rank_size", "workload_rank_size"]
            e["modes"][v] = rnd.choice(modes)
        einsums.append(e)
        for t in tensors:
            if all(r["rank"].startswith(t["name"] + "R") for r in t["ranks"]) and t["name"] not in [s["name"] for s in shareable]:
                shareable.append(t)
    used = sorted({v for e in einsums for v in _einsum_vars(e)})
    return {"bounds": {v: bounds[v] for v in used}, "einsums": einsums}


def _core_cases(tier):
    """Exhaustive core: every projection a*m + b*n + c (17 coefficient triples) as a one-rank tensor, and every
    ordered pair of them as a two-rank tensor, for every pair of bounds (M, N)."""
    b1 = 4 if tier == "quick" else 6
    b2 = 2 if tier == "quick" else 3
    for M in range(1, b1 + 1):
        for N in range(1, b1 + 1):
            tensors = []
            for i, (a, b, c) in enumerate(COEFFS):
                tensors.append({"name": f"S{i}", "output": False,
                                "ranks": [{"a": a, "x": "m", "b": b, "y": "n", "c": c, "rank": f"S{i}R0", "style": 0}]})
            tensors.append({"name": "Z0", "output": True, "list_form": True,
                            "ranks": [{"a": 1, "x": "m", "b": 0, "y": "m", "c": 0, "rank": "M"}, {"a": 1, "x": "n", "b": 0, "y": "n", "c": 0, "rank": "N"}]})
            yield {"bounds": {"m": M, "n": N}, "einsums": [{"name": "E0", "tensors": tensors, "modes": {}}]}
    for M in range(1, b2 + 1):
        for N in range(1, b2 + 1):
            for i, (a, b, c) in enumerate(COEFFS):
                tensors = []
                for j, (a2, b2_, c2) in enumerate(COEFFS):
                    tensors.append({"name": f"D{i}x{j}", "output": False, "ranks": [
                        {"a": a, "x": "m", "b": b, "y": "n", "c": c, "rank": f"D{i}x{j}R0", "style": 2},
                        {"a": a2, "x": "m", "b": b2_, "y": "n", "c": c2, "rank": f"D{i}x{j}R1", "style": 2}]})
                tensors.append({"name": "Z0", "output": True,
                                "ranks": [{"a": 1, "x": "m", "b": 0, "y": "m", "c": 0, "rank": "M"}, {"a": 1, "x": "n", "b": 0, "y": "n", "c": 0, "rank": "N"}]})
                yield {"bounds": {"m": M, "n": N}, "einsums": [{"name": "E0", "tensors": tensors, "modes": {"m": "workload_rank_size", "n": "einsum_rank_size"}}]}


# ------------------------------------------------------------------ strengthened families

def _plain(v, rank=None):
    return {"a": 1, "x": v, "b": 0, "y": v, "c": 0, "rank": rank or v.upper(), "style": 0}


def _comp(rank, a, x, b, y, c=0, style=2):
    return {"a": a, "x": x, "b": b, "y": y, "c": c, "rank": rank, "style": style}


def _apply_level(case, e, v, has_w, e_level, own):
    """family a: how the bound of v is written for Einsum e. has_w: the workload-level rank_sizes has V (value case['bounds'][v]);
    e_level: Einsum-level rank size of V or None; own: bound written as Einsum iteration_space_shape when neither level has V.
    Effective bound (REQUIRED, = behaviour of the unchanged code, the documentation does not say): e_level if given, else the workload-level
    size, else own."""
    e.setdefault("bounds", {})
    if e_level is not None:
        e["modes"][v] = "both_rank_size" if has_w else "einsum_rank_size"
        e["bounds"][v] = e_level
    elif has_w:
        e["modes"][v] = "workload_rank_size"
    else:
        e["modes"][v] = "einsum_shape"
        e["bounds"][v] = own


def _ranksize_core(tier):
    """exhaustive: ONE Einsum over m, n (A0[M: m, N: n], B0[B0R0: m + n] -> Z0[m, n]); per variable independently: workload-level size W absent
    or in Ws, Einsum-level size absent or in Es (absent/absent: Einsum iteration_space_shape with bound W)."""
    Ws, Es = ((2, 3), (1, 2, 3, 4)) if tier == "quick" else ((1, 2, 3, 4), (1, 2, 3, 4, 5))
    settings = []
    for W in Ws:
        settings += [(W, False, None), (W, True, None)] + [(W, False, E) for E in Es if E == W] + [(W, True, E) for E in Es]
    for sm in settings:
        for sn in settings:
            e = {"name": "E0", "modes": {}, "tensors": [
                {"name": "A0", "output": False, "ranks": [_plain("m"), _plain("n")]},
                {"name": "B0", "output": False, "ranks": [_comp("B0R0", 1, "m", 1, "n")]},
                {"name": "Z0", "output": True, "list_form": True, "ranks": [_plain("m"), _plain("n")]}]}
            case = {"bounds": {"m": sm[0], "n": sn[0]}, "einsums": [e]}
            for v, (W, has_w, e_level) in (("m", sm), ("n", sn)):
                _apply_level(case, e, v, has_w, e_level, W)
            yield case


def _ranksize_random(rnd):
    """two Einsums over m, n, k sharing tensors; the workload-level size of a rank is one value for the whole workload, every Einsum may
    replace it by its own; also ranks sized only at one level (disjoint), equal values, sizes of ranks nobody has."""
    pool = ["m", "n", "k"]
    W = {v: rnd.randint(1, 4) for v in pool}
    has_w = {v: rnd.random() < 0.65 for v in pool}
    vars1 = ["m", "n"] if rnd.random() < 0.55 else sorted(rnd.sample(pool, 2), key=pool.index)
    e0 = {"name": "E0", "modes": {}, "tensors": [
        {"name": "A0", "output": False, "ranks": [_plain("m"), _plain("n")]},
        {"name": "B0", "output": False, "ranks": [_comp("B0R0", rnd.choice((1, 2)), "m", 1, "n", style=rnd.randrange(4))]},
        {"name": "Z0", "output": True, "list_form": rnd.random() < 0.5, "ranks": [_plain("m"), _plain("n")]}]}
    t1 = []
    if vars1 == ["m", "n"]:
        t1.append({"name": "Z0", "output": False, "list_form": rnd.random() < 0.5, "ranks": [_plain("m"), _plain("n")]})
        if rnd.random() < 0.6:
            t1.append({"name": "A0", "output": False, "list_form": rnd.random() < 0.5, "ranks": [_plain("m"), _plain("n")]})
    else:
        t1.append({"name": "B1", "output": False, "ranks": [_plain(v) for v in vars1]})
    t1.append({"name": "C1", "output": False, "ranks": [_comp("C1R0", 1, vars1[0], rnd.choice((1, 2)), vars1[1], style=rnd.randrange(4))]})
    t1.append({"name": "Z1", "output": True, "list_form": rnd.random() < 0.5, "ranks": [_plain(v) for v in vars1]})
    e1 = {"name": "E1", "modes": {}, "tensors": t1}
    case = {"bounds": {v: W[v] for v in pool if v in ("m", "n") or v in vars1}, "einsums": [e0, e1]}
    for e, vs in ((e0, ["m", "n"]), (e1, vars1)):
        for v in vs:
            e_level = None
            if rnd.random() < 0.55:
                e_level = W[v] if rnd.random() < 0.2 else rnd.randint(1, 4)
            _apply_level(case, e, v, has_w[v], e_level, rnd.randint(1, 4))
        if rnd.random() < 0.3:
            e["extra_rank_sizes"] = {"Q2": rnd.randint(1, 9)}
    if rnd.random() < 0.5:
        case["extra_rank_sizes"] = {"Q": rnd.randint(1, 9)}
    unused = [v for v in pool if v not in case["bounds"]]
    if unused and rnd.random() < 0.5:
        case.setdefault("extra_rank_sizes", {})[unused[0].upper()] = rnd.randint(1, 9)
    if rnd.random() < 0.5:
        case["einsums"].reverse()  # the reader listed before the writer
    return case


HCOEFFS = [(a, b, c) for a in range(5) for b in range(5) for c in (0, 1) if (a, b) != (0, 0)]
HOLES = [(2, 1), (3, 1), (2, 2), (1, 3), (3, 2), (4, 1), (2, 0), (3, 0), (0, 2), (0, 3), (4, 2), (2, 3)]
SECOND = [(1, 0), (0, 1), (1, 1), (0, 2), (2, 1)]


def _hole_core(tier):
    """one Einsum over p, r (output Z0[p, r]); one-rank inputs H = a*p + b*r + c for ALL a, b in 0..4 (not both 0), c in {0, 1}, all bounds
    (P, R) in 1..bmax; two-rank inputs (hole rank, second rank) in both rank orders for a list of bounds."""
    bmax = 3 if tier == "quick" else 5
    out = lambda: {"name": "Z0", "output": True, "list_form": True, "ranks": [_plain("p"), _plain("r")]}
    for P in range(1, bmax + 1):
        for R in range(1, bmax + 1):
            tensors = [{"name": f"S{i}", "output": False, "ranks": [_comp(f"S{i}R0", a, "p", b, "r", c, style=(i % 4))]} for i, (a, b, c) in enumerate(HCOEFFS)]
            yield {"bounds": {"p": P, "r": R}, "einsums": [{"name": "E0", "tensors": tensors + [out()], "modes": {}}]}
    blist = [(2, 1), (3, 2), (2, 3)] if tier == "quick" else [(2, 1), (3, 2), (2, 3), (3, 3), (4, 2), (1, 4), (5, 3)]
    for P, R in blist:
        tensors = []
        for i, (a, b) in enumerate(HOLES):
            for j, (a2, b2) in enumerate(SECOND):
                h, o = _comp(f"T{i}x{j}H", a, "p", b, "r"), _comp(f"T{i}x{j}W", a2, "p", b2, "r")
                tensors.append({"name": f"T{i}x{j}", "output": False, "ranks": [h, o] if (i + j) % 2 else [o, h]})
        yield {"bounds": {"p": P, "r": R}, "einsums": [{"name": "E0", "tensors": tensors + [out()], "modes": {"p": "einsum_rank_size", "r": "workload_rank_size"}}]}


def _hole_random(rnd):
    """a tensor with a hole pattern per Einsum: written by E0 / read by E1, or read by both (size: intersection of two hole patterns)"""
    P, R = rnd.randint(1, 4), rnd.randint(1, 4)
    (a1, b1), (a2, b2) = rnd.choice(HOLES + [(1, 0), (1, 1)]), rnd.choice(HOLES + [(1, 0), (0, 1)])
    two = rnd.random() < 0.4
    def ranks(a, b):
        rs = [_comp("TR0", a, "p", b, "r", 1 if rnd.random() < 0.15 else 0, style=rnd.randrange(4))]
        if two:
            rs.append(_comp("TR1", 0, "p", 1, "r") if rnd.random() < 0.5 else _comp("TR1", 1, "p", 0, "p"))
        return rs
    written = rnd.random() < 0.5
    outp = lambda n: {"name": n, "output": True, "list_form": True, "ranks": [_plain("p"), _plain("r")]}
    e0t = [{"name": "T", "output": written, "ranks": ranks(a1, b1)}] + ([{"name": "I0", "output": False, "ranks": [_plain("p"), _plain("r")]}] if written else [outp("Z0")])
    e1t = [{"name": "T", "output": False, "ranks": ranks(a2, b2)}, outp("Z1")]
    es = [{"name": "E0", "tensors": e0t, "modes": {}}, {"name": "E1", "tensors": e1t, "modes": {}}]
    if rnd.random() < 0.5:
        es.reverse()
    return {"bounds": {"p": P, "r": R}, "einsums": es}


def _call_core(tier):
    """plain use of p (P: p) next to a compound use (H: a*p + b*r [+ c]) - in two tensors whose names sort plain-first and compound-first,
    in one tensor with the two ranks in both orders, and in two Einsums in both orders - for all bounds (P, R) in 1..3."""
    combos = [(1, 1, 0), (2, 1, 0), (1, 2, 0), (1, 1, 1)] if tier == "quick" else [(1, 1, 0), (2, 1, 0), (1, 2, 0), (3, 1, 0), (2, 2, 0), (1, 3, 0), (1, 1, 1), (2, 1, 1)]
    outs = ["Mm", "AA", "zz"]
    i = 0
    for P in (1, 2, 3):
        for R in (1, 2, 3):
            for a, b, c in combos:
                for plain_name, comp_name in (("Aa", "Zz"), ("Zz", "Aa")):
                    i += 1
                    tp = {"name": plain_name, "output": False, "ranks": [_plain("p", "P")] + ([_plain("r", "R")] if i % 3 == 0 else [])}
                    tc = {"name": comp_name, "output": False, "ranks": [_comp("H", a, "p", b, "r", c, style=i % 4)]}
                    o = {"name": outs[i % 3], "output": True, "list_form": True, "ranks": [_plain("p"), _plain("r")]}
                    order = [tp, tc, o] if i % 2 else [tc, o, tp]
                    yield {"bounds": {"p": P, "r": R}, "einsums": [{"name": "E0", "tensors": order, "modes": {}}]}
                    # one tensor, both rank orders
                    rs = [_plain("p", "P"), _comp("H", a, "p", b, "r", c, style=i % 4)]
                    t1 = {"name": plain_name, "output": False, "ranks": rs if i % 2 else rs[::-1]}
                    o = {"name": outs[(i + 1) % 3], "output": True, "list_form": True, "ranks": [_plain("p"), _plain("r")]}
                    yield {"bounds": {"p": P, "r": R}, "einsums": [{"name": "E0", "tensors": [t1, o], "modes": {}}]}
                    # two Einsums: plain use in one, compound use in the other, both orders
                    ea = {"name": "Ea" if plain_name == "Aa" else "Ez", "modes": {}, "tensors": [
                        {"name": "X0", "output": False, "ranks": [_plain("p", "P")]}, {"name": "Y0", "output": True, "ranks": [_plain("p", "Y0R0")]}]}
                    eb = {"name": "Ez" if plain_name == "Aa" else "Ea", "modes": {}, "tensors": [
                        {"name": "X1", "output": False, "ranks": [_comp("H", a, "p", b, "r", c, style=i % 4)]},
                        {"name": "Y1", "output": True, "list_form": True, "ranks": [_plain("p"), _plain("r")]}]}
                    yield {"bounds": {"p": P, "r": R}, "einsums": [ea, eb] if i % 2 else [eb, ea]}


def _check_calls(case, stats, rnd, strict=False, known_ids=frozenset(('C24-halo-offset', 'C24-rank-order'))):
    """Call patterns of get_stride_and_halo_of_einsum / get_stride_and_halo on ONE workload object: the same bounds dict object passed to
    many calls (Einsums in both orders, repeated), changed in place by the caller between calls, bounds=None calls and whole-workload calls
    interleaved. Required after every call: the table enumerated here for the box the dict describes AT THAT MOMENT (a result never depends
    on earlier calls), the dict untouched (items, order, value types), and at the end every earlier result still what it was."""
    strict_halo = strict or 'C24-halo-offset' not in known_ids
    from accelforge.frontend.workload import Workload
    from accelforge.frontend._workload_isl import _symbolic

    kw = _kwargs(case)
    log = []

    def fail(what, observed, required):
        return {"failed": True, "input": kw, "calls": list(log), "what": what, "observed": observed, "required": required}

    try:
        w = Workload(**_kwargs(case))
    except Exception as ex:
        return fail("Workload(**input)", f"{type(ex).__name__}: {str(ex)[:300]}", "a Workload object")
    by = {e["name"]: e for e in case["einsums"]}
    names = list(by)
    allvars = sorted({v for e in case["einsums"] for v in _einsum_vars(e)})

    def required(e, bounds):
        e2 = e if bounds is None else {**e, "bounds": {v: bounds[v] for v in _einsum_vars(e)}}
        out = {}
        for t in e["tensors"]:
            tab = {}
            for (rank, v), (stride, ext, org, coef, c) in _stride_halo_required(case, e2, t).items():
                if c != 0 and not strict_halo:
                    stats["known_finding_hits"] += 1
                    stats["excluded_halo_pairs"] += 1
                tab[(rank, v)] = (coef if stride is None else stride, org if (c != 0 and not strict_halo) else ext)
            out[t["name"]] = tab
        return out

    def view(res):
        return {str(t): {(str(k[0]), str(k[1])): (_as_int(x[0]), _as_int(x[1])) for k, x in tab.items()} for t, tab in res.items()}

    def show(tabs):
        return {t: {f"{k[0]},{k[1]}": list(x) for k, x in tab.items()} for t, tab in tabs.items()}

    full = {v: max(_b(case, e, v) for e in case["einsums"] if v in _einsum_vars(e)) for v in allvars}
    alt = {v: rnd.randint(1, 4) for v in allvars}
    shared = dict(full)  # ONE object for all calls marked "shared"
    script = [("of", n, "shared") for n in names] + [("all",)] + [("of", n, "shared") for n in names[::-1]]
    script += [("set", v, alt[v]) for v in rnd.sample(allvars, rnd.randint(1, len(allvars)))]
    script += [("of", n, "shared") for n in names] + [("of", n, None) for n in names[::-1]] + [("of", n, "shared") for n in names[::-1]]
    script += [("reset",)] + [("of", n, "shared") for n in names[::-1] + names] + [("of", rnd.choice(names), "other")] + [("all",)]
    script += [("of", n, "shared") for n in names]
    kept = []
    for step in script:
        if step[0] == "set":
            shared[step[1]] = step[2]
            log.append(f"caller: bounds[{step[1]!r}] = {step[2]}")
            continue
        if step[0] == "reset":
            shared.update(full)
            log.append(f"caller: bounds.update({full})")
            continue
        stats["call_pattern_calls"] += 1
        if step[0] == "all":
            log.append("get_stride_and_halo(w)")
            try:
                res = _symbolic.get_stride_and_halo(w)
            except Exception as ex:
                return fail("get_stride_and_halo(w)", f"{type(ex).__name__}: {str(ex)[:300]}", "a dictionary")
            got = {}
            for (en, tn), tab in res.items():
                got.setdefault(str(en), {}).update(view({tn: tab}))
            req = {n: required(by[n], None) for n in names}
            if got != req:
                return fail("get_stride_and_halo(w) after the calls listed", {n: show(t) for n, t in got.items()}, {n: show(t) for n, t in req.items()})
            continue
        _, n, which = step
        if which == "shared":
            arg = shared
        elif which == "other":  # another dict: reversed key order, an extra key, other values
            arg = {"zz_unused": 7, **{v: alt[v] for v in reversed(allvars)}}
        else:
            arg = None
        before = None if arg is None else list(arg.items())
        log.append(f"get_stride_and_halo_of_einsum({n!r}, w, {'None' if arg is None else ('the shared dict ' if which == 'shared' else 'another dict ') + str(dict(arg))})")
        try:
            res = _symbolic.get_stride_and_halo_of_einsum(n, w, arg)
        except Exception as ex:
            return fail(log[-1], f"{type(ex).__name__}: {str(ex)[:300]}", "a dictionary")
        if arg is not None and (list(arg.items()) != before or any(type(x) is not int for x in arg.values())):
            return fail(log[-1] + ": bounds argument after the call", list(arg.items()), before)
        req = required(by[n], arg)
        got = view(res)
        if got != req:
            return fail(log[-1] + " (result must be that of the box the dict describes now, whatever was called before)", show(got), show(req))
        kept.append((len(log) - 1, res, req))
    for idx, res, req in kept:
        if view(res) != req:
            return fail(f"result of call #{idx} ({log[idx]}) changed after later calls", show(view(res)), show(req))
    return None


def _sample_text(case):
    kw = _kwargs(case)
    parts = []
    for e in kw["einsums"]:
        accs = "; ".join(f"{a['name']}{'*' if a.get('output') else ''}[{a['projection'] if isinstance(a['projection'], list) else ', '.join(k + ': ' + v for k, v in a['projection'].items())}]" for a in e["tensor_accesses"])
        parts.append(f"{e['name']}: {accs} | shape {e.get('iteration_space_shape', [])} rank_sizes {e.get('rank_sizes', {})}")
    return " || ".join(parts) + f" | workload shape {kw.get('iteration_space_shape', {})} rank_sizes {kw.get('rank_sizes', {})}"


def bounded(p):
    seed = int(p.get("seed", 0))
    tier = p.get("tier", "quick")
    if tier not in ("quick", "thorough"):
        tier = "quick"
    rnd = random.Random(seed * 7919 + (0 if tier == "quick" else 1))
    n_random = 600 if tier == "quick" else 4000
    stats = _new_stats()
    seen, samples, evaluations, n_core = set(), [], 0, 0

    def counters():
        return {"evaluations": evaluations, "distinct": len(seen), "known_finding_hits": stats["known_finding_hits"], "stats": stats}

    known_ids = frozenset(e.get('class_id') for e in (p.get('known') or []))

    def run(case, calls_rnd=None):
        nonlocal evaluations
        evaluations += 1
        seen.add(repr(_kwargs(case)))
        res = _check(case, stats, known_ids=known_ids)
        if res is None and calls_rnd is not None:
            stats["call_cases"] += 1
            res = _check_calls(case, stats, calls_rnd, known_ids=known_ids)
        if res is not None:
            res.update(counters())
        return res

    for case in _core_cases(tier):
        n_core += 1
        res = run(case)
        if res is not None:
            return res
    for i in range(n_random):
        case = _rand_case(rnd, tier)
        res = run(case)
        if res is not None:
            return res
        if i < 200 and len(samples) < 6 and sum(len(e["tensors"]) for e in case["einsums"]) <= 4:
            samples.append(_sample_text(case))

    # ---- strengthened families (own generator: the draws above stay what they were)
    rnd2 = random.Random(seed * 7919 + 101 + (0 if tier == "quick" else 1))
    n_rs, n_hole, n_calls_extra = (200, 60, 120) if tier == "quick" else (2000, 600, 1200)

    def count_levels(case):
        stats["ranksize_cases"] += 1
        for e in case["einsums"]:
            for v, mode in e["modes"].items():
                if mode == "both_rank_size":
                    stats["both_levels_equal" if _b(case, e, v) == case["bounds"][v] else "einsum_level_replaces_workload_level"] += 1

    n_rs_core = 0
    for case in _ranksize_core(tier):  # a. rank sizes at both levels
        n_rs_core += 1
        count_levels(case)
        res = run(case, rnd2 if n_rs_core % 5 == 0 else None)
        if res is not None:
            return res
    for i in range(n_rs):
        case = _ranksize_random(rnd2)
        count_levels(case)
        res = run(case, rnd2 if i % 5 == 0 else None)
        if res is not None:
            return res
        if i < 2:
            samples.append(_sample_text(case))
    nb0, er0 = stats["nonbox_images"], stats["explicit_errors_nonbox"]
    for case in itertools.chain(_hole_core(tier), (_hole_random(rnd2) for _ in range(n_hole))):  # b. holes inside a bounding box
        stats["hole_cases"] += 1
        res = run(case)
        if res is not None:
            return res
    stats["hole_family_nonbox_images"] = stats["nonbox_images"] - nb0
    stats["hole_family_explicit_errors"] = stats["explicit_errors_nonbox"] - er0
    n_call_core = 0
    for case in _call_core(tier):  # c. call patterns
        n_call_core += 1
        res = run(case, rnd2)
        if res is not None:
            return res
        if n_call_core in (1, 3):
            samples.append(_sample_text(case))
    for i in range(n_calls_extra):  # call patterns on workloads of the general random family as well
        res = run(_rand_case(rnd2, tier), rnd2)
        if res is not None:
            return res

    bmax, emax = (4, 2) if tier == "quick" else (6, 3)
    rule = (
        f"{n_core} exhaustive-core workloads (one Einsum over m, n: every one-rank projection a*m+b*n+c with a,b in {{0,1,2}}, c in {{0,1}}, "
        f"not all zero, for all bounds (M,N) in 1..{bmax}; every ordered pair of such projections as a two-rank tensor for (M,N) in 1..{2 if tier == 'quick' else 3}) "
        f"plus {n_random} seeded random workloads: 1-{emax} Einsums, each over 1-3 of the rank variables m,n,k,p,q with bounds 0 <= v < B, B in 1..{bmax} "
        "(bounds written as Einsum iteration_space_shape, workload iteration_space_shape, Einsum rank_sizes or workload rank_sizes), 2-3 tensors per Einsum "
        "with 1-3 ranks each, every rank projection a*x+b*y+c (a,b in {0,1,2}, c in {0,1}, not all zero; dictionary or list form, several spellings); "
        "later Einsums may read tensors of earlier ones (required size: image under the writers, or the intersection of the images of all readers of a "
        "never-written tensor). The real Workload.n_computes/get_tensor_size, get_rank_variable_bounds, get_stride_and_halo(_of_einsum) and "
        "compute_dense_tile_occupancy are compared with a brute-force enumeration of the box written in the oracle; get_tensor_size must return the "
        "enumerated count or raise RuntimeError/ValueError, and may raise only when the image of some canonical access, or the intersection of these "
        "images, is not a non-empty box. "
        f"This run: {stats['tensors']} tensors ({stats['box_images']} box images, {stats['nonbox_images']} non-box), {stats['sizes_returned']} sizes returned and equal, "
        f"{stats['explicit_errors_nonbox']} explicit errors (all on non-box images), {stats['tensors_in_several_einsums']} tensors used by several Einsums "
        f"({stats['tensors_with_several_canonical_accesses']} with several canonical accesses), {stats['pairs']} (rank, rank variable) pairs "
        f"({stats['pairs_stride_unobservable']} with bound 1: stride compared with the coefficient), {stats['occupancies']} dense occupancies. "
        f"excluded: halo comparison with the extra extent for rank projections with constant term c != 0 ({stats['excluded_halo_pairs']} pairs; the unchanged code "
        "reports b*(Y-1)+c, i.e. the largest coordinate with the variable pinned at 0, e.g. A0[A0R0: m+n+1], m<2, n<3 gives halo 3 for (A0R0,m), extent is 2; "
        "for these pairs the largest coordinate is required instead, stride still compared). "
        "excluded: tensors whose canonical accesses list the same ranks in different orders (never generated: a shared tensor keeps its rank order; the unchanged "
        "code intersects the images by position, e.g. A[R0: m, R1: n] read by E0 and A[R1: n, R0: m] read by E1 with m<2, n<4 gives size 4, enumeration gives 8). "
        "Strengthened families, same comparisons: (a) RANK SIZES AT BOTH LEVELS. The documentation (docstrings of Workload.rank_sizes / Einsum.rank_sizes, guide) does not say "
        "which level wins; required is what the unchanged code does: an Einsum-level rank size REPLACES the workload-level size of the same rank for that Einsum (it is not the "
        "minimum of the two), every other rank and every other Einsum keeps the workload-level size; ranks sized at one level only, equal values and sizes of ranks nobody has "
        f"change nothing. {n_rs_core} exhaustive one-Einsum workloads (A0[M: m, N: n], B0[B0R0: m+n] -> Z0[m, n]; per variable: workload-level size absent or W, Einsum-level size "
        f"absent or E, all W, E in the tier's ranges) plus {n_rs} seeded two-Einsum workloads over m, n, k sharing tensors (Z0 written by one and read by the other, A0 read by both; "
        f"either listing order); {stats['einsum_level_replaces_workload_level']} (Einsum, rank) pairs with different values at the two levels, {stats['both_levels_equal']} with equal values. "
        f"(b) HOLES INSIDE A BOUNDING BOX: {stats['hole_cases']} workloads: every one-rank input a*p+b*r+c with a, b in 0..4 (not both 0), c in {{0,1}} for all bounds (P,R) in 1..{3 if tier == 'quick' else 5}; "
        "two-rank inputs (hole rank x second rank, both rank orders) for hole ranks {2p+r, 3p+r, 2p+2r, p+3r, 3p+2r, 4p+r, 2p, 3p, 2r, 3r, 4p+2r, 2p+3r} and second ranks {p, r, p+r, 2r, 2p+r}; "
        f"{n_hole} seeded two-Einsum workloads where one tensor carries a different hole pattern per Einsum (writer/reader or two readers: size of the intersection); "
        f"{stats['hole_family_nonbox_images']} non-box images, {stats['hole_family_explicit_errors']} answered by an explicit error, the others by the exact count; the bounding-box size is never accepted. "
        f"(c) CALL PATTERNS: {stats['call_cases']} workloads ({n_call_core} directed: plain use P: p next to compound use H: a*p+b*r[+c] in two tensors named Aa/Zz both ways round, "
        "in one tensor with both rank orders, in two Einsums Ea/Ez both ways round, all bounds (P,R) in 1..3; every 5th workload of family (a); "
        f"{n_calls_extra} workloads of the general random family): on ONE workload object {stats['call_pattern_calls']} calls in scripted sequences - get_stride_and_halo_of_einsum for the Einsums in listing and "
        "reverse order with the SAME bounds dict object, get_stride_and_halo(w), the caller changing entries of the dict in place, calls with bounds=None, with another dict (other key order, "
        "extra key, other values), the dict reset, all Einsums again. After every call the table must be the one enumerated for the box the dict describes at that moment "
        "(so no result depends on earlier calls), the dict must be untouched (items, order, int values), and at the end every earlier result must still be what it was."
    )
    return {
        "failed": False, **counters(), "rule": rule,
        "bound": f"1-{emax} Einsums, <= 3 rank variables per Einsum, bounds <= {bmax}, rank projections a*x+b*y+c with a,b in {{0,1,2}}, c in {{0,1}}; "
                 f"rank sizes at both levels: values <= {4 if tier == 'quick' else 5}, <= 2 Einsums; hole family: a,b in 0..4, bounds <= {3 if tier == 'quick' else 5} (two-rank / shared: <= 5); "
                 "call patterns: scripted sequences of 13-20 calls per workload, dict values <= 4",
        "exhaustive": False, "samples": samples,
        "assumptions": ["shared tensors: required size follows the documented canonical-access rule (writers, else all readers)"],
    }


def replay(p):
    return bounded(p)


def crosscheck(p):
    return bounded(p)


def witness(p):
    """Replays the witness of a recorded finding class (strict comparison); {"failed": False} if none is asked for."""
    ent = (p or {}).get("finding") or {}
    cid = ent.get("class_id")
    if cid not in WITNESS:
        return {"failed": False}
    from accelforge.frontend.workload import Workload
    from accelforge.frontend._workload_isl import _symbolic

    w = Workload(**WITNESS[cid])
    if cid == "C24-rank-order":
        try:
            got = _as_int(w.get_tensor_size("A"))
        except Exception as ex:
            got = f"{type(ex).__name__}: {str(ex)[:200]}"
        return {"failed": got != 8, "input": WITNESS[cid], "observed": got, "required": 8}
    got = {f"{k[0]},{k[1]}": (_as_int(v[0]), _as_int(v[1])) for k, v in _symbolic.get_stride_and_halo(w)[("E0", "A0")].items()}
    want = {"A0R0,m": (1, 2), "A0R0,n": (1, 1)}
    return {"failed": got != want, "input": WITNESS[cid], "observed": got, "required": want}
