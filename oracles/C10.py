"""Executable oracle for C10 (brute force on the real functions)."""
import itertools, math, random
from oracles.common import model_get, num


def _mods():
    from accelforge.mapper.FFM._make_pmappings.make_pmappings_from_templates import make_tile_shapes as T
    from accelforge.util import _mathfuncs as M

    for f in (T._factorize, T.get_possible_factor_sizes, M._divisors, M._count_factorizations):
        if hasattr(f, "cache_clear"):
            f.cache_clear()
    return T, M


def cdiv(a, b):
    return -((-a) // b)


def divisors(n):
    return [d for d in range(1, n + 1) if n % d == 0]


import functools


@functools.lru_cache(maxsize=None)
def chains(n, p):
    """Brute-force count of factorisation chains: enumeration of every choice of the outermost
    factor, recursively (memoised on (n, pattern))."""
    if len(p) <= 1:
        return 1
    total = 0
    for s in range(1, n + 1):
        if p[0] or n % s == 0:
            total += chains(cdiv(n, s), p[1:])
    return total


def check_factorize(T, n):
    got = [int(x) for x in T._factorize(n)]
    want = divisors(n)
    return got == want, {"fn": "_factorize", "n": n, "observed": got, "required": want}


def check_divisors(M, n):
    got = list(M._divisors(n))
    return got == divisors(n), {"fn": "_divisors", "n": n, "observed": got, "required": divisors(n)}


def check_perfect(T, outer, inner):
    got = [int(x) for x in T.get_possible_factor_sizes(outer, False, inner)]
    want = [m for m in range(inner, outer + 1) if m % inner == 0 and outer % m == 0]
    return got == want, {"fn": "get_possible_factor_sizes", "mode": "perfect", "outer": outer, "inner": inner, "observed": got, "required": want}


def check_imperfect(T, outer, inner):
    got = [int(x) for x in T.get_possible_factor_sizes(outer, True, inner)]
    problems = []
    if any(m < 1 or m > outer for m in got):
        problems.append("candidate outside [1, outer]")
    if got != sorted(set(got)):
        problems.append("not strictly increasing")
    # every tile count achievable by a multiple of the inner size: the smallest shape with that count
    for v in range(inner, outer + 1, inner):
        t = cdiv(outer, v)
        smallest = min(m for m in range(1, outer + 1) if cdiv(outer, m) == t)
        if smallest not in got:
            problems.append(f"tile count {t} (reached by {v}): smallest shape {smallest} missing")
            break
    return not problems, {"fn": "get_possible_factor_sizes", "mode": "imperfect", "outer": outer, "inner": inner, "observed": got, "required": "; ".join(problems)}


def check_count(M, n, p):
    got = M._count_factorizations(n, tuple(p))
    want = chains(n, tuple(p))
    return got == want, {"fn": "_count_factorizations", "n": n, "pattern": list(p), "observed": got, "required": want}


def _sweep(T, M, ns, pairs, counts):
    ev = 0
    for n in ns:
        for ok, info in (check_factorize(T, n), check_divisors(M, n)):
            ev += 1
            if not ok:
                return ev, info
    for outer, inner in pairs:
        if outer % inner == 0:
            ok, info = check_perfect(T, outer, inner)
            ev += 1
            if not ok:
                return ev, info
        ok, info = check_imperfect(T, outer, inner)
        ev += 1
        if not ok:
            return ev, info
    for n, p in counts:
        ok, info = check_count(M, n, p)
        ev += 1
        if not ok:
            return ev, info
    return ev, None


def witness(p):
    return {"failed": False}


def replay(p):
    T, M = _mods()
    m = p.get("model") or {}
    rnd = random.Random(p.get("seed", 0))
    ns = []
    for key in ("n", "outer_size", "inner_size"):
        v = model_get(m, key, None, num)
        if v is not None and 1 <= int(v) <= 10**6:
            ns.append(int(v))
    ns += list(range(1, 400)) + [rnd.randint(400, 5000) for _ in range(60)] + [k * k for k in range(20, 60)] + [k * (k + 1) for k in range(20, 60)]
    pairs = [(o, i) for o in range(1, 80) for i in range(1, o + 1)] + [(rnd.randint(80, 3000), 1) for _ in range(40)]
    extra = []
    for o in [rnd.randint(80, 3000) for _ in range(40)]:
        for i in divisors(o)[:6]:
            extra.append((o, i))
    counts = [(n, pat) for n in list(range(1, 40)) + [k * k for k in range(6, 16)] + [rnd.randint(40, 300) for _ in range(20)] for L in range(0, 5) for pat in itertools.product([False, True], repeat=L)]
    ev, bad = _sweep(T, M, ns, pairs + extra, counts)
    if bad:
        return {"failed": True, "input": bad, "observed": bad["observed"], "required": bad["required"], "evaluations": ev}
    return {"failed": False, "tried": ev}


def crosscheck(p):
    T, M = _mods()
    rnd = random.Random(p.get("seed", 0))
    budget = p.get("n", 200)
    ns = list(range(1, 60)) + [rnd.randint(60, 4000) for _ in range(budget)]
    pairs = [(o, i) for o in range(1, 30) for i in range(1, o + 1)]
    for o in [rnd.randint(30, 3000) for _ in range(budget // 4)]:
        ds = divisors(o)
        pairs += [(o, rnd.choice(ds)), (o, rnd.randint(1, o))]
    top = 150 if budget <= 200 else 400
    counts = [(n, pat) for n in list(range(1, 30)) + [rnd.randint(30, top) for _ in range(20)] + [k * k for k in range(6, 14)] for L in range(0, 5) for pat in itertools.product([False, True], repeat=L)]
    ev, bad = _sweep(T, M, ns, pairs, counts)
    if bad:
        return {"failed": True, "input": bad, "observed": bad["observed"], "required": bad["required"]}
    return {"failed": False, "evaluations": ev, "distinct": len(set(ns)) + len(set(pairs)) + len(counts), "rule": "real _factorize/_divisors/get_possible_factor_sizes/_count_factorizations vs brute-force definitions (divisor lists, smallest-shape-per-tile-count, explicit chain enumeration)"}
