"""Executable oracle for C29: real Spec evaluation vs the documented resolution order."""
import os, random, tempfile


ARCH = """
arch:
  nodes:
  - !Memory {name: Main, size: inf, area: 1, leak_power: 0, actions: [{name: read, energy: 1, throughput: 1}, {name: write, energy: 1, throughput: 1}]}
  - !Compute {name: MAC, area: 1, leak_power: 0, actions: [{name: compute, energy: 1, throughput: 1}]}
"""


def _yaml(einsums, top, local):
    lines = ["workload:", "  rank_sizes: {M: 4, K: 4, N: 4}", "  bits_per_value: {All: 8}", "  einsums:"]
    for name, ins, out in einsums:
        lines.append(f"  - name: {name}")
        if local.get(name):
            lines.append("    renames: {" + ", ".join(f"{k}: {v}" for k, v in local[name].items()) + "}")
        lines.append("    tensor_accesses:")
        for t in ins:
            lines.append(f"    - {{name: {t}, projection: [m, k]}}")
        lines.append(f"    - {{name: {out}, projection: [m, k], output: true}}")
    if top:
        lines += ["renames:", "  einsums:"]
        for ename, table in top.items():
            lines.append(f"  - name: {ename}")
            lines.append("    tensor_accesses:" + (" []" if not table else ""))
            for k, (v, cnt) in table.items():
                extra = f", expected_count: {cnt}" if cnt is not None else ""
                lines.append(f"    - {{name: {k}, source: {v}{extra}}}")
    return "\n".join(lines) + ARCH


def _eval_source(src, ins, out):
    return {"Inputs": set(ins), "Outputs": {out}, "All": set(ins) | {out}, "Nothing": set()}.get(src, {src})


def _case(einsums, top, local):
    """returns (ok, info)"""
    from accelforge.frontend.spec import Spec
    from accelforge.util.exceptions import EvaluationError

    y = _yaml(einsums, top, local)
    with tempfile.NamedTemporaryFile("w", suffix=".yaml", delete=False) as f:
        f.write(y)
        path = f.name
    try:
        # expected
        expect_error = False
        want = {}
        for name, ins, out in einsums:
            names = set(local.get(name, {})) | set(top.get(name, {})) | set(top.get("default", {}))
            for rn in names:
                if rn in local.get(name, {}):
                    src, cnt = local[name][rn], None
                elif rn in top.get(name, {}):
                    src, cnt = top[name][rn]
                else:
                    src, cnt = top["default"][rn]
                val = _eval_source(src, ins, out)
                if cnt is not None and len(val) != cnt:
                    expect_error = True
                want[(name, rn)] = sorted(val)
        try:
            s = Spec.from_yaml(path)
            e = s._spec_eval_expressions()
        except EvaluationError as err:
            return (expect_error, {"yaml": y, "observed": "EvaluationError: " + str(err)[:200], "required": "error" if expect_error else want})
        if expect_error:
            return False, {"yaml": y, "observed": "evaluated without error", "required": "EvaluationError (expected_count mismatch)"}
        got = {}
        for ein in e.workload.einsums:
            for (en, rn) in want:
                if en == ein.name:
                    got[(en, rn)] = sorted(ein.renames[rn].source)
        ok = got == want
        return ok, {"yaml": y, "observed": {f"{k[0]}.{k[1]}": v for k, v in got.items()}, "required": {f"{k[0]}.{k[1]}": v for k, v in want.items()}}
    finally:
        os.unlink(path)


def _random_case(rnd):
    tensors = ["A", "B", "C", "D", "F", "G"]
    n = rnd.randint(1, 3)
    einsums = []
    for i in range(n):
        ins = rnd.sample(tensors, rnd.randint(1, 2))
        out = rnd.choice([t for t in tensors if t not in ins])
        einsums.append((f"E{i}", ins, out))
    rnames = ["weight", "act", "res"]
    srcs = ["Inputs", "Outputs", "All"]
    top, local = {}, {}
    if rnd.random() < 0.8:
        top["default"] = {rn: (rnd.choice(srcs), None) for rn in rnd.sample(rnames, rnd.randint(0, 3))}
    for name, ins, out in einsums:
        if rnd.random() < 0.6:
            tbl = {}
            for rn in rnd.sample(rnames, rnd.randint(1, 2)):
                src = rnd.choice(srcs + ins + [out])
                cnt = rnd.choice([None, None, len(_eval_source(src, ins, out)), 5])
                tbl[rn] = (src, cnt)
            top[name] = tbl
        if rnd.random() < 0.4:
            local[name] = {rn: rnd.choice(srcs + ins) for rn in rnd.sample(rnames, 1)}
    return einsums, top, local


WITNESS_F7 = ([("E1", ["A", "B"], "C"), ("E2", ["C", "D"], "F")], {"default": {"weight": ("Inputs", None)}, "E1": {"weight": ("B", 1)}}, {})


def witness(p):
    ok, info = _case(*WITNESS_F7)
    return {"failed": not ok, "observed": info["observed"], "case": info}


def replay(p):
    ok, info = _case(*WITNESS_F7)
    if not ok:
        return {"failed": True, "input": info["yaml"], "observed": info["observed"], "required": info["required"]}
    rnd = random.Random(p.get("seed", 0))
    for k in range(60):
        ok, info = _case(*_random_case(rnd))
        if not ok:
            return {"failed": True, "input": info["yaml"], "observed": info["observed"], "required": info["required"]}
    return {"failed": False, "tried": 61}


def crosscheck(p):
    rnd = random.Random(p.get("seed", 0))
    n = 40 if p.get("n", 200) <= 200 else 400
    seen = set()
    for k in range(n):
        case = _random_case(rnd)
        seen.add(repr(case))
        ok, info = _case(*case)
        if not ok:
            return {"failed": True, "input": info["yaml"], "observed": info["observed"], "required": info["required"]}
    ok, info = _case(*WITNESS_F7)
    if not ok:
        return {"failed": True, "input": info["yaml"], "observed": info["observed"], "required": info["required"]}
    return {"failed": False, "evaluations": n + 1, "distinct": len(seen) + 1, "rule": "random workloads (1-3 Einsums) with random default / per-Einsum / Einsum-local rename tables and expected_counts, evaluated by the real Spec; each name must resolve local > per-Einsum > default, mismatching counts must raise"}
