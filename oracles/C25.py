"""Executable oracle for C25: architecture flattening yields exactly the root-to-compute path.

Observed on the real code: Spec._get_flattened_architecture (all computes / one compute by name / one compute by
object, repeated calls) and Hierarchical._flatten directly (on the evaluated Arch, on the raw Arch, with the
return_fanout form, and on every nested Hierarchical / Fork that contains the compute).

Required (stated here, never taken from the repository): for a compute x the flattened list is, top-down, the
non-Compute leaves on the path from the root to x followed by x.  Two independent statements are written below and
must agree with each other on every input before the real code is consulted:
  A (structural recursion)  walk the children of a Hierarchical in order; a leaf that is x ends the path; a non-Compute
    leaf is stacked; a nested branch that contains x contributes (what is stacked so far) + (its own path to x); a
    nested non-Fork Hierarchical that does not contain x stacks all its non-Compute leaves (recursively, again
    without Forks); a Fork that does not contain x contributes nothing; other Computes contribute nothing.
  B (preorder filter)  the non-Compute leaves that come before x in preorder and whose set of enclosing Forks is a
    subset of x's set of enclosing Forks, in preorder, followed by x.
Names, order and object kinds (exact class) are compared.

Tree encoding (same as oracles/archtrees.py, which builds the real objects): a forest is a list of nodes; a leaf is
(kind, name, fanout, area) with kind in Memory / Toll / Container / Compute; a branch is ("H"|"F", [children]).
"""
import random
from functools import lru_cache

from oracles import archtrees as T

CLASSES = {}  # no finding on the unchanged tree

NC_KINDS = ("Memory", "Toll", "Container")
PREFIX = {"Memory": "M", "Toll": "T", "Container": "K", "Compute": "X"}
BOUND = ("architecture trees of depth <= 4 (root Arch + <= 3 nested Hierarchical / Fork levels) built from Memory, Toll, "
         "Container, Compute leaves (fan-outs 1-4), Hierarchical and Fork branches (possibly empty), >= 1 Compute; "
         "exhaustive core: every shape with <= K nodes (leaves + branches; quick K=4 via Spec and K=5 via Hierarchical._flatten, thorough K=5 via Spec and "
         "K=6 via Hierarchical._flatten), non-Compute kinds rotated over Memory/Toll/Container; plus seeded random trees "
         "with <= 16 leaves")
RULE = ("trees are built with the real API (Arch/Hierarchical/Fork/Memory/Toll/Container/Compute); the Spec is evaluated "
        "with Spec._spec_eval_expressions; for every Compute x the (class, name) sequence returned by "
        "Spec._get_flattened_architecture() [entry ending in x; exactly one entry per Compute], "
        "_get_flattened_architecture(compute_node=<name>), (compute_node=<Compute object>), Arch._flatten(x) on the "
        "evaluated and on the raw Arch, _flatten(x, fanout, return_fanout=True)[0], sub._flatten(x) for every nested "
        "Hierarchical/Fork containing x, and a repeated _get_flattened_architecture() call, is compared with the path "
        "written in the oracle: non-Compute leaves stacked above x in order (earlier siblings, leaves of earlier non-Fork "
        "nested hierarchies; Forks not containing x and other Computes excluded) followed by x; two independent statements "
        "of that path (structural recursion / preorder + enclosing-Fork filter) are first checked against each other")


# ---------------------------------------------------------------------------------------------------------------
# the two independent statements of the required path
# ---------------------------------------------------------------------------------------------------------------
def _is_branch(n):
    return isinstance(n, (tuple, list)) and n[0] in ("H", "F")


def _contains(nodes, x):
    for n in nodes:
        if _is_branch(n):
            if _contains(n[1], x):
                return True
        elif n[1] == x:
            return True
    return False


def _stack(nodes):
    """non-Compute leaves stacked by a hierarchy that does not contain the compute (Forks branch off: excluded)"""
    out = []
    for n in nodes:
        if _is_branch(n):
            if n[0] == "H":
                out += _stack(n[1])
        elif n[0] != "Compute":
            out.append((n[0], n[1]))
    return out


def path_A(nodes, x):
    above = []
    for n in nodes:
        if _is_branch(n):
            if _contains(n[1], x):
                return above + path_A(n[1], x)
            if n[0] == "H":
                above += _stack(n[1])
        elif n[1] == x:
            return above + [(n[0], n[1])]
        elif n[0] != "Compute":
            above.append((n[0], n[1]))
    return None


def _pre(nodes, forks=(), pos=()):
    for i, n in enumerate(nodes):
        if _is_branch(n):
            here = pos + (i,)
            yield from _pre(n[1], forks + ((here,) if n[0] == "F" else ()), here)
        else:
            yield n, frozenset(forks)


def path_B(nodes, x):
    pre = list(_pre(nodes))
    idx = [i for i, (n, f) in enumerate(pre) if n[1] == x]
    if not idx:
        return None
    xi = idx[0]
    xf = pre[xi][1]
    out = [(n[0], n[1]) for (n, f) in pre[:xi] if n[0] != "Compute" and f <= xf]
    return out + [(pre[xi][0][0], pre[xi][0][1])]


def computes(nodes):
    return [n[1] for n, _ in _pre(nodes) if n[0] == "Compute"]


def branches_containing(nodes, x, pos=()):
    """index paths of the nested branches that contain x, with their child forests"""
    for i, n in enumerate(nodes):
        if _is_branch(n) and _contains(n[1], x):
            yield pos + (i,), n[1]
            yield from branches_containing(n[1], x, pos + (i,))


# ---------------------------------------------------------------------------------------------------------------
# input family
# ---------------------------------------------------------------------------------------------------------------
@lru_cache(None)
def _shape_trees(size, depth):
    out = []
    if size == 1:
        out += ["N", "C"]
    if depth > 0:
        for b in "HF":
            for f in _shape_forests(size - 1, depth - 1):
                out.append((b, f))
    return tuple(out)


@lru_cache(None)
def _shape_forests(size, depth):
    """every forest with exactly `size` nodes (leaves N / C and branches H / F, branches may be empty)"""
    if size == 0:
        return ((),)
    out = []
    for k in range(1, size + 1):
        for t in _shape_trees(k, depth):
            for rest in _shape_forests(size - k, depth):
                out.append((t,) + rest)
    return tuple(out)


def _shape_has_compute(f):
    return any(t == "C" or (isinstance(t, tuple) and _shape_has_compute(t[1])) for t in f)


def label(shape, rot):
    """shape -> tree in the archtrees encoding; non-Compute kinds / fan-outs rotate deterministically with `rot`"""
    cnt = [0]

    def go(f):
        out = []
        for t in f:
            if isinstance(t, tuple):
                out.append((t[0], go(t[1])))
            else:
                i = cnt[0]
                cnt[0] += 1
                kind = "Compute" if t == "C" else NC_KINDS[(rot + i) % 3]
                out.append((kind, f"{PREFIX[kind]}{i}", (rot // 3 + 2 * i) % 3 + 1, 1))
        return out

    return go(shape)


def exhaustive_trees(K):
    k = 0
    for size in range(1, K + 1):
        for sh in _shape_forests(size, 3):
            if _shape_has_compute(sh):
                yield label(sh, k)
                k += 1


def random_tree(rnd):
    cnt = [0]
    p_branch = rnd.choice([0.2, 0.35, 0.5])
    p_compute = rnd.choice([0.1, 0.25, 0.5])
    p_fork = rnd.choice([0.3, 0.5, 0.8])

    def leaf(kind=None):
        if kind is None:
            kind = "Compute" if rnd.random() < p_compute else rnd.choice(NC_KINDS)
        i = cnt[0]
        cnt[0] += 1
        return (kind, f"{PREFIX[kind]}{i}", rnd.choice([1, 1, 2, 3, 4]), rnd.choice([1, 2, 5, 10]))

    def level(d, width):
        out = []
        n = rnd.randint(min(2, width) if d == 3 else 1, width) if (d == 3 or rnd.random() < 0.9) else 0
        for _ in range(n):
            if cnt[0] >= 15:
                break
            if d > 0 and rnd.random() < p_branch:
                out.append(("F" if rnd.random() < p_fork else "H", level(d - 1, rnd.randint(1, 4))))
            else:
                out.append(leaf())
        return out

    tree = level(3, rnd.choice([1, 2, 3, 4, 5, 6, 7, 8]))
    if rnd.random() < 0.5:
        tree.append(leaf("Compute"))  # the usual shape: the main path ends in a compute
    if not computes(tree):
        # put one compute at a random place (any branch, any position)
        spots = [tree]
        stack = [tree]
        while stack:
            f = stack.pop()
            for n in f:
                if _is_branch(n):
                    spots.append(n[1])
                    stack.append(n[1])
        f = spots[rnd.randrange(len(spots))]
        f.insert(rnd.randint(0, len(f)), leaf("Compute"))
    return tree


def _depth(nodes):
    return 1 + max([_depth(n[1]) for n in nodes if _is_branch(n)] + [0])


# ---------------------------------------------------------------------------------------------------------------
# one input: all observations on the real code
# ---------------------------------------------------------------------------------------------------------------
def _jsonable(nodes):
    return [[n[0], _jsonable(n[1])] if _is_branch(n) else list(n) for n in nodes]


def _obs(flat, classes):
    out = []
    for n in flat:
        kind = [k for k, c in classes.items() if type(n) is c]
        out.append((kind[0] if kind else type(n).__name__, n.name))
    return out


def _sub(arch, pos):
    node = arch
    for i in pos:
        node = node.nodes[i]
    return node


class _Bad(Exception):
    def __init__(self, rec):
        self.rec = rec


def _case(tree, rnd, full=True):
    """returns (#comparisons, failing record or None)"""
    from accelforge.frontend.arch import Memory, Toll, Container, Compute
    from accelforge.frontend.spec import Spec

    classes = {"Memory": Memory, "Toll": Toll, "Container": Container, "Compute": Compute}
    cs = computes(tree)
    req = {}
    for x in cs:
        a, b = path_A(tree, x), path_B(tree, x)
        if a != b or a is None:
            raise RuntimeError(f"oracle self-check: statements A and B disagree on {tree!r} / {x}: {a} vs {b}")
        req[x] = a
    ev = [0]

    def bad(call, x, observed, required):
        raise _Bad({"tree": _jsonable(tree), "compute": x, "call": call, "observed": observed, "required": required})

    def cmp(call, x, thunk, required):
        try:
            got = _obs(thunk(), classes)
        except Exception as e:  # the family only contains valid architectures
            bad(call, x, f"raised {type(e).__name__}: {e}", [list(t) for t in required])
        ev[0] += 1
        if got != required:
            bad(call, x, [list(t) for t in got], [list(t) for t in required])

    def all_entries(call, spec):
        try:
            res = spec._get_flattened_architecture()
            got = [_obs(f, classes) for f in res]
        except Exception as e:
            bad(call, None, f"raised {type(e).__name__}: {e}", {x: [list(t) for t in req[x]] for x in cs})
        for x in cs:
            mine = [g for g in got if g and g[-1] == ("Compute", x)]
            ev[0] += 1
            if len(mine) != 1 or mine[0] != req[x]:
                bad(call, x, [[list(t) for t in g] for g in got], [list(t) for t in req[x]])
        if len(got) != len(cs):
            bad(call, None, [[list(t) for t in g] for g in got], f"exactly one entry per compute {cs}")

    try:
        raw = T.build(tree)
        if full:
            spec = Spec(arch=raw)._spec_eval_expressions()
            all_entries("Spec._get_flattened_architecture()", spec)
        order = list(cs)
        rnd.shuffle(order)  # query order must not matter
        for x in order:
            r = req[x]
            if full:
                cmp("Spec._get_flattened_architecture(compute_node=name)", x, lambda: spec._get_flattened_architecture(compute_node=x), r)
                cmp("Spec._get_flattened_architecture(compute_node=Compute object)", x,
                    lambda: spec._get_flattened_architecture(compute_node=spec.arch.find(x)), r)
                cmp("evaluated Arch._flatten(name)", x, lambda: spec.arch._flatten(x), r)
            cmp("raw Arch._flatten(name)", x, lambda: raw._flatten(x), r)
            k = rnd.choice([1, 2, 3])
            cmp(f"raw Arch._flatten(name, {k}, return_fanout=True)[0]", x, lambda: raw._flatten(x, k, return_fanout=True)[0], r)
            for pos, sub in branches_containing(tree, x):
                cmp(f"nested branch at {list(pos)}._flatten(name)", x, lambda: _sub(raw, pos)._flatten(x), path_A(sub, x))
        if full:
            all_entries("Spec._get_flattened_architecture() repeated", spec)
    except _Bad as b:
        return ev[0], b.rec
    return ev[0], None


def _short(tree):
    def go(f):
        return "[" + " ".join((n[0] + go(n[1])) if _is_branch(n) else n[1] + (f"x{n[2]}" if n[2] > 1 else "") for n in f) + "]"
    return go(tree)


def _sweep(seed, n_random, K_full, K_direct, known=None):
    rnd = random.Random(seed)
    ev, seen, samples = 0, set(), []
    stats = {"toll": 0, "nested_H": 0, "fork_with_x": 0, "fork_without_x": 0, "multi_compute": 0, "depth4": 0}

    def note(tree):
        s = repr(tree)
        if s in seen:
            return
        seen.add(s)
        cs = computes(tree)
        pre = list(_pre(tree))
        stats["toll"] += any(n[0] == "Toll" for n, _ in pre)
        stats["multi_compute"] += len(cs) > 1
        stats["depth4"] += _depth(tree) >= 4
        forks = set().union(*[f for _, f in pre]) if pre else set()
        cf = set().union(*[f for n, f in pre if n[0] == "Compute"]) if pre else set()
        stats["fork_with_x"] += bool(cf)
        stats["fork_without_x"] += bool(forks - cf) or "('F', [])" in s
        stats["nested_H"] += "('H'" in s

    # exhaustive core through the Spec
    for i, tree in enumerate(exhaustive_trees(K_full)):
        note(tree)
        e, badrec = _case(tree, rnd, full=True)
        ev += e
        if badrec:
            return ev, len(seen), badrec, samples, stats
        if i % 211 == 7 and len(samples) < 3:
            samples.append("core " + _short(tree))
    # larger exhaustive layer on Hierarchical._flatten only
    if K_direct > K_full:
        k = 0
        for sh in _shape_forests(K_direct, 3):
            if not _shape_has_compute(sh):
                continue
            tree = label(sh, k)
            k += 1
            note(tree)
            e, badrec = _case(tree, rnd, full=False)
            ev += e
            if badrec:
                return ev, len(seen), badrec, samples, stats
    # seeded random trees
    for i in range(n_random):
        tree = random_tree(rnd)
        note(tree)
        e, badrec = _case(tree, rnd, full=True)
        ev += e
        if badrec:
            return ev, len(seen), badrec, samples, stats
        if len(samples) < 8 and i % max(1, n_random // 5) == 0:
            samples.append("random " + _short(tree))
    return ev, len(seen), None, samples, stats


def _sizes(n):
    # quick: K<=4 via Spec (888 trees), K=5 direct (7673), 1000 random; thorough: K<=5 via Spec (8561), K=6 direct (73333), 20000 random
    return (5 * n, 4, 5) if n <= 200 else (10 * n, 5, 6)


def _result(seed, n, known):
    n_random, kf, kd = _sizes(n)
    ev, distinct, badrec, samples, stats = _sweep(seed, n_random, kf, kd, known)
    if badrec:
        return {"failed": True, "input": {"tree": badrec["tree"], "compute": badrec["compute"], "call": badrec["call"]},
                "observed": badrec["observed"], "required": badrec["required"]}
    return {"failed": False, "evaluations": ev, "distinct": distinct, "known_finding_hits": 0, "bound": BOUND, "rule": RULE,
            "exhaustive": True, "coverage": stats, "samples": samples}


def crosscheck(p):
    return _result(p.get("seed", 0), p.get("n", 200), p.get("known"))


def bounded(p):
    return _result(p.get("seed", 0), 200 if p.get("tier", "quick") == "quick" else 2000, p.get("known"))


def replay(p):
    ev, distinct, badrec, samples, stats = _sweep(p.get("seed", 0), 600, 4, 4, p.get("known"))
    if badrec:
        return {"failed": True, "input": {"tree": badrec["tree"], "compute": badrec["compute"], "call": badrec["call"]},
                "observed": badrec["observed"], "required": badrec["required"]}
    return {"failed": False, "tried": distinct}


def witness(p):
    return {"failed": False}
