"""Executable oracle for C25: architecture flattening yields exactly the root-to-compute path.

Observed on the real code: Spec._get_flattened_architecture (all computes / one compute by name / one compute by
object, repeated calls) and Hierarchical._flatten directly (on the evaluated Arch, on the raw Arch, with the
return_fanout form, and on every nested Hierarchical / Fork that contains the compute).

Required (stated here, never taken from the repository): for a compute x the flattened list is, top-down, the
non-Compute leaves on the path from the root to x followed by x.  Two independent statements are written below and
must agree with each other on every input before the real code is consulted:
  A (structural recursion)  walk the children of a Hierarchical in order; a leaf that is x ends the path; a non-Compute
    leaf is stacked; a nested branch that contains x contributes (what is stacked so far) + (its own path to x); a
    nested non-Fork Hierarchical that does not contain x stacks all its non-Compute leaves (recursively, again
    without Forks); a Fork that does not contain x contributes nothing; other Computes contribute nothing.
  B (preorder filter)  the non-Compute leaves that come before x in preorder and whose set of enclosing Forks is a
    subset of x's set of enclosing Forks, in preorder, followed by x.
Names, order and object kinds (exact class) are compared.

Edit histories (strengthening round): the evaluated Spec answers every query, then its tree is edited IN PLACE through
the list / attribute operations the pydantic models permit (nodes.insert / append / pop / del / slice assignment /
item assignment, assigning a new list to `nodes`, assigning `name`): a leaf or a Compute is added to or removed from
the root, a nested Hierarchical or a Fork; a node (mostly the target compute) is moved into or out of a Fork; a leaf
is renamed (also to a name an earlier node had, of any kind); a nested branch is retyped Fork <-> Hierarchical,
unwrapped, or children are wrapped into a new branch; children are permuted.  The history may continue on
copy.deepcopy(spec), spec.model_copy(deep=True), a Spec around a deep copy of the arch, a shallow model_copy (shares
the arch: follows every later edit), or the Spec evaluated again; the object left behind must keep answering for its
own tree.  After EVERY edit all queries are repeated and compared with the path recomputed from the edited model tree
by statements A and B; a name that no node has any more must not get a path.

Tree encoding (same as oracles/archtrees.py, which builds the real objects): a forest is a list of nodes; a leaf is
(kind, name, fanout, area) with kind in Memory / Toll / Container / Compute; a branch is ("H"|"F", [children]).
"""
import random
from functools import lru_cache

from oracles import archtrees as T

CLASSES = {}  # no finding on the unchanged tree

NC_KINDS = ("Memory", "Toll", "Container")
PREFIX = {"Memory": "M", "Toll": "T", "Container": "K", "Compute": "X"}
BOUND = ("architecture trees of depth <= 4 (root Arch + <= 3 nested Hierarchical / Fork levels) built from Memory, Toll, "
         "Container, Compute leaves (fan-outs 1-4), Hierarchical and Fork branches (possibly empty), >= 1 Compute; "
         "exhaustive core: every shape with <= K nodes (leaves + branches; quick K=4 via Spec and K=5 via Hierarchical._flatten, thorough K=5 via Spec and "
         "K=6 via Hierarchical._flatten), non-Compute kinds rotated over Memory/Toll/Container; plus seeded random trees "
         "with <= 16 leaves; edit histories: every single elementary edit (insert a Compute / a non-Compute leaf at every place, remove every "
         "node, move every Compute to every place, rename every leaf, retype / unwrap every nested branch, wrap every child and adjacent "
         "pair into a Hierarchical / a Fork, reverse every child list) of every tree with <= 3 nodes (thorough: <= 4, every leaf moved), "
         "every ordered pair of such edits on every tree with <= 2 nodes (thorough: <= 3 nodes, one in four on the 3-node trees), and seeded "
         "random histories of 3-8 edits with <= 2 copy steps on random trees (depth <= 5 after wrapping)")
RULE = ("trees are built with the real API (Arch/Hierarchical/Fork/Memory/Toll/Container/Compute); the Spec is evaluated "
        "with Spec._spec_eval_expressions; for every Compute x the (class, name) sequence returned by "
        "Spec._get_flattened_architecture() [entry ending in x; exactly one entry per Compute], "
        "_get_flattened_architecture(compute_node=<name>), (compute_node=<Compute object>), Arch._flatten(x) on the "
        "evaluated and on the raw Arch, _flatten(x, fanout, return_fanout=True)[0], sub._flatten(x) for every nested "
        "Hierarchical/Fork containing x, and a repeated _get_flattened_architecture() call, is compared with the path "
        "written in the oracle: non-Compute leaves stacked above x in order (earlier siblings, leaves of earlier non-Fork "
        "nested hierarchies; Forks not containing x and other Computes excluded) followed by x; two independent statements "
        "of that path (structural recursion / preorder + enclosing-Fork filter) are first checked against each other. EDIT HISTORIES: "
        "after the evaluated Spec has answered all these queries its tree is edited in place with the list / attribute operations of the "
        "real objects (insert / append / pop / del / slice and item assignment on `nodes`, a new list assigned to `nodes`, `name` assigned), "
        "optionally continuing on copy.deepcopy / model_copy(deep=True) / a deep copy of the arch / a shallow model_copy / the Spec "
        "evaluated again, and after every edit the same queries (all computes, by name, by object, Arch._flatten, return_fanout form, every "
        "nested branch containing the compute) are compared with the path recomputed from the edited model tree; objects left behind by a "
        "copy step are queried too (their own tree; the shared tree for a shallow copy); a query for a name that no node has any more must "
        "raise instead of returning a path")



# ---------------------------------------------------------------------------------------------------------------
# the two independent statements of the required path
# ---------------------------------------------------------------------------------------------------------------
def _is_branch(n):
    return isinstance(n, (tuple, list)) and n[0] in ("H", "F")


def _contains(nodes, x):
    for n in nodes:
        if _is_branch(n):
            if _contains(n[1], x):
                return True
        elif n[1] == x:
            return True
    return False


def _stack(nodes):
    """non-Compute leaves stacked by a hierarchy that does not contain the compute (Forks branch off: excluded)"""
    out = []
    for n in nodes:
        if _is_branch(n):
            if n[0] == "H":
                out += _stack(n[1])
        elif n[0] != "Compute":
            out.append((n[0], n[1]))
    return out


def path_A(nodes, x):
    above = []
    for n in nodes:
        if _is_branch(n):
            if _contains(n[1], x):
                return above + path_A(n[1], x)
            if n[0] == "H":
                above += _stack(n[1])
        elif n[1] == x:
            return above + [(n[0], n[1])]
        elif n[0] != "Compute":
            above.append((n[0], n[1]))
    return None


def _pre(nodes, forks=(), pos=()):
    for i, n in enumerate(nodes):
        if _is_branch(n):
            here = pos + (i,)
            yield from _pre(n[1], forks + ((here,) if n[0] == "F" else ()), here)
        else:
            yield n, frozenset(forks)


def path_B(nodes, x):
    pre = list(_pre(nodes))
    idx = [i for i, (n, f) in enumerate(pre) if n[1] == x]
    if not idx:
        return None
    xi = idx[0]
    xf = pre[xi][1]
    out = [(n[0], n[1]) for (n, f) in pre[:xi] if n[0] != "Compute" and f <= xf]
    return out + [(pre[xi][0][0], pre[xi][0][1])]


def computes(nodes):
    return [n[1] for n, _ in _pre(nodes) if n[0] == "Compute"]


def branches_containing(nodes, x, pos=()):
    """index paths of the nested branches that contain x, with their child forests"""
    for i, n in enumerate(nodes):
        if _is_branch(n) and _contains(n[1], x):
            yield pos + (i,), n[1]
            yield from branches_containing(n[1], x, pos + (i,))


# ---------------------------------------------------------------------------------------------------------------
# input family
# ---------------------------------------------------------------------------------------------------------------
@lru_cache(None)
def _shape_trees(size, depth):
    out = []
    if size == 1:
        out += ["N", "C"]
    if depth > 0:
        for b in "HF":
            for f in _shape_forests(size - 1, depth - 1):
                out.append((b, f))
    return tuple(out)


@lru_cache(None)
def _shape_forests(size, depth):
    """every forest with exactly `size` nodes (leaves N / C and branches H / F, branches may be empty)"""
    if size == 0:
        return ((),)
    out = []
    for k in range(1, size + 1):
        for t in _shape_trees(k, depth):
            for rest in _shape_forests(size - k, depth):
                out.append((t,) + rest)
    return tuple(out)


def _shape_has_compute(f):
    return any(t == "C" or (isinstance(t, tuple) and _shape_has_compute(t[1])) for t in f)


def label(shape, rot):
    """shape -> tree in the archtrees encoding; non-Compute kinds / fan-outs rotate deterministically with `rot`"""
    cnt = [0]

    def go(f):
        out = []
        for t in f:
            if isinstance(t, tuple):
                out.append((t[0], go(t[1])))
            else:
                i = cnt[0]
                cnt[0] += 1
                kind = "Compute" if t == "C" else NC_KINDS[(rot + i) % 3]
                out.append((kind, f"{PREFIX[kind]}{i}", (rot // 3 + 2 * i) % 3 + 1, 1))
        return out

    return go(shape)


def exhaustive_trees(K):
    k = 0
    for size in range(1, K + 1):
        for sh in _shape_forests(size, 3):
            if _shape_has_compute(sh):
                yield label(sh, k)
                k += 1


def random_tree(rnd):
    cnt = [0]
    p_branch = rnd.choice([0.2, 0.35, 0.5])
    p_compute = rnd.choice([0.1, 0.25, 0.5])
    p_fork = rnd.choice([0.3, 0.5, 0.8])

    def leaf(kind=None):
        if kind is None:
            kind = "Compute" if rnd.random() < p_compute else rnd.choice(NC_KINDS)
        i = cnt[0]
        cnt[0] += 1
        return (kind, f"{PREFIX[kind]}{i}", rnd.choice([1, 1, 2, 3, 4]), rnd.choice([1, 2, 5, 10]))

    def level(d, width):
        out = []
        n = rnd.randint(min(2, width) if d == 3 else 1, width) if (d == 3 or rnd.random() < 0.9) else 0
        for _ in range(n):
            if cnt[0] >= 15:
                break
            if d > 0 and rnd.random() < p_branch:
                out.append(("F" if rnd.random() < p_fork else "H", level(d - 1, rnd.randint(1, 4))))
            else:
                out.append(leaf())
        return out

    tree = level(3, rnd.choice([1, 2, 3, 4, 5, 6, 7, 8]))
    if rnd.random() < 0.5:
        tree.append(leaf("Compute"))  # the usual shape: the main path ends in a compute
    if not computes(tree):
        # put one compute at a random place (any branch, any position)
        spots = [tree]
        stack = [tree]
        while stack:
            f = stack.pop()
            for n in f:
                if _is_branch(n):
                    spots.append(n[1])
                    stack.append(n[1])
        f = spots[rnd.randrange(len(spots))]
        f.insert(rnd.randint(0, len(f)), leaf("Compute"))
    return tree


def _depth(nodes):
    return 1 + max([_depth(n[1]) for n in nodes if _is_branch(n)] + [0])


# ---------------------------------------------------------------------------------------------------------------
# one input: all observations on the real code
# ---------------------------------------------------------------------------------------------------------------
def _jsonable(nodes):
    return [[n[0], _jsonable(n[1])] if _is_branch(n) else list(n) for n in nodes]


def _obs(flat, classes):
    out = []
    for n in flat:
        kind = [k for k, c in classes.items() if type(n) is c]
        out.append((kind[0] if kind else type(n).__name__, n.name))
    return out


def _sub(arch, pos):
    node = arch
    for i in pos:
        node = node.nodes[i]
    return node


class _Bad(Exception):
    def __init__(self, rec):
        self.rec = rec


def _case(tree, rnd, full=True):
    """returns (#comparisons, failing record or None)"""
    from accelforge.frontend.arch import Memory, Toll, Container, Compute
    from accelforge.frontend.spec import Spec

    classes = {"Memory": Memory, "Toll": Toll, "Container": Container, "Compute": Compute}
    cs = computes(tree)
    req = {}
    for x in cs:
        a, b = path_A(tree, x), path_B(tree, x)
        if a != b or a is None:
            raise RuntimeError(f"oracle self-check: statements A and B disagree on {tree!r} / {x}: {a} vs {b}")
        req[x] = a
    ev = [0]

    def bad(call, x, observed, required):
        raise _Bad({"tree": _jsonable(tree), "compute": x, "call": call, "observed": observed, "required": required})

    def cmp(call, x, thunk, required):
        try:
            got = _obs(thunk(), classes)
        except Exception as e:  # the family only contains valid architectures
            bad(call, x, f"raised {type(e).__name__}: {e}", [list(t) for t in required])
        ev[0] += 1
        if got != required:
            bad(call, x, [list(t) for t in got], [list(t) for t in required])

    def all_entries(call, spec):
        try:
            res = spec._get_flattened_architecture()
            got = [_obs(f, classes) for f in res]
        except Exception as e:
            bad(call, None, f"raised {type(e).__name__}: {e}", {x: [list(t) for t in req[x]] for x in cs})
        for x in cs:
            mine = [g for g in got if g and g[-1] == ("Compute", x)]
            ev[0] += 1
            if len(mine) != 1 or mine[0] != req[x]:
                bad(call, x, [[list(t) for t in g] for g in got], [list(t) for t in req[x]])
        if len(got) != len(cs):
            bad(call, None, [[list(t) for t in g] for g in got], f"exactly one entry per compute {cs}")

    try:
        raw = T.build(tree)
        if full:
            spec = Spec(arch=raw)._spec_eval_expressions()
            all_entries("Spec._get_flattened_architecture()", spec)
        order = list(cs)
        rnd.shuffle(order)  # query order must not matter
        for x in order:
            r = req[x]
            if full:
                cmp("Spec._get_flattened_architecture(compute_node=name)", x, lambda: spec._get_flattened_architecture(compute_node=x), r)
                cmp("Spec._get_flattened_architecture(compute_node=Compute object)", x,
                    lambda: spec._get_flattened_architecture(compute_node=spec.arch.find(x)), r)
                cmp("evaluated Arch._flatten(name)", x, lambda: spec.arch._flatten(x), r)
            cmp("raw Arch._flatten(name)", x, lambda: raw._flatten(x), r)
            k = rnd.choice([1, 2, 3])
            cmp(f"raw Arch._flatten(name, {k}, return_fanout=True)[0]", x, lambda: raw._flatten(x, k, return_fanout=True)[0], r)
            for pos, sub in branches_containing(tree, x):
                cmp(f"nested branch at {list(pos)}._flatten(name)", x, lambda: _sub(raw, pos)._flatten(x), path_A(sub, x))
        if full:
            all_entries("Spec._get_flattened_architecture() repeated", spec)
    except _Bad as b:
        return ev[0], b.rec
    return ev[0], None



# ---------------------------------------------------------------------------------------------------------------
# edit histories: the tree is edited IN PLACE on the evaluated Spec (and on copies of it) between queries
# ---------------------------------------------------------------------------------------------------------------
#
# An edit is json-able data; positions are index paths of branches in the tree AS IT IS when the edit is applied:
#   ["insert", pos, i, leaf]        a new leaf becomes child i of the branch at pos
#   ["remove", pos, i]              child i (leaf or whole branch) of the branch at pos is removed
#   ["move", pos, i, dst, j]        child i of pos is taken out, then put in as child j of the branch at dst
#                                    (dst is a position in the tree after the removal)
#   ["rename", pos, i, name]        the leaf gets another name (a fresh one or one that an earlier node had)
#   ["retype", pos, i]              a nested Hierarchical becomes a Fork with the same children, or the reverse
#   ["unwrap", pos, i]              a nested branch is replaced by its children
#   ["wrap", pos, i, j, "H"|"F"]    children i..j-1 are put into a new nested branch
#   ["reorder", pos, perm]          the children of the branch are permuted
# The model of the tree (nested lists, same encoding as everywhere in this file) is edited by apply_model; the real
# objects by apply_real, through the list / attribute operations the pydantic models permit.  After every edit the
# required paths are recomputed from the model tree by the two statements A and B above.

def _clone(nodes):
    return [(n[0], _clone(n[1])) if _is_branch(n) else tuple(n) for n in nodes]


def _at(tree, pos):
    ch = tree
    for i in pos:
        ch = ch[i][1]
    return ch


def _all_branches(tree, pos=()):
    yield pos, tree
    for i, n in enumerate(tree):
        if _is_branch(n):
            yield from _all_branches(n[1], pos + (i,))


def _leaf_names(nodes):
    return [n[1] for n, _ in _pre(nodes)]


def apply_model(tree, e):
    op = e[0]
    ch = _at(tree, e[1])
    if op == "insert":
        ch.insert(e[2], tuple(e[3]))
    elif op == "remove":
        del ch[e[2]]
    elif op == "move":
        n = ch.pop(e[2])
        _at(tree, e[3]).insert(e[4], n)
    elif op == "rename":
        k, _, f, a = ch[e[2]]
        ch[e[2]] = (k, e[3], f, a)
    elif op == "retype":
        ch[e[2]] = ("F" if ch[e[2]][0] == "H" else "H", ch[e[2]][1])
    elif op == "unwrap":
        ch[e[2]:e[2] + 1] = ch[e[2]][1]
    elif op == "wrap":
        ch[e[2]:e[3]] = [(e[4], ch[e[2]:e[3]])]
    elif op == "reorder":
        ch[:] = [ch[k] for k in e[2]]
    else:
        raise ValueError(op)


def _mk(node):
    """the real object for a model node (leaf or branch)"""
    from accelforge.frontend.arch import Hierarchical, Fork
    if _is_branch(node):
        return (Hierarchical if node[0] == "H" else Fork)(nodes=[_mk(c) for c in node[1]])
    return T.build([tuple(node)]).nodes[0]


def apply_real(arch, e, variant=0):
    """the same edit on the real objects; `variant` picks among equivalent list operations"""
    from accelforge.frontend.arch import Hierarchical, Fork
    op = e[0]
    br = _sub(arch, e[1])
    nodes = br.nodes
    if op == "insert":
        if e[2] == len(nodes) and variant % 2:
            nodes.append(_mk(e[3]))
        else:
            nodes.insert(e[2], _mk(e[3]))
    elif op == "remove":
        if variant % 3 == 0:
            del nodes[e[2]]
        elif variant % 3 == 1:
            nodes.pop(e[2])
        else:
            br.nodes = type(nodes)([n for k, n in enumerate(nodes) if k != e[2]])  # a new list is assigned
    elif op == "move":
        n = nodes.pop(e[2])
        _sub(arch, e[3]).nodes.insert(e[4], n)
    elif op == "rename":
        if variant % 2:
            nodes[e[2]].name = e[3]
        else:
            setattr(nodes[e[2]], "name", e[3])
    elif op == "retype":
        old = nodes[e[2]]
        nodes[e[2]] = (Hierarchical if type(old) is Fork else Fork)(nodes=list(old.nodes))
    elif op == "unwrap":
        nodes[e[2]:e[2] + 1] = list(nodes[e[2]].nodes)
    elif op == "wrap":
        nodes[e[2]:e[3]] = [(Hierarchical if e[4] == "H" else Fork)(nodes=list(nodes[e[2]:e[3]]))]
    elif op == "reorder":
        new = [nodes[k] for k in e[2]]
        if variant % 2:
            nodes[:] = new
        else:
            br.nodes = type(nodes)(new)
    else:
        raise ValueError(op)


def _inside(pos, branchpos):
    return tuple(pos[:len(branchpos)]) == tuple(branchpos)


def single_edits(tree, fresh, all_moves=False):
    """Every elementary edit of the tree: a Compute and a non-Compute leaf inserted at every place, every node
    removed, every Compute (all_moves: every leaf) moved to every other place, every leaf renamed, every nested
    branch retyped / unwrapped, every single child and every adjacent pair wrapped into a Hierarchical and into a Fork."""
    out = []
    branches = list(_all_branches(tree))
    for k, (pos, ch) in enumerate(branches):
        for i in range(len(ch) + 1):
            out.append(["insert", list(pos), i, ["Compute", fresh + "c", 1 + (i + k) % 2, 1]])
            out.append(["insert", list(pos), i, [NC_KINDS[(i + k) % 3], fresh + "n", 1 + (i + k) % 3, 1]])
        for i, n in enumerate(ch):
            out.append(["remove", list(pos), i])
            if _is_branch(n):
                out.append(["retype", list(pos), i])
                out.append(["unwrap", list(pos), i])
            else:
                out.append(["rename", list(pos), i, fresh + "r"])
            for kind in "HF":
                out.append(["wrap", list(pos), i, i + 1, kind])
                if i + 2 <= len(ch):
                    out.append(["wrap", list(pos), i, i + 2, kind])
            if not _is_branch(n) and (all_moves or n[0] == "Compute"):
                after = _clone(tree)
                _at(after, pos).pop(i)
                for dpos, dch in _all_branches(after):
                    for j in range(len(dch) + 1):
                        if tuple(dpos) == tuple(pos) and j == i:
                            continue  # the place it came from
                        out.append(["move", list(pos), i, list(dpos), j])
        if len(ch) >= 2:
            out.append(["reorder", list(pos), list(reversed(range(len(ch))))])
    return out


def random_edit(rnd, tree, state):
    """One random edit of the (model) tree; state: {"n": name counter, "freed": names earlier nodes had}."""
    branches = list(_all_branches(tree))
    names = set(_leaf_names(tree))

    def new_name(kind):
        freed = [f for f in state["freed"] if f not in names]
        if freed and rnd.random() < 0.35:
            return rnd.choice(freed)  # also a name that used to belong to a node of ANOTHER kind
        state["n"] += 1
        return f"{PREFIX[kind]}{state['n']}"

    def nodes_at():
        return [(pos, i, n) for pos, ch in branches for i, n in enumerate(ch)]

    for _ in range(20):
        r = rnd.random()
        if r < 0.22:
            pos, ch = rnd.choice(branches)
            kind = "Compute" if rnd.random() < 0.4 else rnd.choice(NC_KINDS)
            return ["insert", list(pos), rnd.randint(0, len(ch)), [kind, new_name(kind), rnd.choice([1, 1, 2, 3, 4]), rnd.choice([1, 2, 5])]]
        cand = nodes_at()
        if not cand:
            continue
        if r < 0.38:
            pos, i, n = rnd.choice(cand)
            if _is_branch(n) and rnd.random() < 0.6:
                continue
            return ["remove", list(pos), i]
        if r < 0.66:  # moves: mostly a Compute, mostly into / out of a Fork
            comp = [c for c in cand if not _is_branch(c[2]) and c[2][0] == "Compute"]
            pos, i, n = rnd.choice(comp if comp and rnd.random() < 0.7 else cand)
            after = _clone(tree)
            _at(after, pos).pop(i)
            dsts = list(_all_branches(after))
            forks = [d for d in dsts if d[0] and _at(after, d[0][:-1])[d[0][-1]][0] == "F"]
            dpos, dch = rnd.choice(forks if forks and rnd.random() < 0.5 else dsts)
            j = rnd.randint(0, len(dch))
            if tuple(dpos) == tuple(pos) and j == i:
                continue
            return ["move", list(pos), i, list(dpos), j]
        if r < 0.78:
            leaves = [c for c in cand if not _is_branch(c[2])]
            if not leaves:
                continue
            pos, i, n = rnd.choice(leaves)
            return ["rename", list(pos), i, new_name(n[0])]
        nested = [c for c in cand if _is_branch(c[2])]
        if r < 0.86 and nested:
            pos, i, n = rnd.choice(nested)
            return [rnd.choice(["retype", "retype", "unwrap"]), list(pos), i]
        if r < 0.94:
            pos, ch = rnd.choice([b for b in branches if b[1]] or branches)
            if not ch or _depth(tree) >= 5:
                continue
            i = rnd.randrange(len(ch))
            return ["wrap", list(pos), i, min(len(ch), i + rnd.choice([1, 1, 2, 3])), rnd.choice("HFF")]
        big = [b for b in branches if len(b[1]) >= 2]
        if big:
            pos, ch = rnd.choice(big)
            perm = list(range(len(ch)))
            rnd.shuffle(perm)
            if perm != sorted(perm):
                return ["reorder", list(pos), perm]
    return None


def _check_world(tree, spec, rnd, classes, label, missing=(), light=False):
    """All queries on one (model tree, evaluated Spec) pair as they are now.  Returns (#comparisons, failure | None)."""
    cs = computes(tree)
    req = {}
    for x in cs:
        a, b = path_A(tree, x), path_B(tree, x)
        if a != b or a is None:
            raise RuntimeError(f"oracle self-check: statements A and B disagree on {tree!r} / {x}: {a} vs {b}")
        req[x] = a
    ev = [0]

    def bad(call, x, observed, required):
        raise _Bad({"on": label, "current_tree": _jsonable(tree), "compute": x, "call": call, "observed": observed, "required": required})

    def cmp(call, x, thunk, required):
        try:
            got = _obs(thunk(), classes)
        except Exception as e:
            bad(call, x, f"raised {type(e).__name__}: {e}", [list(t) for t in required])
        ev[0] += 1
        if got != required:
            bad(call, x, [list(t) for t in got], [list(t) for t in required])

    def all_entries(call):
        try:
            got = [_obs(f, classes) for f in spec._get_flattened_architecture()]
        except Exception as e:
            bad(call, None, f"raised {type(e).__name__}: {e}", {x: [list(t) for t in req[x]] for x in cs})
        for x in cs:
            mine = [g for g in got if g and g[-1] == ("Compute", x)]
            ev[0] += 1
            if len(mine) != 1 or mine[0] != req[x]:
                bad(call, x, [[list(t) for t in g] for g in got], [list(t) for t in req[x]])
        if len(got) != len(cs):
            bad(call, None, [[list(t) for t in g] for g in got], f"exactly one entry per compute {cs}")

    try:
        all_entries("Spec._get_flattened_architecture()")
        order = list(cs)
        rnd.shuffle(order)
        for x in order:
            r = req[x]
            cmp("Spec._get_flattened_architecture(compute_node=name)", x, lambda: spec._get_flattened_architecture(compute_node=x), r)
            if light:
                continue
            cmp("Spec._get_flattened_architecture(compute_node=Compute object)", x,
                lambda: spec._get_flattened_architecture(compute_node=spec.arch.find(x)), r)
            cmp("Arch._flatten(name)", x, lambda: spec.arch._flatten(x), r)
            cmp("Arch._flatten(name, 2, return_fanout=True)[0]", x, lambda: spec.arch._flatten(x, 2, return_fanout=True)[0], r)
            for pos, sub in branches_containing(tree, x):
                cmp(f"nested branch at {list(pos)}._flatten(name)", x, lambda: _sub(spec.arch, pos)._flatten(x), path_A(sub, x))
        for x in missing:  # a name no node has now: no path may be returned for it
            ev[0] += 1
            try:
                got = _obs(spec._get_flattened_architecture(compute_node=x), classes)
            except Exception:
                continue
            bad("Spec._get_flattened_architecture(compute_node=name of no node)", x, [list(t) for t in got], "an exception: no node has this name")
    except _Bad as b:
        return ev[0], b.rec
    return ev[0], None


def run_history(tree0, edits, rnd, copies=(), variant=0, query_first=True, spec=None):
    """Builds and evaluates tree0, queries, then applies the edits one by one, querying after each.
    edits: a list of edits, or an int n: n random edits.  copies: {step: how} with how in deepcopy /
    model_copy(deep=True) / arch deepcopy / shallow model_copy / evaluate again: before that step the history
    continues on that copy; the object left behind must keep answering for ITS tree.
    spec: an evaluated (and already queried) Spec of tree0 to work on instead of building one.
    Returns (#comparisons, failure record | None, history description)."""
    import copy
    from accelforge.frontend.arch import Memory, Toll, Container, Compute
    from accelforge.frontend.spec import Spec

    classes = {"Memory": Memory, "Toll": Toll, "Container": Container, "Compute": Compute}
    tree = _clone(tree0)
    hist = {"tree": _jsonable(tree0), "history": []}
    ev = 0
    if spec is None:
        spec = Spec(arch=T.build(tree))._spec_eval_expressions()
    else:
        query_first = False
    worlds = []  # (model tree, spec, label) left behind by copies; a shallow copy shares the model tree
    state = {"n": 100 + len(_leaf_names(tree)), "freed": []}

    def fail(rec):
        rec = dict(rec)
        rec["tree"] = hist["tree"]
        rec["history"] = hist["history"]
        return rec

    if query_first:
        e, rec = _check_world(tree, spec, rnd, classes, "the evaluated Spec")
        ev += e
        if rec:
            return ev, fail(rec), hist
    steps = edits if isinstance(edits, list) else [None] * edits
    for k, e in enumerate(steps):
        how = copies.get(k) if copies else None
        if how:
            old = (tree, spec)
            if how == "deepcopy":
                spec, tree = copy.deepcopy(spec), _clone(tree)
            elif how == "model_copy(deep=True)":
                spec, tree = spec.model_copy(deep=True), _clone(tree)
            elif how == "arch deepcopy":  # a new Spec object around a deep copy of the arch
                spec = spec.model_copy()
                spec.arch = copy.deepcopy(old[1].arch)
                tree = _clone(tree)
            elif how == "shallow model_copy":  # shares the arch: both must follow every later edit
                spec = spec.model_copy()
            elif how == "evaluate again":
                spec, tree = spec._spec_eval_expressions(), _clone(tree)
            else:
                raise ValueError(how)
            worlds = (worlds + [(old[0], old[1], f"the object left behind at step {k} ({how})")])[-2:]
            hist["history"].append(["continue on", how])
        if e is None:
            e = random_edit(rnd, tree, state)
            if e is None:
                continue
        before = set(_leaf_names(tree))
        apply_model(tree, e)
        hist["history"].append(e)
        try:
            apply_real(spec.arch, e, variant + k)
        except Exception as ex:
            return ev, fail({"on": "the edited Spec", "current_tree": _jsonable(tree), "compute": None, "call": f"edit {e}",
                             "observed": f"raised {type(ex).__name__}: {ex}", "required": "the edit is accepted"}), hist
        now = set(_leaf_names(tree))
        state["freed"] += sorted(before - now)
        missing = [n for n in state["freed"] if n not in now][-2:]
        c, rec = _check_world(tree, spec, rnd, classes, "the edited Spec", missing=missing)
        ev += c
        if rec:
            return ev, fail(rec), hist
        for wt, ws, wl in worlds:
            c, rec = _check_world(wt, ws, rnd, classes, wl, light=True)
            ev += c
            if rec:
                return ev, fail(rec), hist
    return ev, None, hist


COPY_KINDS = ["deepcopy", "model_copy(deep=True)", "arch deepcopy", "shallow model_copy", "evaluate again"]


def _short(tree):
    def go(f):
        return "[" + " ".join((n[0] + go(n[1])) if _is_branch(n) else n[1] + (f"x{n[2]}" if n[2] > 1 else "") for n in f) + "]"
    return go(tree)


def _sweep(seed, n_random, K_full, K_direct, known=None):
    rnd = random.Random(seed)
    ev, seen, samples = 0, set(), []
    stats = {"toll": 0, "nested_H": 0, "fork_with_x": 0, "fork_without_x": 0, "multi_compute": 0, "depth4": 0}

    def note(tree):
        s = repr(tree)
        if s in seen:
            return
        seen.add(s)
        cs = computes(tree)
        pre = list(_pre(tree))
        stats["toll"] += any(n[0] == "Toll" for n, _ in pre)
        stats["multi_compute"] += len(cs) > 1
        stats["depth4"] += _depth(tree) >= 4
        forks = set().union(*[f for _, f in pre]) if pre else set()
        cf = set().union(*[f for n, f in pre if n[0] == "Compute"]) if pre else set()
        stats["fork_with_x"] += bool(cf)
        stats["fork_without_x"] += bool(forks - cf) or "('F', [])" in s
        stats["nested_H"] += "('H'" in s

    # exhaustive core through the Spec
    for i, tree in enumerate(exhaustive_trees(K_full)):
        note(tree)
        e, badrec = _case(tree, rnd, full=True)
        ev += e
        if badrec:
            return ev, len(seen), badrec, samples, stats
        if i % 211 == 7 and len(samples) < 3:
            samples.append("core " + _short(tree))
    # larger exhaustive layer on Hierarchical._flatten only
    if K_direct > K_full:
        k = 0
        for sh in _shape_forests(K_direct, 3):
            if not _shape_has_compute(sh):
                continue
            tree = label(sh, k)
            k += 1
            note(tree)
            e, badrec = _case(tree, rnd, full=False)
            ev += e
            if badrec:
                return ev, len(seen), badrec, samples, stats
    # seeded random trees
    for i in range(n_random):
        tree = random_tree(rnd)
        note(tree)
        e, badrec = _case(tree, rnd, full=True)
        ev += e
        if badrec:
            return ev, len(seen), badrec, samples, stats
        if len(samples) < 8 and i % max(1, n_random // 5) == 0:
            samples.append("random " + _short(tree))
    # ---- edit histories
    import copy
    from accelforge.frontend.spec import Spec
    thorough = n_random > 1000
    stats.update({"histories": 0, "history_edits": 0, "core_single_edits": 0, "core_edit_pairs": 0})
    hseen = set()

    def hist_run(tree, edits, **kw):
        nonlocal ev
        c, rec, h = run_history(tree, edits, rnd, **kw)
        ev += c
        stats["histories"] += 1
        stats["history_edits"] += sum(1 for x in h["history"] if x[0] != "continue on")
        hseen.add(repr(h))
        return rec, h

    # every single edit of every tree with <= K_hist nodes: half on the evaluated Spec that has just answered all
    # queries, half on a copy of it made after it has answered (5 kinds of copy in turn)
    K_hist = 4 if thorough else 3
    k = 0
    for tree in exhaustive_trees(K_hist):
        base = Spec(arch=T.build(tree))._spec_eval_expressions()
        c, rec = _check_world(tree, base, rnd, _classes(), "the evaluated Spec")
        ev += c
        if rec:
            return ev, len(seen) + len(hseen), _hist_rec(rec, tree, []), samples, stats
        for e in single_edits(tree, "Z", all_moves=thorough):
            k += 1
            stats["core_single_edits"] += 1
            if k % 7 == 0:  # the whole history on a freshly built Spec
                rec, h = hist_run(tree, [e], variant=k)
            else:
                rec, h = hist_run(tree, [e], variant=k, spec=copy.deepcopy(base),
                                  copies={0: COPY_KINDS[k % 5]} if k % 2 else {})
            if rec:
                return ev, len(seen) + len(hseen), rec, samples, stats
    # every ordered pair of single edits (the second one enumerated on the edited tree) of the trees with <= K_pair nodes
    K_pair = 3 if thorough else 2
    k = 0
    for tree in exhaustive_trees(K_pair):
        base = Spec(arch=T.build(tree))._spec_eval_expressions()
        _check_world(tree, base, rnd, _classes(), "the evaluated Spec")
        for e1 in single_edits(tree, "Z"):
            t1 = _clone(tree)
            apply_model(t1, e1)
            for e2 in single_edits(t1, "Y"):
                k += 1
                if thorough and K_pair == 3 and len(_leaf_names(tree)) + sum(1 for _ in _all_branches(tree)) > 3 and k % 4:
                    continue  # one in four of the pairs on the 3-node trees
                stats["core_edit_pairs"] += 1
                rec, h = hist_run(tree, [e1, e2], variant=k, spec=copy.deepcopy(base),
                                  copies={k % 2: COPY_KINDS[k % 5]} if k % 3 == 0 else {})
                if rec:
                    return ev, len(seen) + len(hseen), rec, samples, stats
    # seeded random histories
    n_hist = 6000 if thorough else 300
    for i in range(n_hist):
        tree = random_tree(rnd) if rnd.random() < 0.8 else label(rnd.choice(_shape_forests(rnd.randint(1, 4), 3)), i)
        nsteps = rnd.randint(3, 8)
        copies = {rnd.randrange(nsteps): rnd.choice(COPY_KINDS) for _ in range(rnd.choice([0, 1, 1, 2]))}
        rec, h = hist_run(tree, nsteps, copies=copies, variant=i)
        if rec:
            return ev, len(seen) + len(hseen), rec, samples, stats
        if i in (1, 2):
            samples[-1:] = ["history " + _short(tree) + " then " + "; ".join(" ".join(str(x).replace(" ", "") for x in e) for e in h["history"])[:200]]
    return ev, len(seen) + len(hseen), None, samples, stats


def _classes():
    from accelforge.frontend.arch import Memory, Toll, Container, Compute
    return {"Memory": Memory, "Toll": Toll, "Container": Container, "Compute": Compute}


def _hist_rec(rec, tree, history):
    rec = dict(rec)
    rec["tree"] = _jsonable(tree)
    rec["history"] = history
    return rec


def _sizes(n):
    # quick: K<=4 via Spec (888 trees), K=5 direct (7673), 1000 random; thorough: K<=5 via Spec (8561), K=6 direct (73333), 20000 random
    return (5 * n, 4, 5) if n <= 200 else (10 * n, 5, 6)


def _input_of(rec):
    inp = {"tree": rec["tree"], "compute": rec["compute"], "call": rec["call"]}
    for k in ("history", "current_tree", "on"):
        if k in rec:
            inp[k] = rec[k]
    return inp


def _result(seed, n, known):
    n_random, kf, kd = _sizes(n)
    ev, distinct, badrec, samples, stats = _sweep(seed, n_random, kf, kd, known)
    if badrec:
        return {"failed": True, "input": _input_of(badrec), "observed": badrec["observed"], "required": badrec["required"]}
    return {"failed": False, "evaluations": ev, "distinct": distinct, "known_finding_hits": 0, "bound": BOUND, "rule": RULE,
            "exhaustive": True, "coverage": stats, "samples": samples}


def crosscheck(p):
    return _result(p.get("seed", 0), p.get("n", 200), p.get("known"))


def bounded(p):
    return _result(p.get("seed", 0), 200 if p.get("tier", "quick") == "quick" else 2000, p.get("known"))


def replay(p):
    ev, distinct, badrec, samples, stats = _sweep(p.get("seed", 0), 600, 4, 4, p.get("known"))
    if badrec:
        return {"failed": True, "input": _input_of(badrec), "observed": badrec["observed"], "required": badrec["required"]}
    return {"failed": False, "tried": distinct}


def witness(p):
    return {"failed": False}
