"""Executable oracle for C32: the real parallel() with random sleeps / worker counts."""
import random, time


def _job(i, dt):
    time.sleep(dt)
    return ("result", i)


def _run(n, workers, seed, as_dict, slow_first=False):
    import importlib

    P = importlib.import_module("accelforge.util.parallel")
    from joblib import delayed

    rnd = random.Random(seed)
    dts = [rnd.choice([0, 0, 0.001, 0.004, 0.01]) for _ in range(n)]
    if slow_first and n:
        # adversarial schedule that does not depend on machine load: the first job outlasts all
        # the others by far, so with >= 2 workers the completion order differs from the job order
        dts = [0.4] + [0.0] * (n - 1)
    if as_dict:
        keys = [f"k{rnd.randint(0, 10**6)}_{i}" for i in range(n)]
        rnd.shuffle(keys)
        jobs = {k: delayed(_job)(k, dt) for k, dt in zip(keys, dts)}
        got = P.parallel(jobs, n_jobs=workers)
        want = {k: ("result", k) for k in keys}
        ok = got == want
        return ok, {"mode": "dict", "n": n, "workers": workers, "seed": seed, "observed": repr(got)[:300], "required": repr(want)[:300]}
    jobs = [delayed(_job)(i, dt) for i, dt in enumerate(dts)]
    got = P.parallel(jobs, n_jobs=workers)
    want = [("result", i) for i in range(n)]
    return got == want, {"mode": "list", "n": n, "workers": workers, "seed": seed, "observed": repr(got)[:300], "required": repr(want)[:300]}


def _sweep(cases):
    ev = 0
    for n, w, seed, d, *rest in cases:
        ok, info = _run(n, w, seed, d, *rest)
        if rest:
            info["schedule"] = "first job sleeps 0.4 s, the others 0"
        ev += 1
        if not ok:
            return ev, info
    return ev, None


def witness(p):
    return {"failed": False}


def replay(p):
    seed = p.get("seed", 0)
    cases = [(n, w, seed + n, d) for d in (False, True) for w in (1, 2, 3) for n in (0, 1, 2, 3, 5, 8)]
    cases += [(n, w, seed + n, d, True) for d in (False, True) for w in (2, 3) for n in (2, 3, 5)]
    ev, bad = _sweep(cases)
    if bad:
        return {"failed": True, "input": bad, "observed": bad["observed"], "required": bad["required"]}
    return {"failed": False, "tried": ev}


def crosscheck(p):
    seed, budget = p.get("seed", 0), p.get("n", 200)
    rnd = random.Random(seed)
    ns = [0, 1, 2, 3, 7] if budget <= 200 else [0, 1, 2, 3, 5, 9, 17, 33, 64]
    ws = [1, 2, 4] if budget <= 200 else [1, 2, 3, 5, 8, 16]
    cases = [(n, w, rnd.randint(0, 10**6), d) for d in (False, True) for w in ws for n in ns]
    # after the random cases (worker pools are warm by then): the slow-first schedule
    cases += [(n, w, rnd.randint(0, 10**6), d, True) for d in (False, True) for w in ws[1:3] for n in ns if n >= 2]
    ev, bad = _sweep(cases)
    if bad:
        return {"failed": True, "input": bad, "observed": bad["observed"], "required": bad["required"]}
    return {"failed": False, "evaluations": ev, "distinct": len(set((c[0], c[1], c[3], len(c)) for c in cases)), "rule": "real parallel() on lists/dicts of sleeping jobs (random sleeps 0-10 ms, then a slow-first schedule: job 0 sleeps 0.4 s, the others 0), lengths x worker counts; result position i / key k must hold job i's / k's own result"}
