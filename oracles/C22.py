"""Executable oracle for C22: real set-expression evaluation vs Python set algebra."""
import random


def _workload(rnd):
    tensors = ["A", "B", "C", "D", "E", "F"]
    persistent = {t for t in tensors if rnd.random() < 0.2}  # per tensor: must agree across Einsums
    n = rnd.randint(1, 4)
    eins = []
    prev_out = None
    for i in range(n):
        ins = rnd.sample(tensors, rnd.randint(1, 3))
        if prev_out and prev_out not in ins and rnd.random() < 0.6:
            ins[0] = prev_out
        out = rnd.choice([t for t in tensors if t not in ins])
        pers = [t for t in list(ins) + [out] if t in persistent]
        eins.append((f"E{i}", ins, out, pers))
        prev_out = out
    return eins


def _yaml(eins):
    lines = ["workload:", "  rank_sizes: {M: 4, K: 4}", "  bits_per_value: {All: 8}", "  einsums:"]
    for name, ins, out, pers in eins:
        lines.append(f"  - name: {name}")
        lines.append("    tensor_accesses:")
        for t in ins:
            p = ", persistent: true" if t in pers else ""
            lines.append(f"    - {{name: {t}, projection: [m, k]{p}}}")
        po = ", persistent: true" if out in pers else ""
        lines.append(f"    - {{name: {out}, projection: [m, k], output: true{po}}}")
    lines += ["arch:", "  nodes:",
              "  - !Memory {name: Main, size: inf, area: 1, leak_power: 0, actions: [{name: read, energy: 1, throughput: 1}, {name: write, energy: 1, throughput: 1}]}",
              "  - !Compute {name: MAC, area: 1, leak_power: 0, actions: [{name: compute, energy: 1, throughput: 1}]}"]
    return "\n".join(lines)


def _named_sets(eins, idx):
    name, ins, out, pers = eins[idx]
    U = set(ins) | {out}
    readers = lambda t: [e for e in eins if t in e[1]]
    writers = lambda t: [e for e in eins if t == e[2]]
    env = {"All": set(U), "Tensors": set(U), "Nothing": set(), "Inputs": set(ins), "Outputs": {out},
           "Intermediates": {t for t in U if readers(t) and writers(t)},
           "Shared": {t for t in U if len({e[0] for e in readers(t)} | {e[0] for e in writers(t)}) > 1},
           "Persistent": set(pers)}
    for t in U:
        env[t] = {t}
    # tensors of OTHER Einsums of the workload are known names too: empty sets in this Einsum's universe
    for e in eins:
        for t in list(e[1]) + [e[2]]:
            env.setdefault(t, set())
    return U, env


def _rand_expr(rnd, names, depth):
    if depth == 0 or rnd.random() < 0.25:
        return rnd.choice(names)
    r = rnd.random()
    if r < 0.2:
        return "~(" + _rand_expr(rnd, names, depth - 1) + ")"
    op = rnd.choice(["&", "|", "-", "^"])
    return "(" + _rand_expr(rnd, names, depth - 1) + f" {op} " + _rand_expr(rnd, names, depth - 1) + ")"


class _PS:
    """python-set reference with complement inside a universe"""

    def __init__(self, s, U):
        self.s, self.U = set(s), U

    def __and__(self, o): return _PS(self.s & o.s, self.U)
    def __or__(self, o): return _PS(self.s | o.s, self.U)
    def __sub__(self, o): return _PS(self.s - o.s, self.U)
    def __xor__(self, o): return _PS(self.s ^ o.s, self.U)
    def __invert__(self): return _PS(self.U - self.s, self.U)


def _spec(rnd):
    import tempfile, os
    from accelforge.frontend.spec import Spec

    eins = _workload(rnd)
    with tempfile.NamedTemporaryFile("w", suffix=".yaml", delete=False) as f:
        f.write(_yaml(eins))
        path = f.name
    try:
        e = Spec.from_yaml(path)._spec_eval_expressions()
    finally:
        os.unlink(path)
    return eins, e


def _check_exprs(rnd, n_exprs):
    from accelforge.util._setexpressions import eval_set_expression, eval_set_expression_dict
    from accelforge.frontend.renames import TensorName
    from accelforge.util.exceptions import EvaluationError

    eins, e = _spec(rnd)
    ev = 0
    for idx, ein in enumerate(e.workload.einsums):
        U, env = _named_sets(eins, idx)
        table = {r.name: r.source for r in ein.renames}
        names = list(env)
        for _ in range(n_exprs):
            expr = _rand_expr(rnd, names, rnd.randint(1, 4))
            want = eval(expr, {"__builtins__": {}}, {k: _PS(v, U) for k, v in env.items()}).s
            got = set(eval_set_expression(expr, table, TensorName, "oracle").instance)
            ev += 1
            if got != want:
                return ev, {"einsums": eins, "einsum": ein.name, "expression": expr, "observed": sorted(got), "required": sorted(want)}
        # dictionaries keyed by set expressions, with an Other key
        for _ in range(max(2, n_exprs)):
            keys = [_rand_expr(rnd, names, rnd.randint(0, 2)) for _ in range(rnd.randint(0, 4))]
            d = {k: i for i, k in enumerate(dict.fromkeys(keys))}
            if rnd.random() < 0.8:
                d["Other"] = -1
            sets = {k: eval(k, {"__builtins__": {}}, {n_: _PS(v, U) for n_, v in env.items()}).s for k in d if k != "Other"}
            overlap = any(sets[a] & sets[b] for a in sets for b in sets if a < b)
            ev += 1
            try:
                res = eval_set_expression_dict(dict(d), table, TensorName, "oracle")
            except EvaluationError:
                if not overlap:
                    return ev, {"einsums": eins, "einsum": ein.name, "dict": list(d), "observed": "EvaluationError", "required": "no error (keys are disjoint)"}
                continue
            if overlap:
                return ev, {"einsums": eins, "einsum": ein.name, "dict": list(d), "observed": "accepted", "required": "EvaluationError (overlapping keys)"}
            assigned = {}
            for k, inst, v in res:
                for t in inst:
                    assigned.setdefault(t, []).append(k)
            if "Other" in d and (set(assigned) != U or any(len(v) != 1 for v in assigned.values())):
                return ev, {"einsums": eins, "einsum": ein.name, "dict": list(d), "observed": {t: v for t, v in assigned.items()}, "required": "every tensor of the Einsum assigned exactly once"}
    return ev, None


def witness(p):
    return {"failed": False}


def replay(p):
    rnd = random.Random(p.get("seed", 0))
    tot = 0
    for _ in range(12):
        ev, bad = _check_exprs(rnd, 12)
        tot += ev
        if bad:
            return {"failed": True, "input": bad, "observed": bad["observed"], "required": bad["required"]}
    return {"failed": False, "tried": tot}


def crosscheck(p):
    rnd = random.Random(p.get("seed", 0))
    rounds = 10 if p.get("n", 200) <= 200 else 80
    tot = 0
    for _ in range(rounds):
        ev, bad = _check_exprs(rnd, 10)
        tot += ev
        if bad:
            return {"failed": True, "input": bad, "observed": bad["observed"], "required": bad["required"]}
    return {"failed": False, "evaluations": tot, "distinct": tot, "rule": "random workloads of 1-4 Einsums; random expression trees (depth <= 4) over All/Tensors/Nothing/Inputs/Outputs/Intermediates/Shared/Persistent/tensor names with & | - ^ ~ evaluated by the real eval_set_expression vs Python sets with complement in the Einsum's tensors; random dictionaries of set-expression keys with an Other key through the real eval_set_expression_dict"}
