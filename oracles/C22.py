def witness(p): return {"failed": False}
def replay(p): return {"failed": False}
def crosscheck(p): return {"failed": False, "evaluations": 0}
