"""Bounded run-time contract check for C12: pmapping-table Pareto pruning (makepareto / PmappingDataframe.make_pareto).

The REAL `accelforge.mapper.FFM._pareto_df.pareto.makepareto` and
`accelforge.mapper.FFM._join_pmappings.pmapping_dataframe.PmappingDataframe.make_pareto` are called on small
generated pandas tables.  Every column of a generated table carries the class it was generated as (the name
is taken from the column-name convention of df_convention.py, the class is known by construction and is never
obtained from the repository's own predicates):

  obj    first <SEP>-part is "Total"                            objective, minimised
  res    "reservation<SEP>name<SEP>nloops<SEP>left|right"       reservation, minimised
  fused  "fused_loop<SEP>..." but not "fused_loop<SEP>n_iterations..."   tile shape: rows compete only if equal
  niter  "fused_loop<SEP>n_iterations..."                        ignored
  split  any name, passed through the `split_by_cols` argument   rows compete only if equal
  other  tensor / mapping / action / energy / binding columns and look-alike trap names      ignored

Required (written here, O(n^2), on the values stored in the table):

  Z  all tolerances zero: kept rows == { i | no j != i with equal fused/split values, P[j] <= P[i] on every
     objective and reservation column, and (P[j] != P[i] or j < i) }   (of rows equal on all these columns the
     first is kept); the returned frame is exactly the input restricted to these rows (same order, index,
     columns, untouched values); the input frame is not modified.
  T  tolerances (t_obj, t_res, A): every dropped row b has a KEPT row a with equal fused/split values and
     a <= U(b, t_obj, 0) on every objective, a <= U(b, t_res, A) on every reservation, where
     U(b, t, A) = (b + A) + t * max(0, b + A)  [= (1+t)*(b+A) for non-negative values: factor (1+t) and the
     absolute slack A of round_to_tolerance / logscale_to_tolerance / multi_round; each of the two roundings
     moves a value by at most A/2 resp. a factor sqrt(1+t)].  Where a class has zero tolerance the comparison
     is exact, otherwise a relative 1e-5 is allowed for the float log/exp.  The returned frame is the input
     restricted to the kept rows.  (Only this direction is stated by the property; pruning power under a
     non-zero tolerance is not demanded, it is only counted.)
  K  adding constant columns of any class / removing the table's constant columns never changes which rows
     are kept (same call, same tolerances).
  M  PmappingDataframe.make_pareto obeys Z/T with the resource tolerance replaced by the objective tolerance
     when drop_valid_reservations is set; inplace=False leaves the object's table unchanged and returns a new
     object, inplace=True returns the object itself; construction without skip_pareto prunes at zero
     tolerance; a second zero-tolerance call changes nothing.

Values are kept to numbers whose float32 images and float32 row sums are exact in the zero-tolerance part
(small integers and multiples of 1/4, |v| < 2**14), finite, no NaN in compared columns: the float32 / tie /
>=1e30 behaviour of fast_pareto_mask is C11's subject, not C12's.  Check T is insensitive to those (they can
only keep additional rows).
"""
import itertools
import random

SEP = "<SEP>"

# No input class of C12 is known to fail on the unchanged tree.
CLASSES = {}

OBJ_NAMES = ["Total<SEP>energy", "Total<SEP>latency", "Total", "Total<SEP>a<SEP>b", "Total<SEP>reservation"]
RES_NAMES = [
    "reservation<SEP>GLB<SEP>0<SEP>left", "reservation<SEP>GLB<SEP>0<SEP>right", "reservation<SEP>GLB<SEP>1<SEP>right",
    "reservation<SEP>PE<SEP>-1<SEP>right", "reservation<SEP>Total<SEP>2<SEP>left", "reservation<SEP>fused_loop<SEP>3<SEP>right",
]
FUSED_NAMES = ["fused_loop<SEP>E1<SEP>tile_shape0", "fused_loop<SEP>E1<SEP>tile_shape1", "fused_loop<SEP>E2<SEP>initial3", "fused_loop<SEP>Total", "fused_loop<SEP>reservation<SEP>a<SEP>0<SEP>left"]
NITER_NAMES = ["fused_loop<SEP>n_iterations<SEP>0", "fused_loop<SEP>n_iterations<SEP>1"]
SPLIT_NAMES = ["E1<SEP>tile_shape0", "E1<SEP>stride<SEP>m<SEP>0", "tensor<SEP>S"]
OTHER_NAMES = [
    "tensor<SEP>A", "tensor<SEP>B", "mapping", "E1<SEP>mapping", "action<SEP>GLB<SEP>read", "E1<SEP>energy<SEP>GLB<SEP>read",
    "binding<SEP>x", "E1<SEP>compressed_index", "usage<SEP>memory<SEP>GLB<SEP>A", "stride<SEP>m<SEP>0", "first_latency<SEP>GLB<SEP>0",
    # look-alikes that must NOT be classified as objective / reservation / fused loop
    "Totally<SEP>x", "x<SEP>Total<SEP>y", "total<SEP>energy", "E1<SEP>Total<SEP>energy", "TotalEnergy",
    "reservations<SEP>GLB<SEP>0<SEP>left", "E1<SEP>reservation<SEP>GLB<SEP>0<SEP>left", "Reservation<SEP>GLB<SEP>0<SEP>left",
    "fused_loops<SEP>x", "E1<SEP>fused_loop<SEP>x", "n_iterations<SEP>0x", "fused_loop",
]
ROWID = "E9<SEP>mapping"

TOL_GRID_OBJ = [0, 0.01, 0.1, 0.5, 1.0]
TOL_GRID_RES = [0, 0.05, 0.25, 1.0]
TOL_GRID_ABS = [0, 0.05, 0.5, 2.0]


# ------------------------------------------------------------------------------------------------ table building

def _np_dtype(name):
    import numpy as np

    return {"int64": np.int64, "int32": np.int32, "float64": np.float64, "float32": np.float32, "object": object}[name]


def _frame(case):
    """pandas table of a case (columns in case order)."""
    import numpy as np
    import pandas as pd

    n = case["n"]
    data = {}
    for c in case["columns"]:
        if c["dtype"] == "object":
            arr = np.empty(n, dtype=object)
            for i, v in enumerate(c["values"]):
                arr[i] = v
        else:
            arr = np.array(c["values"], dtype=_np_dtype(c["dtype"]))
        data[c["name"]] = arr
    df = pd.DataFrame(data, columns=[c["name"] for c in case["columns"]])
    assert len(df) == n, (len(df), n)
    if case.get("index") is not None:
        df.index = pd.Index(case["index"])
    return df


def _stored(df, name):
    """Values actually stored in the table, as exact Python numbers."""
    out = []
    for v in df[name].values:
        f = float(v)
        out.append(int(f) if f == int(f) and abs(f) < 2 ** 53 else f)
    return out


def _cols(case, cls):
    return [c["name"] for c in case["columns"] if c["cls"] == cls]


def _pareto_cols(case):
    """(objective names, reservation names) that take part, honouring an explicit `columns` argument."""
    obj, res = _cols(case, "obj"), _cols(case, "res")
    if case.get("columns_arg") is not None:
        sel = set(case["columns_arg"])
        obj, res = [c for c in obj if c in sel], [c for c in res if c in sel]
    return obj, res


# ------------------------------------------------------------------------------------------------ required values

def _key_rows(df, names):
    cols = [_stored_any(df, c) for c in names]
    return [tuple(col[i] for col in cols) for i in range(len(df))]


def _stored_any(df, name):
    vals = df[name].values
    if getattr(vals.dtype, "kind", "O") not in "iufb":
        return [v if isinstance(v, str) else repr(v) for v in vals]
    return _stored(df, name)


def required_exact(df, case):
    """Positions kept at zero tolerance (definition, O(n^2))."""
    obj, res = _pareto_cols(case)
    P = _key_rows(df, obj + res)
    F = _key_rows(df, _cols(case, "fused") + _cols(case, "split"))
    n = len(df)
    keep = []
    for i in range(n):
        dominated = False
        for j in range(n):
            if j == i or F[j] != F[i]:
                continue
            if all(a <= b for a, b in zip(P[j], P[i])) and (P[j] != P[i] or j < i):
                dominated = True
                break
        if not dominated:
            keep.append(i)
    return keep


def _upper(b, t, A):
    s = b + A
    u = s + t * max(0.0, s)
    if t or A:
        u += 1e-5 * max(1.0, abs(u))
    return u


def tolerance_violation(df, case, kept, t_obj, t_res, A):
    """None, or a description of a dropped row that no kept row dominates within the stated slack."""
    obj, res = _pareto_cols(case)
    O, R = _key_rows(df, obj), _key_rows(df, res)
    F = _key_rows(df, _cols(case, "fused") + _cols(case, "split"))
    keptset = set(kept)
    for b in range(len(df)):
        if b in keptset:
            continue
        ub_o = [_upper(v, t_obj, 0) for v in O[b]]
        ub_r = [_upper(v, t_res, A) for v in R[b]]
        ok = False
        for a in kept:
            if F[a] != F[b]:
                continue
            if all(x <= u for x, u in zip(O[a], ub_o)) and all(x <= u for x, u in zip(R[a], ub_r)):
                ok = True
                break
        if not ok:
            return {"dropped_row": b, "objectives": list(O[b]), "reservations": list(R[b]), "fused": [str(x) for x in F[b]],
                    "kept_rows_same_fused": [{"row": a, "objectives": list(O[a]), "reservations": list(R[a])} for a in kept if F[a] == F[b]][:6]}
    return None


# ------------------------------------------------------------------------------------------------ calling the real code

def _z(x):
    return 0 if x is None else x


def _call(df, case):
    """Runs the real function named by the case on df; returns (result frame, table the pruning was applied to
    (deep copy taken before the pruning call), list of problems)."""
    from accelforge.mapper.FFM._pareto_df.pareto import makepareto

    problems = []
    via = case.get("via", "makepareto")
    t_obj, t_res, A = case.get("t_obj", 0), case.get("t_res", 0), case.get("A", 0)
    if via == "makepareto":
        kw = {}
        if case.get("columns_arg") is not None:
            kw["columns"] = set(case["columns_arg"]) if case.get("columns_as_set") else list(case["columns_arg"])
        split = _cols(case, "split")
        if split:
            kw["split_by_cols"] = tuple(split) if case.get("split_as_tuple") else list(split)
        if case.get("pass_tolerances", True):
            kw.update(resource_usage_tolerance=t_res, objective_tolerance=t_obj, absolute_resource_usage_tolerance=A)
        original = df.copy(deep=True)
        res = makepareto(df, **kw)
        if not _frames_equal(df, original):
            problems.append("makepareto modified its input table")
        return res, original, problems

    from accelforge.mapper.FFM._join_pmappings.pmapping_dataframe import PmappingDataframe

    dvr = bool(case.get("drop_valid_reservations"))
    if via == "ctor":  # pruning at construction, zero tolerance (the constructor's numeric cast of object columns is not C12's subject)
        p0 = PmappingDataframe(df.copy(deep=True), n_total_pmappings=len(df), n_valid_pmappings=len(df), ignored_resources=set(), drop_valid_reservations=dvr, skip_pareto=True)
        original = p0.data.copy(deep=True)
        p = PmappingDataframe(df, n_total_pmappings=len(df), n_valid_pmappings=len(df), ignored_resources=set(), drop_valid_reservations=dvr)
        return p.data, original, problems
    inplace = bool(case.get("inplace", True))
    p = PmappingDataframe(df, n_total_pmappings=len(df), n_valid_pmappings=len(df), ignored_resources=set(), drop_valid_reservations=dvr, skip_pareto=True)
    before = p.data.copy(deep=True)
    kw = dict(objective_tolerance=t_obj, resource_usage_tolerance=t_res, absolute_resource_usage_tolerance=A)
    if case.get("columns_arg") is not None:
        kw["columns"] = list(case["columns_arg"])
    r = p.make_pareto(inplace=inplace, **kw)
    if inplace:
        if r is not p:
            problems.append("make_pareto(inplace=True) did not return the object itself")
    else:
        if r is p:
            problems.append("make_pareto(inplace=False) returned the object itself")
        if not p.data.equals(before):
            problems.append("make_pareto(inplace=False) changed the object's own table")
    res = r.data
    if case.get("repeat") and not (_z(t_obj) or _z(t_res) or _z(A)):
        r2 = r.make_pareto(inplace=True, **kw)
        if not r2.data.equals(res):
            problems.append("a second zero-tolerance make_pareto changed the table")
    return res, before, problems


def _effective(case):
    t_obj, t_res, A = _z(case.get("t_obj", 0)), _z(case.get("t_res", 0)), _z(case.get("A", 0))
    via = case.get("via", "makepareto")
    if via == "ctor" or (via == "makepareto" and not case.get("pass_tolerances", True)):
        return 0, 0, 0
    if via == "make_pareto" and case.get("drop_valid_reservations"):
        t_res = t_obj
    return t_obj, t_res, A


def _positions(df, res, case):
    """Positions (in df) of the rows of the returned frame, by index label or by the row-id column."""
    if ROWID in df.columns:
        ids = list(df[ROWID].values)
        pos = {v: i for i, v in enumerate(ids)}
        return [pos[v] for v in res[ROWID].values]
    labels = list(df.index)
    pos = {v: i for i, v in enumerate(labels)}
    assert len(pos) == len(labels)
    return [pos[v] for v in res.index]


def _frames_equal(a, b):
    if list(a.columns) != list(b.columns) or len(a) != len(b):
        return False
    if list(a.index) != list(b.index):
        return False
    return a.equals(b)


def run_case(case, stats):
    """None if the real code meets the requirement on this case, else a failure record."""
    df = _frame(case)
    stats["evaluations"] += 1
    try:
        res, original, problems = _call(df, case)
    except Exception as ex:  # the property gives no licence to raise on any table of the family
        return _fail(case, f"{type(ex).__name__}: {str(ex)[:300]}", "a pruned table")
    if problems:
        return _fail(case, "; ".join(problems), "see check M")
    try:
        kept = _positions(original, res, case)
    except Exception as ex:
        return _fail(case, f"returned frame has rows that are not rows of the input ({type(ex).__name__}: {ex})", "a sub-table of the input")
    if kept != sorted(set(kept)):
        return _fail(case, {"kept_positions": kept}, "each input row at most once, in input order")
    if not _frames_equal(res, original.iloc[kept]):
        return _fail(case, "returned rows differ from the input rows at the kept positions (values / columns / index)", "the input restricted to the kept rows")
    t_obj, t_res, A = _effective(case)
    if not (t_obj or t_res or A):
        want = required_exact(original, case)
        if kept != want:
            return _fail(case, {"kept_positions": kept}, {"kept_positions": want, "check": "Z"})
        stats["exact"] += 1
    else:
        bad = tolerance_violation(original, case, kept, t_obj, t_res, A)
        if bad is not None:
            return _fail(case, {"kept_positions": kept, "undominated_dropped_row": bad}, {"check": "T", "t_obj": t_obj, "t_res": t_res, "A": A, "bound": "a <= (b+A) + t*max(0,b+A) per column, by one kept row with equal fused/split values"})
        stats["tolerance"] += 1
        if len(kept) < len(required_exact(original, case)):
            stats["tolerance_pruned_more"] += 1
    if len(kept) < len(original):
        stats["some_row_dropped"] += 1
    return kept


def _fail(case, observed, required):
    return {"failed": True, "input": case, "observed": observed, "required": required}


# ------------------------------------------------------------------------------------------------ constant columns (check K)

def _const_variants(case, rnd):
    """Tables that differ from `case` only in constant columns."""
    out = []
    n = case["n"]
    if n == 0:
        return out
    used = {c["name"] for c in case["columns"]}
    pools = {"obj": OBJ_NAMES, "res": RES_NAMES, "fused": FUSED_NAMES, "niter": NITER_NAMES, "other": OTHER_NAMES}
    add = []
    for cls in rnd.sample(list(pools), rnd.randint(1, 4)):
        free = [x for x in pools[cls] if x not in used]
        if not free:
            continue
        name = rnd.choice(free)
        used.add(name)
        v = rnd.choice([0, 1, 5, -3, 0.75, 1000])
        dt = rnd.choice(["int64", "float64", "float32"]) if float(v) == int(v) else rnd.choice(["float64", "float32"])
        add.append({"name": name, "cls": cls, "dtype": dt, "values": [v] * n})
    if add:
        cols = list(case["columns"])
        for c in add:
            cols.insert(rnd.randint(0, len(cols)), c)
        v = dict(case, columns=cols)
        v["variant"] = "constant columns added: " + ", ".join(c["name"] for c in add)
        out.append(v)
    const = [c for c in case["columns"] if c["name"] != ROWID and c["dtype"] != "object" and len(set(c["values"])) <= 1]
    rest = [c for c in case["columns"] if c not in const]
    if const and rest:
        v = dict(case, columns=rest)
        if v.get("columns_arg") is not None:
            v["columns_arg"] = [x for x in v["columns_arg"] if x in {c["name"] for c in rest}]
        v["variant"] = "constant columns removed: " + ", ".join(c["name"] for c in const)
        out.append(v)
    return out


def run_with_variants(case, stats, rnd, variants=True):
    kept = run_case(case, stats)
    if isinstance(kept, dict):
        return kept
    if variants:
        for v in _const_variants(case, rnd):
            k2 = run_case(v, stats)
            if isinstance(k2, dict):
                return k2
            stats["constant_column_variants"] += 1
            if k2 != kept:
                return _fail(v, {"kept_positions": k2}, {"kept_positions": kept, "check": "K: same rows as without the change (" + v["variant"] + ")"})
    return None


# ------------------------------------------------------------------------------------------------ exhaustive cores

def _core_tables(names_cls, value_sets, max_len):
    for n in range(0, max_len + 1):
        for rows in itertools.product(itertools.product(*value_sets), repeat=n):
            cols = []
            for k, (name, cls) in enumerate(names_cls):
                cols.append({"name": name, "cls": cls, "dtype": "int64", "values": [r[k] for r in rows]})
            yield {"n": n, "columns": cols, "index": None}


def directed_cases():
    """One two-row table per column name of the convention lists: the name alone must decide the column's role."""
    def col(name, cls, vals, dt="int64"):
        return {"name": name, "cls": cls, "dtype": dt, "values": vals}

    base = col("Total<SEP>energy", "obj", [1, 2])
    for name in OTHER_NAMES:
        yield {"n": 2, "columns": [base, col(name, "other", [2, 1])], "index": None}
        yield {"n": 2, "columns": [col(name, "other", [2.0, 1.0], "float64"), col("reservation<SEP>GLB<SEP>0<SEP>left", "res", [1, 2])], "index": None}
    for name in NITER_NAMES:
        yield {"n": 2, "columns": [base, col(name, "niter", [2, 1])], "index": None}
    for name in OBJ_NAMES:
        yield {"n": 2, "columns": [col(name, "obj", [2, 1]), col("tensor<SEP>A", "other", [1, 2])], "index": None}
        yield {"n": 3, "columns": [col(name, "obj", [1.0, 1.03125, 1.5], "float64"), col("reservation<SEP>GLB<SEP>0<SEP>left", "res", [3.0, 2.0, 1.0], "float64")], "index": None, "t_obj": 0, "t_res": 0.5, "A": 0}
    for name in RES_NAMES:
        yield {"n": 2, "columns": [col(name, "res", [2, 1]), col("tensor<SEP>A", "other", [1, 2])], "index": None}
        yield {"n": 3, "columns": [col(name, "res", [1.0, 1.03125, 1.5], "float64"), col("Total<SEP>latency", "obj", [3.0, 2.0, 1.0], "float64")], "index": None, "t_obj": 0.5, "t_res": 0, "A": 0}
    for name in FUSED_NAMES:
        yield {"n": 2, "columns": [base, col(name, "fused", [0, 1])], "index": None}
    for name in SPLIT_NAMES:
        yield {"n": 2, "columns": [base, col(name, "split", [0, 1])], "index": None}
        yield {"n": 2, "columns": [base, col(name, "other", [0, 1])], "index": None}  # same column, not passed as split_by_cols


def core_cases(tier):
    for c in directed_cases():
        yield "D", c
    a = [("Total<SEP>energy", "obj"), ("reservation<SEP>GLB<SEP>0<SEP>left", "res"), ("fused_loop<SEP>E1<SEP>tile_shape0", "fused")]
    b = [("Total<SEP>energy", "obj"), ("Total<SEP>latency", "obj"), ("reservation<SEP>GLB<SEP>1<SEP>right", "res")]
    for c in _core_tables(a, [(1, 2), (1, 2), (0, 1)], 3 if tier == "quick" else 4):
        yield "A", c
    for c in _core_tables(b, [(1, 2), (1, 2), (1, 2)], 3 if tier == "quick" else 4):
        yield "B", c
    if tier != "quick":
        for c in _core_tables(a, [(0, 1, 2), (0, 1, 2), (0, 1)], 3):
            yield "C", c


TOL_CORE_VALUES = (1.0, 1.03125, 1.5, 2.5)
TOL_CORE_COMBOS = [(0.1, 0, 0), (0, 0.1, 0), (0, 0, 0.25), (0.5, 0.1, 0.25), (0.1, 0.5, 0.25), (0.5, 0.5, 0)]


def tol_core_cases(tier):
    names = [("Total<SEP>latency", "obj"), ("reservation<SEP>GLB<SEP>0<SEP>right", "res")]
    combos = TOL_CORE_COMBOS if tier == "quick" else [(a, b, c) for a in (0, 0.1, 0.5) for b in (0, 0.1, 0.5) for c in (0, 0.25, 1.0) if (a, b, c) != (0, 0, 0)]
    for r1 in itertools.product(TOL_CORE_VALUES, repeat=2):
        for r2 in itertools.product(TOL_CORE_VALUES, repeat=2):
            for (t_obj, t_res, A) in combos:
                cols = [{"name": nm, "cls": cl, "dtype": "float64", "values": [r1[k], r2[k]]} for k, (nm, cl) in enumerate(names)]
                yield {"n": 2, "columns": cols, "index": None, "t_obj": t_obj, "t_res": t_res, "A": A}


# ------------------------------------------------------------------------------------------------ random family

def _pick_n(rnd, wide):
    if wide:
        return rnd.randint(40, 150)
    r = rnd.random()
    if r < 0.03:
        return 0
    if r < 0.08:
        return 1
    if r < 0.25:
        return rnd.randint(2, 3)
    if r < 0.65:
        return rnd.randint(4, 9)
    return rnd.randint(10, 40)


def _exact_values(rnd, n, vr, scale, offset):
    return [(offset + rnd.randrange(vr)) * scale for _ in range(n)]


def _dtype_for(rnd, values, allow_int=True):
    if allow_int and all(float(v) == int(v) for v in values):
        return rnd.choice(["int64", "int64", "float64", "float32", "int32"])
    return rnd.choice(["float64", "float32"])


def _tol_values(rnd, n, t):
    style = rnd.random()
    if style < 0.35:  # clusters around a few bases, spaced relative to the tolerance
        bases = [rnd.choice([1.0, 3.0, 7.5, 40.0, 512.0]) for _ in range(rnd.randint(1, 3))]
        tt = t if t else 0.1
        return [rnd.choice(bases) * (1 + tt * rnd.choice([0, 0.3, 0.49, 0.51, 0.99, 1.01, 1.5, 2.0, 3.0])) for _ in range(n)]
    if style < 0.6:  # log-uniform
        return [round(0.5 * (4000 ** rnd.random()), 3) for _ in range(n)]
    if style < 0.85:  # small integers
        k = rnd.choice([3, 6, 20, 50])
        return [rnd.randint(1, k) for _ in range(n)]
    if style < 0.95:  # zeros present (the relative rounding must then be exact or absolute)
        return [rnd.choice([0, 0, 0.5, 1, 2, 2.1, 5]) for _ in range(n)]
    return [rnd.choice([-2, -1.5, 0, 1, 1.05, 3]) for _ in range(n)]


def _other_values(rnd, n):
    kind = rnd.randrange(6)
    if kind == 0:
        return "int64", [rnd.randrange(5) for _ in range(n)]
    if kind == 1:
        return "float64", [rnd.choice([0.5, 1.5, float("nan"), 7.0]) for _ in range(n)]
    if kind == 2:
        return "object", [rnd.choice(["a", "b", "c"]) for _ in range(n)]
    if kind == 3:
        return "object", [{"id": rnd.randrange(3)} for _ in range(n)]
    if kind == 4:
        return "float32", [float(rnd.randrange(100)) for _ in range(n)]
    return "int64", [-rnd.randrange(1000) for _ in range(n)]  # would reverse dominance if it were used


def rand_case(rnd, tol):
    wide = rnd.random() < 0.05
    n = _pick_n(rnd, wide)
    n_obj = rnd.choice([0, 1, 1, 2, 2, 3]) if not wide else rnd.choice([2, 3])
    n_res = rnd.choice([0, 0, 1, 1, 2, 3]) if not wide else rnd.choice([1, 2])
    n_fused = rnd.choice([0, 0, 1, 1, 2]) if not wide else rnd.choice([0, 0, 1])
    n_niter = rnd.choice([0, 0, 1, 2])
    n_split = rnd.choice([0, 0, 0, 1])
    n_other = rnd.choice([0, 1, 2, 3])
    vr = rnd.choice([2, 3, 4, 8, 30]) if not wide else rnd.choice([8, 30, 60])
    scale = rnd.choice([1, 1, 0.25, 0.5, 16])
    offset = rnd.choice([0, 0, 1, -2, 100])
    t_obj = t_res = A = 0
    if tol:
        t_obj = rnd.choice(TOL_GRID_OBJ)
        t_res = rnd.choice(TOL_GRID_RES)
        A = rnd.choice(TOL_GRID_ABS)
        if not (t_obj or t_res or A):
            t_obj = 0.1
    cols = []
    for name in rnd.sample(OBJ_NAMES, n_obj):
        vals = _tol_values(rnd, n, t_obj) if tol else _exact_values(rnd, n, vr, scale, offset)
        cols.append({"name": name, "cls": "obj", "values": vals})
    for name in rnd.sample(RES_NAMES, n_res):
        vals = _tol_values(rnd, n, t_res) if tol else _exact_values(rnd, n, vr, scale, offset)
        cols.append({"name": name, "cls": "res", "values": vals})
    for name in rnd.sample(FUSED_NAMES, n_fused):
        k = rnd.choice([1, 2, 2, 3])
        cols.append({"name": name, "cls": "fused", "values": [rnd.choice([1, 2, 4, 8][:k]) for _ in range(n)]})
    for name in rnd.sample(NITER_NAMES, n_niter):
        cols.append({"name": name, "cls": "niter", "values": [rnd.randint(1, 4) for _ in range(n)]})
    for name in rnd.sample(SPLIT_NAMES, n_split):
        if rnd.random() < 0.25:
            cols.append({"name": name, "cls": "split", "dtype": "object", "values": [rnd.choice(["x", "y"]) for _ in range(n)]})
        else:
            cols.append({"name": name, "cls": "split", "values": [rnd.choice([0, 3]) for _ in range(n)]})
    # make some columns constant
    for c in cols:
        if n and rnd.random() < 0.1:
            c["values"] = [c["values"][0]] * n
    # duplicates on all compared columns (the other columns still differ)
    if n >= 2 and rnd.random() < 0.4:
        for _ in range(rnd.randint(1, max(1, n // 3))):
            i, j = rnd.randrange(n), rnd.randrange(n)
            for c in cols:
                c["values"][j] = c["values"][i]
    for c in cols:
        if "dtype" not in c:
            if tol and c["cls"] in ("obj", "res"):
                c["dtype"] = _dtype_for(rnd, c["values"], allow_int=rnd.random() < 0.5)
                if c["dtype"] == "float32":
                    import numpy as np

                    c["values"] = [float(np.float32(v)) for v in c["values"]]
            else:
                c["dtype"] = _dtype_for(rnd, c["values"])
    for name in rnd.sample(OTHER_NAMES, n_other):
        dt, vals = _other_values(rnd, n)
        cols.append({"name": name, "cls": "other", "dtype": dt, "values": vals})
    rnd.shuffle(cols)
    case = {"n": n, "columns": cols, "index": None, "t_obj": t_obj, "t_res": t_res, "A": A}
    # index flavours; a row-id column whenever labels cannot identify rows
    r = rnd.random()
    if r < 0.25:
        lab = list(range(n))
        rnd.shuffle(lab)
        case["index"] = [x * 3 + 7 for x in lab]
    elif r < 0.35:
        case["index"] = [f"r{(i * 7) % max(n, 1)}_{i}" for i in range(n)]
    elif r < 0.5:
        case["index"] = [rnd.randrange(3) for _ in range(n)]
        cols.insert(rnd.randint(0, len(cols)), {"name": ROWID, "cls": "other", "dtype": "int64", "values": [100 + i for i in range(n)]})
    elif r < 0.6:
        cols.insert(rnd.randint(0, len(cols)), {"name": ROWID, "cls": "other", "dtype": "int64", "values": [100 + i for i in range(n)]})
    if not cols:  # a table needs a column to have rows
        cols.append({"name": ROWID, "cls": "other", "dtype": "int64", "values": [100 + i for i in range(n)]})
    # how the real code is reached
    r = rnd.random()
    if r < 0.6:
        case["via"] = "makepareto"
        case["split_as_tuple"] = rnd.random() < 0.5
        if tol and rnd.random() < 0.1:
            which = rnd.choice(["t_obj", "t_res", "A"])
            case[which] = None  # None means zero
            if not (_z(case["t_obj"]) or _z(case["t_res"]) or _z(case["A"])):
                case["t_obj"] = 0.1
        if not tol and rnd.random() < 0.3:
            case["pass_tolerances"] = False  # defaults
        pc = [c["name"] for c in cols if c["cls"] in ("obj", "res")]
        if pc and rnd.random() < 0.15:
            case["columns_arg"] = sorted(rnd.sample(pc, rnd.randint(1, len(pc))))
            case["columns_as_set"] = rnd.random() < 0.5
    else:
        # PmappingDataframe: split_by_cols cannot be passed -> such columns become ignored columns
        for c in cols:
            if c["cls"] == "split":
                c["cls"] = "other"
        if not tol and rnd.random() < 0.25:
            case["via"] = "ctor"
        else:
            case["via"] = "make_pareto"
            case["inplace"] = rnd.random() < 0.5
            case["repeat"] = rnd.random() < 0.5
        case["drop_valid_reservations"] = rnd.random() < 0.5
    return case


# ------------------------------------------------------------------------------------------------ sweep

def _sample_text(case):
    parts = []
    for c in case["columns"][:6]:
        parts.append(f"{c['name']}[{c['cls']},{c['dtype']}]={c['values'][:5]}{'...' if len(c['values']) > 5 else ''}")
    tol = f" t_obj={case.get('t_obj', 0)} t_res={case.get('t_res', 0)} A={case.get('A', 0)}"
    s = f"n={case['n']} via={case.get('via', 'makepareto')}{tol} | " + "; ".join(parts)
    return s[:400]


def _new_stats():
    return {"evaluations": 0, "exact": 0, "tolerance": 0, "tolerance_pruned_more": 0, "some_row_dropped": 0, "constant_column_variants": 0}


def _sweep(seed, tier, n_random, known=None, core=True, tol_core=True):
    rnd = random.Random(int(seed) * 1000003 + (17 if tier == "quick" else 29))
    stats = _new_stats()
    seen, samples = set(), []
    n_core = n_tol_core = 0

    def done(res):
        res.update({"evaluations": stats["evaluations"], "distinct": len(seen)})
        return res, stats, samples, (n_core, n_tol_core)

    if core:
        for tag, case in core_cases(tier):
            n_core += 1
            seen.add(repr(case))
            res = run_with_variants(case, stats, rnd, variants=(n_core % 16 == 0))
            if res is not None:
                return done(res)
    if tol_core:
        for case in tol_core_cases(tier):
            n_tol_core += 1
            seen.add(repr(case))
            res = run_with_variants(case, stats, rnd, variants=(n_tol_core % 16 == 0))
            if res is not None:
                return done(res)
    for i in range(n_random):
        tol = (i % 2 == 1)
        case = rand_case(rnd, tol)
        seen.add(repr(case))
        res = run_with_variants(case, stats, rnd, variants=(tol or i % 6 == 0))
        if res is not None:
            return done(res)
        if len(samples) < 8 and 2 <= case["n"] <= 5 and i % 5 == 0:
            samples.append(_sample_text(case))
    return done({"failed": False})


def _bound(tier):
    blen = 3 if tier == "quick" else 4
    return (
        "directed two/three-row tables, one per column name of the convention lists (objective / reservation / fused / n_iterations / split / ignored and look-alike names); "
        f"exhaustive cores (zero tolerance, int64): A = every sequence of <= {blen} rows over (objective, reservation, fused tile shape) in {1,2}x{1,2}x{0,1}; "
        f"B = every sequence of <= {blen} rows over (objective, objective, reservation) in {{1,2}}^3"
        + ("; C = every sequence of <= 3 rows over {0,1,2}x{0,1,2}x{0,1}" if tier != "quick" else "")
        + f"; tolerance core = every 2-row table over (objective, reservation) in {list(TOL_CORE_VALUES)}^2 under "
        + (f"{len(TOL_CORE_COMBOS)} (t_obj,t_res,A) combinations" if tier == "quick" else "every (t_obj,t_res,A) in {0,.1,.5}x{0,.1,.5}x{0,.25,1} except all-zero")
        + ". Random family: 0-40 rows (5% 40-150 rows), 0-3 objective, 0-3 reservation, 0-2 fused tile-shape, 0-2 n_iterations, 0-1 split_by_cols, 0-3 ignored "
        "(tensor/mapping/action/NaN/dict/look-alike names) columns in random order; dtypes int64/int32/float64/float32; index default/permuted/strings/duplicated; "
        "zero-tolerance values (offset + k)*scale with k < 2..60, scale in {1,1/4,1/2,16}, offset in {0,1,-2,100} (exact in float32, exact row sums), "
        f"tolerance values: clusters spaced relative to t, log-uniform in [0.5,2000], small integers, with zeros and negatives; t_obj in {TOL_GRID_OBJ}, t_res in {TOL_GRID_RES}, "
        f"A in {TOL_GRID_ABS} (None = 0); entry points makepareto (columns=None/list/set, split_by_cols list/tuple, default tolerances), PmappingDataframe "
        "construction, PmappingDataframe.make_pareto (inplace both ways, drop_valid_reservations both ways, repeated). No NaN/inf, |v| < 2**14 in compared columns."
    )


RULE = (
    "the real makepareto / PmappingDataframe(...)/.make_pareto is run on a generated pandas table whose column classes are known by construction; the rows of the "
    "returned frame are located in the input (by label or row-id column) and (Z) at zero tolerance compared with the O(n^2) definition: kept iff no other row with "
    "equal fused/split values is <= on every objective and reservation column (equal rows: first kept); (T) under tolerances every dropped row must be matched by one "
    "kept row with equal fused/split values and a <= (b+A)+t*max(0,b+A) on every column (t = objective tolerance, A = 0 on objectives; t = resource tolerance, "
    "A = absolute tolerance on reservations; resource tolerance := objective tolerance when drop_valid_reservations); the returned frame must equal the input "
    "restricted to the kept rows and the input must be unmodified; (K) the same call on the table with constant columns added / its constant columns removed must keep "
    "the same rows; (M) inplace / non-inplace frame conditions and idempotence of a second zero-tolerance call."
)


def _finish(res, stats, samples, cores, tier):
    if res.get("failed"):
        return res
    res.update({
        "known_finding_hits": 0,
        "bound": _bound(tier),
        "rule": RULE + f" This run: {cores[0]} zero-tolerance core tables, {cores[1]} tolerance core tables; {stats['exact']} exact comparisons, {stats['tolerance']} tolerance "
                       f"checks ({stats['tolerance_pruned_more']} of them pruned more than the zero-tolerance front, i.e. the tolerance was exercised), {stats['some_row_dropped']} calls dropped a row, "
                       f"{stats['constant_column_variants']} constant-column variants.",
        "exhaustive": True,
        "samples": samples,
        "stats": stats,
    })
    return res


def bounded(p):
    tier = p.get("tier", "quick")
    if tier not in ("quick", "thorough"):
        tier = "quick"
    n_random = 1400 if tier == "quick" else 50000
    res, stats, samples, cores = _sweep(p.get("seed", 0), tier, n_random, p.get("known"))
    return _finish(res, stats, samples, cores, tier)


def crosscheck(p):
    tier = "quick" if int(p.get("n", 200)) <= 200 else "thorough"
    return bounded({"seed": p.get("seed", 0), "tier": tier, "known": p.get("known")})


def replay(p):
    ob = str(p.get("obligation") or "").lower()
    tol_only = any(w in ob for w in ("toler", "round", "slack", "logscale"))
    res, stats, samples, cores = _sweep(p.get("seed", 0), "quick", 700, p.get("known"), core=not tol_only, tol_core=True)
    if res.get("failed"):
        return {"failed": True, "input": res["input"], "observed": res["observed"], "required": res["required"]}
    return {"failed": False, "tried": stats["evaluations"]}


def witness(p):
    return {"failed": False}
