"""C15 — compressing pmapping tables for joining loses no per-row detail.

Under contract (proof level) is the start-index bookkeeping of
accelforge/mapper/FFM/_join_pmappings/compress_pmappings.py:_compress_pmapping_list (SLICE: the loop that
creates one job per pmapping group): group k is compressed with start index  sum of the row counts of the
groups before it, so the compressed-index values of different groups never overlap and a compressed index
identifies (group, row).  _compress, decompress_pmappings and everything that is pandas (reset_index,
column selection, merge on the index, concat) are NOT under contract: the property is decided by the bounded
check (oracles/C15.py) and the check is registered at level `exploration`.
"""
import z3
from vf.dsl import *
import vf.values as VV

P = Property("C15", "Compressing pmapping tables for joining loses no per-row detail")
F = "accelforge/mapper/FFM/_join_pmappings/compress_pmappings.py"
P.oracle = "C15"
P.claim_level = "exploration"
P.assume_note("len(pmapping.mappings.data) is the (non-negative) row count of the group; delayed(job)(s, g) is the job (job, (s, g))")

P.field("mappings", OBJ("PmappingDataframe"))
P.field("data", OBJ("DataFrame"))
P.classes |= {"PmappingGroup", "PmappingDataframe", "DataFrame"}
ROWS = Function("row_count", Ref, IntSort())
JOB = Function("delayed_job", IntSort(), Ref, Val)      # delayed(job)(start_index, pmapping)


@P.external("__len__", "len(DataFrame): the number of rows (>= 0)", cls="DataFrame")
def c_len(c):
    d = c.arg("self", OBJ("DataFrame"))
    c.result(INT)
    c.post("row_count", lambda r: And(r == ROWS(d.ref), r >= 0))


class _Delayed:
    pass


@P.external("delayed", "joblib.delayed(job): a callable that packs its arguments into a job")
def c_delayed(c):
    c.arg("function", CONST(None))  # the function value itself is not inspected
    c.result_is(VV.ObjV(Const("the_delayed_job_factory", Ref), "DelayedJob"))


@P.external("__call__", "delayed(job)(start_index, pmapping): the job (job, (start_index, pmapping))", cls="DelayedJob")
def c_delayed_call(c):
    c.arg("self", OBJ("DelayedJob"))
    s = c.arg("start_index", INT)
    g = c.arg("pmappings", OBJ("PmappingGroup"))
    c.result_is(JOB(s, g.ref))


P.classes |= {"DelayedJob"}


@P.slice(F, "_compress_pmapping_list", "start_indices", "start_index = 0", "for pmapping in pmappings")
def c_start_indices(c):
    groups = c.var("pmappings", SEQ(OBJ("PmappingGroup")))
    c.local("jobs", SEQ(VAL))
    ex = c.ex
    k, i = Ints("sk si")
    c.pre("groups_exist", ForAll([k], Implies(And(k >= 0, k < groups.n), at(groups, k) != NULL), patterns=[at(groups, k)]))
    rows = lambda j: ROWS(ex.read_field(ex.read_field(ObjV(at(groups, j), "PmappingGroup"), "mappings"), "data").ref)
    START = Function(fresh_name("start_of_group"), IntSort(), IntSort())
    ex.assume(START(0) == 0)
    ex.assume(ForAll([k], Implies(And(k >= 0, k < groups.n), START(k + 1) == START(k) + rows(k)), patterns=[START(k + 1)]))

    def spec(jobs, start, upto):
        jobs = ex.materialize(jobs)
        return [("one_job_per_group_with_the_rows_before_it_as_start_index", And(jobs.n == upto, forall([i], Implies(And(i >= 0, i < upto), at(jobs, i) == JOB(START(i), at(groups, i))), patterns=[at(jobs, i)]))),
                ("start_index_is_the_number_of_rows_so_far", start == START(upto))]

    c.post("one_job_per_group_with_the_rows_before_it_as_start_index", lambda res: spec(res["jobs"], res["start_index"], groups.n)[0][1])
    c.post("start_index_is_the_total_row_count", lambda res: spec(res["jobs"], res["start_index"], groups.n)[1][1])
    c.invariant("L0", lambda L: spec(L.v("jobs"), L.v("start_index"), L.k))


# ---- decompress_pmappings: the search for the sub-table of a compressed index (SLICE) ---------------------
P.field("index", OBJ("Index"))
P.classes |= {"Index", "Mask"}
P.eq_override |= {"Index"}
MASK = Function("index_equals", Ref, IntSort(), Ref)      # (df.index == i): an elementwise mask
SEL = Function("rows_where", Ref, Ref, Ref)                # df[mask]
COL = Function("column_values", Ref, ArraySort(IntSort(), IntSort()))
COLN = Function("column_length", Ref, IntSort())


@P.external("__eq__", "pandas Index == scalar: the elementwise mask", cls="Index")
def c_index_eq(c):
    ix = c.arg("self", OBJ("Index"))
    i = c.arg("other", INT)
    c.result_is(ObjV(MASK(ix.ref, i), "Mask"))


@P.external("__getitem__", "DataFrame[mask] (the rows where the mask holds) / DataFrame[column name] (the column's values)", cls="DataFrame")
def c_df_getitem(c):
    d = c.arg("self", OBJ("DataFrame"))
    k = c.arg("key", CONST(None))
    if c.mode != "call":
        return
    if isinstance(k, ObjV):
        c.result_is(ObjV(SEL(d.ref, k.ref), "DataFrame"))
    else:
        n = COLN(d.ref)
        c.ex.assume(n >= 0)
        c.result_is(SeqV(IntSort(), COL(d.ref), n))


@P.slice(F, "decompress_pmappings", "find_sub_tables", "decompress_sub_dfs = []", "for i in reversed(sorted(oset(data[")
def c_find_sub_tables(c):
    data = c.var("data", OBJ("DataFrame"))
    dec = c.var("decompress", MAP(INT, OBJ("DataFrame")))
    c.var("einsum_name", ELEM)
    c.local("decompress_sub_dfs", SEQ(OBJ("DataFrame")))
    c.local("chosen", OPT(OBJ("DataFrame")))
    ex = c.ex
    (ka,) = arrs_of(dec.keys)
    m = dec.keys.n
    K = lambda j: Select(ka, j)
    DF = lambda j: Select(dec.val, K(j))
    INDEX = lambda r: Select(ex.heap_arrays("index")[0], r)
    rows_at = lambda df, i_: ROWS(SEL(df, MASK(INDEX(df), i_)))
    j, i, p, q = Ints("dj di dp dq")
    # what compress establishes (see the slice above and _compress): sub-table j starts at key K[j]; the keys
    # increase; its index values are exactly K[j] .. K[j] + rows - 1, below the next key
    c.pre("start_indices_increase", ForAll([p, q], Implies(And(p >= 0, p < q, q < m), K(p) < K(q))))
    c.pre("sub_tables_exist", ForAll([j], Implies(And(j >= 0, j < m), DF(j) != NULL), patterns=[DF(j)]))
    c.pre("a_sub_table_ends_before_the_next_starts", ForAll([j], Implies(And(j >= 0, j + 1 < m), K(j) + ROWS(DF(j)) <= K(j + 1)), patterns=[DF(j)]))
    c.pre("index_of_a_sub_table_is_its_own_range", ForAll([j, i], Implies(And(j >= 0, j < m), rows_at(DF(j), i) == If(And(K(j) <= i, i < K(j) + ROWS(DF(j))), 1, 0)), patterns=[rows_at(DF(j), i)]))
    col = SeqV(IntSort(), COL(data.ref), COLN(data.ref))
    GRP = Function(fresh_name("group_of_index"), IntSort(), IntSort())
    c.pre("every_joined_index_is_a_row_of_some_sub_table", ForAll([p], Implies(And(p >= 0, p < col.n), And(GRP(at(col, p)) >= 0, GRP(at(col, p)) < m,
          K(GRP(at(col, p))) <= at(col, p), at(col, p) < K(GRP(at(col, p))) + ROWS(DF(GRP(at(col, p)))))), patterns=[at(col, p)]))
    c.raises("AssertionError", when=lambda: BoolVal(False), name="never")
    c.raises("StopIteration", when=lambda: BoolVal(False), name="never_runs_out_of_sub_tables")

    def picked(subs, seq, upto):
        subs = ex.materialize(subs)
        seq = ex.materialize(seq)
        return [("one_row_per_joined_index_from_the_sub_table_that_holds_it", And(subs.n == upto, forall([p], Implies(And(p >= 0, p < upto),
                 at(subs, p) == SEL(DF(GRP(at(seq, p))), MASK(INDEX(DF(GRP(at(seq, p)))), at(seq, p)))), patterns=[at(subs, p)])))]

    state = {}

    def inv_outer(L):  # for i in reversed(sorted(set(column)))
        state["seq"] = L.seq
        seq = ex.materialize(L.seq)
        pos, ch, st = L.v("__pos_decompressed_iter"), L.v("chosen"), L.v("start_index")
        cur = m - pos  # index (in insertion order) of the sub-table held in `chosen`
        return picked(L.v("decompress_sub_dfs"), L.seq, L.k) + [
            ("iterator_position", And(pos >= 0, pos <= m, ch.isnone == (pos == 0), Implies(L.k == 0, pos == 0))),
            ("chosen_is_the_sub_table_at_the_position", Implies(pos > 0, And(ch.val.ref == DF(cur), VV.to_real(st) == ToReal(K(cur))))),
            ("indices_come_in_descending_order_and_are_joined_indices", forall([p], Implies(And(p >= 0, p < seq.n), And(mem(col, at(seq, p)), Implies(p + 1 < seq.n, at(seq, p + 1) < at(seq, p)))), patterns=[at(seq, p)])),
            ("sub_table_of_the_previous_index_was_reached", Implies(And(L.k > 0, L.k <= seq.n), And(pos > 0, K(cur) <= at(seq, L.k - 1), at(seq, L.k - 1) < K(cur) + ROWS(DF(cur))))),
        ]

    def inv_inner(L):  # while chosen is None or i < start_index
        i_ = L.v("i")
        pos, ch, st = L.v("__pos_decompressed_iter"), L.v("chosen"), L.v("start_index")
        cur = m - pos
        return [("iterator_position", And(pos >= 0, pos <= m, ch.isnone == (pos == 0))),
                ("chosen_is_the_sub_table_at_the_position", Implies(pos > 0, And(ch.val.ref == DF(cur), VV.to_real(st) == ToReal(K(cur))))),
                ("the_sub_table_of_i_is_not_passed", GRP(i_) <= If(pos > 0, cur, m - 1))]

    c.invariant("L0", inv_outer)
    c.invariant("L1", inv_inner)
    c.variant("L1", lambda L: m - L.v("__pos_decompressed_iter") + 1)
    c.post("one_row_per_joined_index_from_the_sub_table_that_holds_it", lambda res: picked(res["decompress_sub_dfs"], state["seq"], state["seq"].n)[0][1])
